"""C21 Retry policy retries exactly the transient failures.

Decides (from the syntax trees of hailtop/utils/utils.py, hailtop/httpx.py and the constructor sites of the classified exceptions; nothing is run):
  R1  decision table of the `except Exception` handler of the retry loops, over every valuation of the classifier predicates and every
      order class of the counters (tries, a dedicated limited-retry budget) against the constants they are compared with: re-raise iff the
      statement says so; a dedicated budget counter is monotone (only `+= 1` inside the loop: no reset, no decrement)
  R2  per failure: `tries` incremented exactly once; on every retried path the value slept on is, by an interval + unit analysis over all
      definitions reaching the sleep, exactly delay_ms_for_try(tries)/1000 computed after the increment - never above the maximum, never
      mixing ms with s, never a value read off the exception unless clamped inside the documented band
      A call that binds an OPTIONAL extra parameter of delay_ms_for_try (a floor, an additive extra: `min_delay_ms=<Retry-After>`) is decided by
      evaluating the body of delay_ms_for_try in the interval domain for every try count with the abstract value the call passes (unbounded for a
      value read off the exception) and comparing with the result at the defaults: a floor applied outside the cap -> unbounded sleep; inside the
      cap -> below the maximum but outside the band of the early tries
  R3  delay_ms_for_try: interval evaluation for every try count -> jitter band [C//2, C] capped at max (optional extra parameters at their defaults)
  R4  classifiers follow __cause__ (and nothing else: not __context__) and end in `return False`
  R5  the public wrappers delegate to the analysed loop
  R6  producer/consumer agreement: every attribute a classifier reads off a repository-defined exception class (body, status, error_codes)
      is written at every constructor site from the full response value (no truncation / stripping / case folding / lenient decoding)
  R7  whatever is_rate_limit_error accepts is_transient_error accepts too (the sync helper consults only the latter), over the finite
      abstract domain of exception class x status class x body tokens
Does not decide: which exception classes count as transient (a policy table).
"""
from __future__ import annotations

import ast
from fractions import Fraction
from typing import Dict, List, Optional, Sequence, Set, Tuple

from engines import absdom, c2021facts as cf, pyfacts as pf
from engines.common import AnalysisError, Ctx, read_repo

META = dict(
    category='proof',
    text='Exhaustive truth table of the extracted retry handlers over all classifier valuations x order classes of the counters, exhaustive interval '
         'evaluation of the back-off function for every try count, interval + unit abstract evaluation of every definition reaching the sleep, a closed '
         'lossless/lossy table over the dataflow from the HTTP response to the classified exception fields, and an exhaustive implication check between '
         'the classifiers over a finite abstract domain; every row is an obligation and all are discharged by our own evaluators over the syntax tree.',
    note='Trusted: CPython ast; the evaluators in engines/absdom.py and engines/c2021facts.py; randrange/asyncio.sleep semantics; aiohttp.ClientResponseError '
         'stores status/message/headers keyword arguments unchanged. Not decided: which exception classes are transient.',
    technique='static analysis: predicate-abstraction truth table + interval/unit abstract interpretation + dataflow classification over the AST',
    design_ref='DESIGN.md §3 C21',
)

F = 'hail/python/hailtop/utils/utils.py'
LIMITED_RETRIES = 5  # from the statement: "give up after at most five retries on limited-retry errors"
PREDS = ['is_limited_retries_error', 'is_rate_limit_error', 'is_transient_error']
CLASSIFIERS = ('is_transient_error', 'is_limited_retries_error', 'is_rate_limit_error')
SLEEPS = ('asyncio.sleep', 'time.sleep')


def _int_const(m: pf.Module, e: ast.AST) -> Optional[int]:
    if isinstance(e, ast.Constant) and isinstance(e.value, int) and not isinstance(e.value, bool):
        return e.value
    if isinstance(e, ast.Name):
        try:
            v = m.global_assign(e.id)
        except AnalysisError:
            return None
        if isinstance(v, ast.Constant) and isinstance(v.value, int) and not isinstance(v.value, bool):
            return v.value
    return None


_KEEP: List[ast.AST] = []   # normalised copies stay alive for the whole run (engines cache facts by id())


def _mentions_name(e: ast.AST, name: str) -> bool:
    return any(isinstance(x, ast.Name) and x.id == name for x in ast.walk(e))


def _normalise_fn(fn: pf.FuncDef) -> pf.FuncDef:
    """A copy of fn in which `x = x + w` / `x = x - w` (and `x = c + x` for a numeric literal c) is the augmented assignment it means.
    Nothing else is changed; locations are kept."""
    import copy
    fn2 = copy.deepcopy(fn)

    class _N(ast.NodeTransformer):
        def visit_Assign(self, node: ast.Assign):
            self.generic_visit(node)
            if len(node.targets) == 1 and isinstance(node.targets[0], ast.Name) and isinstance(node.value, ast.BinOp):
                t, v = node.targets[0].id, node.value
                if isinstance(v.left, ast.Name) and v.left.id == t and not _mentions_name(v.right, t):
                    return ast.copy_location(ast.AugAssign(target=ast.Name(id=t, ctx=ast.Store()), op=v.op, value=v.right), node)
                if isinstance(v.op, (ast.Add, ast.Mult)) and isinstance(v.right, ast.Name) and v.right.id == t and isinstance(v.left, ast.Constant) \
                        and isinstance(v.left.value, (int, float)) and not isinstance(v.left.value, bool):
                    return ast.copy_location(ast.AugAssign(target=ast.Name(id=t, ctx=ast.Store()), op=v.op, value=v.left), node)
            return node
    fn2 = _N().visit(fn2)
    ast.fix_missing_locations(fn2)
    _KEEP.append(fn2)
    return fn2


def _retry_loop(ctx: Ctx, fn: pf.FuncDef, name: str):
    """Recognise   tries = 0; while True: try: return [await] f(...) except ...: ... ; <assignments>; <sleep>"""
    loops = [st for st in fn.body if isinstance(st, ast.While)]
    ctx.need(len(loops) == 1, f'{name}: expected exactly one top-level while loop')
    loop = loops[0]
    ctx.need(isinstance(loop.test, ast.Constant) and bool(loop.test.value) is True and not loop.orelse, f'{name}: loop is not `while True`')
    ctx.need(len(loop.body) >= 1 and isinstance(loop.body[0], ast.Try), f'{name}: loop body does not start with try')
    tr = loop.body[0]
    ctx.need(len(tr.body) == 1 and isinstance(tr.body[0], ast.Return), f'{name}: try body is not a single return')
    ctx.need(not tr.finalbody and not tr.orelse, f'{name}: try has else/finally (unrecognised idiom)')
    return loop, tr, loop.body[1:]


def _sleep_call(st: ast.stmt) -> Optional[ast.Call]:
    call = st.value if isinstance(st, ast.Expr) else None
    if isinstance(call, ast.Await):
        call = call.value
    return call if isinstance(call, ast.Call) else None


def _fmt(x) -> str:
    if x in (cf.INF, -cf.INF):
        return 'unbounded'
    return f'{float(x):g}'


_FLIP = {ast.Lt: ast.Gt, ast.LtE: ast.GtE, ast.Gt: ast.Lt, ast.GtE: ast.LtE}
_INERT_ROOTS = ('log', 'logging', 'logger', 'warnings', 'print', 'traceback')
_NOT_EXCEPTION = ('KeyboardInterrupt', 'asyncio.CancelledError', 'CancelledError', 'asyncio.exceptions.CancelledError', 'SystemExit', 'GeneratorExit')


def _local_int_const(m: pf.Module, fn: pf.FuncDef, e: ast.AST) -> Optional[int]:
    """An integer literal, a module-level integer constant, or a local of fn bound exactly once to one of those."""
    c = _int_const(m, e)
    if c is not None:
        return c
    if isinstance(e, ast.Name):
        d = pf.single_def(fn, e.id)
        if isinstance(d, ast.expr) and not isinstance(d, ast.Name):
            return _int_const(m, d)
        if isinstance(d, ast.Name):
            return _int_const(m, d)
    return None


def _counter_cmp(m: pf.Module, fn: pf.FuncDef, a: ast.AST, counters: Set[str]):
    """(counter, comparison class, constant) for `counter <op> K` and `K <op> counter` (K an integer constant), else None."""
    if not (isinstance(a, ast.Compare) and len(a.ops) == 1 and type(a.ops[0]) in _FLIP):
        return None
    l, r, op = a.left, a.comparators[0], type(a.ops[0])
    if isinstance(l, ast.Name) and l.id in counters and _local_int_const(m, fn, r) is not None and not (isinstance(r, ast.Name) and r.id in counters):
        return l.id, op, _local_int_const(m, fn, r)
    if isinstance(r, ast.Name) and r.id in counters and _local_int_const(m, fn, l) is not None and not (isinstance(l, ast.Name) and l.id in counters):
        return r.id, _FLIP[op], _local_int_const(m, fn, l)
    return None


def _inert_call(m: pf.Module, c: ast.AST, depth: int = 2) -> bool:
    """A call that can neither wait, nor leave the handler, nor change what the loop does next: logging, or a synchronous module-level
    helper made of such calls only."""
    if not isinstance(c, ast.Call) or any(isinstance(x, (ast.Await, ast.Yield, ast.YieldFrom)) for x in ast.walk(c)):
        return False
    d = pf.dotted(c.func) or ''
    if d.split('.')[0] in _INERT_ROOTS and d not in SLEEPS:
        return True
    if depth > 0 and isinstance(c.func, ast.Name) and m.has_func(c.func.id):
        h = m.func(c.func.id)
        if isinstance(h, ast.FunctionDef) and not pf.decorators(h):
            return all(_inert_stmt(m, s, set(), depth - 1) for s in h.body)
    return False


def _inert_stmt(m: pf.Module, s: ast.stmt, loaded_outside: Set[str], depth: int = 2) -> bool:
    if isinstance(s, ast.Pass):
        return True
    if isinstance(s, ast.Expr):
        return isinstance(s.value, ast.Constant) or _inert_call(m, s.value, depth)
    if isinstance(s, (ast.Assign, ast.AnnAssign)):
        ts = s.targets if isinstance(s, ast.Assign) else [s.target]
        if s.value is None or any(isinstance(x, (ast.Await, ast.Yield, ast.YieldFrom, ast.NamedExpr)) for x in ast.walk(s.value)):
            return False
        return all(isinstance(t, ast.Name) and t.id not in loaded_outside for t in ts)
    if isinstance(s, ast.If):
        return all(_inert_stmt(m, x, loaded_outside, depth) for x in s.body + s.orelse)
    return False


def _prune_inert_ifs(m: pf.Module, fn: pf.FuncDef, stmts: List[ast.stmt]) -> List[ast.stmt]:
    """The statement list with every `if` whose arms only log (and bind names nobody else reads) replaced by `pass`: its test cannot
    influence retry / re-raise / the counters / the delay.  Works on the (already copied) tree in place."""
    out: List[ast.stmt] = []
    for s in stmts:
        if isinstance(s, ast.If):
            inside = {id(x) for x in ast.walk(s)}
            loaded_outside = {x.id for x in ast.walk(fn) if isinstance(x, ast.Name) and isinstance(x.ctx, ast.Load) and id(x) not in inside}
            if all(_inert_stmt(m, x, loaded_outside) for x in s.body + s.orelse) and not any(isinstance(x, (ast.Await, ast.NamedExpr)) for x in ast.walk(s.test)):
                out.append(ast.copy_location(ast.Pass(), s))
                continue
            s.body = _prune_inert_ifs(m, fn, s.body)
            s.orelse = _prune_inert_ifs(m, fn, s.orelse)
        elif isinstance(s, (ast.With, ast.AsyncWith)):
            s.body = _prune_inert_ifs(m, fn, s.body)
        out.append(s)
    return out


def _expand_test_locals(fn: pf.FuncDef, handler: ast.ExceptHandler, unstable: Set[str]) -> None:
    """`limited = is_limited_retries_error(e)` ... `if tries <= 5 and limited:`: a boolean local of the handler that is bound once, ahead of
    the test, to an expression over names that do not change inside the loop is replaced by that expression in the tests (in place)."""
    import copy
    params = {a.arg for a in fn.args.posonlyargs + fn.args.args + fn.args.kwonlyargs}
    in_handler = {id(x) for s in handler.body for x in ast.walk(s)}
    def_stmt: Dict[str, ast.stmt] = {}
    for s in handler.body:
        for x in ast.walk(s):
            if isinstance(x, ast.Assign) and len(x.targets) == 1 and isinstance(x.targets[0], ast.Name):
                def_stmt[x.targets[0].id] = x

    def stable(e: ast.AST, depth: int) -> bool:
        for x in ast.walk(e):
            if isinstance(x, (ast.Await, ast.Yield, ast.YieldFrom, ast.NamedExpr, ast.Lambda)):
                return False
            if isinstance(x, ast.Name) and x.id in unstable:
                return False
        return True

    class _S(ast.NodeTransformer):
        def __init__(self, line: int, depth: int):
            self.line, self.depth = line, depth

        def visit_Name(self, node: ast.Name):
            if isinstance(node.ctx, ast.Load) and node.id not in params and self.depth > 0 and node.id not in unstable:
                d = pf.single_def(fn, node.id)
                st = def_stmt.get(node.id)
                if isinstance(d, ast.expr) and st is not None and st.value is d and id(st) in in_handler and st.lineno < self.line and stable(d, self.depth):
                    return _S(st.lineno, self.depth - 1).visit(copy.deepcopy(d))
            return node

    for s in handler.body:
        for x in ast.walk(s):
            if isinstance(x, ast.If):
                x.test = _S(x.lineno, 3).visit(x.test)
    ast.fix_missing_locations(handler)


def _always_bare_raises(body: Sequence[ast.stmt]) -> bool:
    return len(body) >= 1 and isinstance(body[-1], ast.Raise) and body[-1].exc is None and all(isinstance(s, (ast.Expr, ast.Pass)) and not pf.has_await(s) for s in body[:-1])


class _Undecided(Exception):
    pass


def _inline_deciding_helpers(m: pf.Module, name: str) -> pf.FuncDef:
    """`kind = _retry_kind(e, tries)` ... `if kind is None: raise`: a module-level helper whose result is bound to a local that the tests of the
    function look at is inlined (engines/inline.py), so that the decision it makes is part of the decision table."""
    fn = m.func(name)
    tested = {x.id for n in ast.walk(fn) if isinstance(n, ast.If) for x in ast.walk(n.test) if isinstance(x, ast.Name)}
    wanted: Set[str] = set()
    for st in ast.walk(fn):
        if isinstance(st, ast.Assign) and len(st.targets) == 1 and isinstance(st.targets[0], ast.Name) and st.targets[0].id in tested:
            v = st.value.value if isinstance(st.value, ast.Await) else st.value
            if isinstance(v, ast.Call) and isinstance(v.func, ast.Name) and m.has_func(v.func.id) and v.func.id not in PREDS:
                wanted.add(v.func.id)
    if not wanted:
        return fn
    from engines import inline as inl
    others = tuple(st.name for st in m.tree.body if isinstance(st, (ast.FunctionDef, ast.AsyncFunctionDef)) and st.name not in wanted)
    try:
        m2, il = inl.inline_functions(m, name, exclude=others)
    except AnalysisError:
        raise
    except Exception as e:
        raise AnalysisError(f'{name}: helper inlining failed ({type(e).__name__}: {e})')
    _KEEP.append(m2.tree)
    return m2.func(name) if il.inlined else fn


def _enum_atom(a: ast.AST, tracked: Set[str]):
    """(local, op, constants) for a test of a local that only ever holds literal constants: `x is None`, `x is not None`, `x == c`, `x != c`, `x in (c, ..)`, `x`."""
    if isinstance(a, ast.Name) and a.id in tracked:
        return a.id, 'truthy', ()
    if isinstance(a, ast.Compare) and len(a.ops) == 1 and isinstance(a.left, ast.Name) and a.left.id in tracked:
        r, op = a.comparators[0], a.ops[0]
        if isinstance(r, ast.Constant) and isinstance(op, (ast.Is, ast.Eq)):
            return a.left.id, 'eq', (r.value,)
        if isinstance(r, ast.Constant) and isinstance(op, (ast.IsNot, ast.NotEq)):
            return a.left.id, 'ne', (r.value,)
        if isinstance(r, (ast.Tuple, ast.List, ast.Set)) and all(isinstance(x, ast.Constant) for x in r.elts) and isinstance(op, (ast.In, ast.NotIn)):
            return a.left.id, 'in' if isinstance(op, ast.In) else 'notin', tuple(x.value for x in r.elts)
    return None


def _enum_value_expr(e: ast.AST) -> bool:
    return isinstance(e, ast.Constant) or (isinstance(e, ast.IfExp) and _enum_value_expr(e.body) and _enum_value_expr(e.orelse))


def _check_loop(ctx: Ctx, m: pf.Module, name: str, limited: bool, de: cf.DelayEval, max_s: Fraction):
    fn = _normalise_fn(_inline_deciding_helpers(m, name))
    loop, tr, after = _retry_loop(ctx, fn, name)
    pre = [st for st in fn.body if st is not loop]
    # counters initialised to a literal before the loop
    inits: Dict[str, int] = {}
    for st in pre:
        tgt = st.targets[0] if isinstance(st, ast.Assign) and len(st.targets) == 1 else st.target if isinstance(st, ast.AnnAssign) else None
        val0 = getattr(st, 'value', None)
        if isinstance(tgt, ast.Name) and isinstance(val0, ast.Constant) and isinstance(val0.value, int) and not isinstance(val0.value, bool):
            inits[tgt.id] = val0.value
    loop_assigned = {t.id for n in ast.walk(loop) for t in (n.targets if isinstance(n, ast.Assign) else [n.target] if isinstance(n, (ast.AugAssign, ast.AnnAssign)) else [])
                     if isinstance(t, ast.Name)}
    for n in ast.walk(loop):
        if isinstance(n, ast.Name) and isinstance(n.ctx, ast.Store):
            loop_assigned.add(n.id)
    loop_counters = {c for c in inits if c in loop_assigned}
    # the failure counter is the one the back-off is computed from (by role, not by name)
    ctx.need(len(after) >= 1, f'{name}: no statement after the try in the loop body')
    roles: Set[str] = set()
    roles2: Set[str] = set()
    tail_call = _sleep_call(after[-1])
    for c in ast.walk(loop):
        if isinstance(c, ast.Call):
            a0 = c.args[0] if c.args else next((k.value for k in c.keywords if k.arg == 'tries'), None)
            if isinstance(a0, ast.Name) and a0.id in loop_counters:
                if pf.dotted(c.func) == de.delay_fn or c is tail_call:
                    roles.add(a0.id)
                elif isinstance(c.func, ast.Name) and m.has_func(c.func.id):
                    roles2.add(a0.id)
    if len(roles) != 1:
        roles = roles2 if len(roles2) == 1 and not roles else set(loop_counters) if len(loop_counters) == 1 and not roles else roles
    ctx.need(len(roles) == 1, f'{name}: the failure counter (initialised to 0 before the loop, incremented in it, handed to {de.delay_fn} / the sleep helper) is not recognised '
             f'(candidates {sorted(roles) or sorted(loop_counters)})')
    tn = next(iter(roles))
    ctx.need(inits.get(tn) == 0, f'{name}: `{tn} = 0` not found')
    if tn != de.tries:
        de = cf.DelayEval(m, int(de.blo), int(de.bhi), de.delay_fn, tn, int(de.b1hi), int(de.base), model=de.model)

    # handlers before `except Exception` must only re-raise and must not be broader than Exception
    exc_handler = None
    for h in tr.handlers:
        tnames = [pf.dotted(x) for x in (h.type.elts if isinstance(h.type, ast.Tuple) else [h.type])] if h.type is not None else ['BaseException']
        tname = ', '.join(str(x) for x in tnames)
        if tnames == ['Exception']:
            exc_handler = h
            break
        consh = f'{F}::{name}::except {tname}'
        ctx.need(all(x is not None for x in tnames), f'{name}: handler type `{pf.nsrc(h.type)}` not resolved')
        hcalls_pred = any(isinstance(x, ast.Call) and pf.dotted(x.func) in PREDS for s in h.body for x in ast.walk(s))
        if _always_bare_raises(h.body):
            if all(x in _NOT_EXCEPTION for x in tnames):
                ctx.ok('R1', consh, 're-raises at once')
            elif 'BaseException' in tnames:
                ctx.bad('R1', consh, f'`except {tname}: raise` ahead of `except Exception` re-raises every failure: nothing is retried, transient errors included', m.path, h.lineno)
            else:
                raise AnalysisError(f'{name}: `except {tname}: raise` ahead of `except Exception`: whether these classes are transient is a policy question (not decided)')
        elif all(x in _NOT_EXCEPTION for x in tnames) and not hcalls_pred and not any(isinstance(x, (ast.Raise, ast.Return)) for s in h.body for x in ast.walk(s)):
            ctx.bad('R1', consh, f'handler `except {tname}` ahead of `except Exception` never re-raises: an interrupt / a cancellation is swallowed and the operation is run again, '
                    f'although only transient failures may be retried', m.path, h.lineno)
        else:
            raise AnalysisError(f'{name}: handler `except {tname}` ahead of `except Exception` is not a plain re-raise (not analysed)')
    ctx.need(exc_handler is not None, f'{name}: no `except Exception` handler')
    evar = exc_handler.name
    cons = f'{F}::{name}::except Exception'

    # see through the idioms that do not change the decision: boolean locals holding a classifier result, arms that only log
    unstable = {n for n, ds in pf.assignments(fn).items() if len(ds) > 1 and not (n == evar and all(isinstance(d, ast.ExceptHandler) for d in ds))}
    _expand_test_locals(fn, exc_handler, unstable)
    exc_handler.body = _prune_inert_ifs(m, fn, exc_handler.body)

    atoms = absdom.collect_test_atoms(exc_handler.body)
    # locals of the handler that only ever hold literal constants (the `kind` of a classification): tracked as values, their tests are decided
    hdefs: Dict[str, List[ast.AST]] = {}
    for s2 in exc_handler.body:
        for x in ast.walk(s2):
            if isinstance(x, ast.Assign) and len(x.targets) == 1 and isinstance(x.targets[0], ast.Name):
                hdefs.setdefault(x.targets[0].id, []).append(x.value)
    tracked = {n for n, ds in hdefs.items() if n not in inits and all(_enum_value_expr(d) for d in ds) and len(pf.assignments(fn).get(n, [])) == len(ds)
               and any(_enum_atom(a, {n}) is not None for a in atoms)}
    for n in sorted(tracked):
        for d in hdefs[n]:
            for x in ast.walk(d):
                if isinstance(x, ast.IfExp):
                    for a in absdom.bool_atoms(x.test):
                        if absdom.atom_key(a) not in [absdom.atom_key(y) for y in atoms]:
                            atoms.append(a)
    classified: Dict[str, Tuple] = {}
    free: List[str] = []
    consts: List[int] = [LIMITED_RETRIES]
    budgets: Set[str] = set()
    for a in atoms:
        k = absdom.atom_key(a)
        cc = _counter_cmp(m, fn, a, set(inits))
        if isinstance(a, ast.Call) and pf.dotted(a.func) in PREDS and len(a.args) == 1 and isinstance(a.args[0], ast.Name) and a.args[0].id == evar and not a.keywords:
            classified[k] = ('pred', pf.dotted(a.func))
        elif _enum_atom(a, tracked) is not None:
            classified[k] = ('enum',) + _enum_atom(a, tracked)
        elif cc is not None:
            classified[k] = ('counter',) + cc
            consts.append(cc[2])
            if cc[0] != tn:
                budgets.add(cc[0])
        else:
            ctx.need(not any(isinstance(x, ast.Call) and pf.dotted(x.func) in PREDS for x in ast.walk(a)),
                     f'{name}: classifier call inside an unrecognised test `{k}`')
            touched = {x.id for x in ast.walk(a) if isinstance(x, ast.Name)} & (set(inits) | loop_assigned | ({evar} if evar else set()))
            ctx.need(not touched, f'{name}: the test `{k}` (on {sorted(touched)}) decides between retrying and re-raising but is not a classifier call or a comparison of a counter '
                     f'with a constant: not understood')
            free.append(k)
    ctx.need(len(free) <= 6, f'{name}: too many unclassified predicates in handler ({free})')
    ctx.need(len(budgets) <= 1, f'{name}: several budget counters ({sorted(budgets)})')

    # every write of a counter inside the loop must be an augmented assignment by a constant (after normalisation)
    for n in ast.walk(loop):
        stored = [t.id for t in ast.walk(n) if isinstance(t, ast.Name) and isinstance(t.ctx, ast.Store) and t.id in ({tn} | budgets)] if isinstance(n, ast.stmt) and not isinstance(
            n, (ast.If, ast.While, ast.For, ast.Try, ast.With, ast.AsyncWith, ast.AsyncFor)) else []
        for b in stored:
            aug_const = isinstance(n, ast.AugAssign) and isinstance(n.op, (ast.Add, ast.Sub)) and _local_int_const(m, fn, n.value) is not None
            if b == tn:
                ctx.need(aug_const, f'{name}: `{pf.nsrc(n)[:80]}` writes the failure counter in a way that is not `{tn} += <constant>` (not analysed)')
                continue
            # a dedicated budget counter must be monotone inside the loop: only `+= k`
            mono = aug_const and isinstance(n.op, ast.Add) and _local_int_const(m, fn, n.value) >= 1  # type: ignore[operator]
            if mono:
                continue
            rearm = (isinstance(n, ast.Assign) and _local_int_const(m, fn, n.value) is not None) or (aug_const and (isinstance(n.op, ast.Sub) or _local_int_const(m, fn, n.value) < 0))  # type: ignore[operator]
            ctx.need(rearm, f'{name}: `{pf.nsrc(n)[:80]}` writes the budget counter `{b}` in a way that is not understood')
            ctx.bad('R1', f'{cons}::budget {b} is monotone',
                    f'`{pf.nsrc(n)}` re-arms the limited-retry budget `{b}` inside the retry loop: the number of retries granted to limited-retry errors is no longer '
                    f'bounded by {LIMITED_RETRIES} over the whole call - e.g. the history L L L L T L L L L T ... (L = limited-retry only, T = transient) is retried for ever',
                    m.path, n.lineno)
    hi = max(consts) + 3
    counters = [tn] + sorted(budgets)

    n_eval = 0
    fails = []
    undecided: List[str] = []
    incr_problems = []
    retried_paths: Dict[Tuple[int, ...], Tuple[List[ast.stmt], dict]] = {}
    for k in range(1, hi + 1):  # failure index = order class of `tries` against every constant it is compared with
        for g in (range(0, hi + 1) if budgets else [0]):  # retries already granted out of the dedicated budget
            for pv in absdom.valuations(PREDS):
                for fv in absdom.valuations(free):
                    executed: List[ast.stmt] = []
                    start = {tn: k - 1}
                    for b in budgets:
                        start[b] = inits[b] + g

                    def val(atom: ast.AST) -> bool:
                        key = absdom.atom_key(atom)
                        kind = classified.get(key)
                        if kind is None:
                            return fv[key]
                        if kind[0] == 'pred':
                            return pv[kind[1]]
                        if kind[0] == 'enum':
                            def ev(e: ast.AST):
                                if isinstance(e, ast.Constant):
                                    return e.value
                                if isinstance(e, ast.IfExp):
                                    return ev(e.body) if absdom.eval_bool(e.test, val) else ev(e.orelse)
                                raise _Undecided(pf.nsrc(e))
                            last = next((s.value for s in reversed(executed) if isinstance(s, ast.Assign) and len(s.targets) == 1 and isinstance(s.targets[0], ast.Name)
                                         and s.targets[0].id == kind[1]), None)
                            if last is None:
                                raise _Undecided(f'`{kind[1]}` is read before it is bound on this path')
                            cur_v = ev(last)
                            same = [c for c in kind[3] if (c is cur_v) or (type(c) is type(cur_v) and c == cur_v)]
                            return {'truthy': bool(cur_v), 'eq': bool(same), 'ne': not same, 'in': bool(same), 'notin': not same}[kind[2]]
                        cname, op, c = kind[1], kind[2], kind[3]
                        incs = sum((_local_int_const(m, fn, s.value) or 0) * (1 if isinstance(s.op, ast.Add) else -1)
                                   for s in executed if isinstance(s, ast.AugAssign) and pf.nsrc(s.target) == cname)
                        cur = start[cname] + incs
                        return {ast.LtE: cur <= c, ast.Lt: cur < c, ast.Gt: cur > c, ast.GtE: cur >= c}[op]

                    try:
                        o = absdom.walk_block(exc_handler.body, val, executed)
                    except _Undecided as e:
                        undecided.append(f'the value of a tracked local is not a literal ({e})')
                        continue
                    n_eval += 1
                    T, R, L = pv['is_transient_error'], pv['is_rate_limit_error'], pv['is_limited_retries_error']
                    got_retry = o.kind == 'fall'
                    state = {'failure': k, **({'granted': g} if budgets else {}), **pv}
                    if o.kind == 'raise' and o.node.exc is not None and not (  # type: ignore[union-attr]
                            isinstance(o.node.exc, ast.Name) and o.node.exc.id == evar and o.node.cause is None):  # type: ignore[union-attr]
                        undecided.append(f'`{pf.nsrc(o.node)[:80]}` raises a different exception object')
                        continue
                    waits = any(pf.has_await(s) or any(isinstance(x, ast.Call) and ((pf.dotted(x.func) or '') in SLEEPS or (pf.dotted(x.func) or '').endswith('sleep_before_try'))
                                                       for x in ast.walk(s)) for s in executed)
                    if o.kind == 'break' or (o.kind == 'continue' and waits):
                        undecided.append(f'the handler leaves by `{o.kind}`')
                        continue
                    if o.kind not in ('fall', 'raise'):
                        fails.append((state, f'handler leaves by {o.kind}' + (' without waiting' if o.kind == 'continue' else '')))
                        continue
                    if not limited:
                        want: Optional[bool] = T
                    elif T or R:
                        want = True
                    elif not L:
                        want = False
                    elif budgets:
                        # dedicated budget: never more than five grants, and the first limited-retry error is retried
                        want = False if g >= LIMITED_RETRIES else (True if g == 0 and k == 1 else None)
                    else:
                        want = k <= LIMITED_RETRIES
                    if want is not None and got_retry != want:
                        fails.append((state, 'retries' if got_retry else 're-raises'))
                    if got_retry:
                        incs = [s for s in executed if isinstance(s, ast.AugAssign) and pf.nsrc(s.target) == tn]
                        if not (len(incs) == 1 and isinstance(incs[0].op, ast.Add) and _local_int_const(m, fn, incs[0].value) == 1):
                            incr_problems.append(state)
                        for b in budgets:
                            if L and not T and not R:
                                bi = [s for s in executed if isinstance(s, ast.AugAssign) and pf.nsrc(s.target) == b]
                                if len(bi) != 1:
                                    fails.append((state, f'retries a limited-retry-only error without charging the budget `{b}` exactly once: the budget never runs out and such errors '
                                                         f'are retried without bound;'))
                        retried_paths.setdefault(tuple(id(s) for s in executed), (list(executed), state))
    if fails:
        state, what = fails[0]
        ctx.bad('R1', cons, f'{state}: handler {what}' + (' the statement allows at most five such retries ' if what.endswith(';') else ', the statement requires the opposite ') +
                f'({len(fails)} of {n_eval} table rows wrong)', m.path, exc_handler.lineno, extra=[(a, b) for a, b in fails[:10]])
    elif undecided:
        raise AnalysisError(f'{name}: {undecided[0]} on some row of the decision table (not analysed)')
    else:
        ctx.ok('R1', cons, {'table_rows': n_eval, 'predicates': sorted(' '.join(str(x.__name__ if isinstance(x, type) else x) for x in v) for v in classified.values()), 'free_atoms': free, 'counters': counters})
    ctx.check(not incr_problems, 'R2', f'{F}::{name}::tries increment',
              f'`{tn}` is not incremented exactly once on a retried failure (e.g. {incr_problems[0]})' if incr_problems else '',
              m.path, exc_handler.lineno)

    # ---------------- R2: what is slept on, on every retried path
    ctx.need(len(after) >= 1, f'{name}: no statement after the try in the loop body')
    st = after[-1]
    call = _sleep_call(st)
    ctx.need(call is not None, f'{name}: last statement of the loop body is not a call')
    ctx.need(all(isinstance(s, (ast.Assign, ast.AnnAssign)) for s in after[:-1]), f'{name}: unrecognised statements between the try and the sleep')
    cname = pf.dotted(call.func)
    cons2 = f'{F}::{name}::sleep'
    params_ext = {a.arg for a in fn.args.args + fn.args.kwonlyargs} | ({evar} if evar else set())
    problems: List[Tuple[str, int]] = []
    declines: List[str] = []
    n_paths = 0
    ctx.need(retried_paths, f'{name}: no retried path found')
    for executed, state in retried_paths.values():
        n_paths += 1
        env: Dict[str, cf.AV] = {}
        if evar:
            env[evar] = de.external(evar)
        for v in loop_assigned - {tn}:
            env[v] = cf.AV(-cf.INF, cf.INF, stale=True, origin=f'`{v}` as left by an earlier iteration (unbound on the first failure)')
        offset = 0
        last_def: Dict[str, ast.stmt] = {}
        try:
            for s in list(executed) + list(after[:-1]):
                if isinstance(s, ast.AugAssign) and isinstance(s.target, ast.Name):
                    if s.target.id == tn:
                        if isinstance(s.op, ast.Add) and _local_int_const(m, fn, s.value) == 1:
                            offset += 1
                        else:
                            offset = -99
                        continue
                    tgt, value = s.target.id, ast.BinOp(left=ast.Name(id=s.target.id, ctx=ast.Load()), op=s.op, right=s.value)
                elif isinstance(s, ast.Assign) and len(s.targets) == 1 and isinstance(s.targets[0], ast.Name):
                    tgt, value = s.targets[0].id, s.value
                elif isinstance(s, ast.AnnAssign) and isinstance(s.target, ast.Name) and s.value is not None:
                    tgt, value = s.target.id, s.value
                else:
                    continue
                try:
                    env[tn] = cf.AV(Fraction(max(offset, 0)), cf.INF, origin=f'the unbounded failure count `{tn}`')
                    env[tgt] = de.eval(value, env, None, offset, params_ext)
                    last_def[tgt] = s
                except cf.Decline:
                    env.pop(tgt, None)
            # the value handed to the sleep
            env[tn] = cf.AV(Fraction(max(offset, 0)), cf.INF, origin=f'the unbounded failure count `{tn}`')
            if cname in SLEEPS:
                ctx.need(len(call.args) == 1 and not call.keywords, f'{name}: expected `{cname}(x)`, found {pf.nsrc(st)}')
                v = de.eval(call.args[0], env, None, offset, params_ext)
                where = st
            else:
                ctx.need(isinstance(call.func, ast.Name) and m.has_func(call.func.id), f'{name}: `{pf.nsrc(st)}` is neither a sleep nor a helper of this module')
                h, sub, henv, hext, _key = de.bind_helper(call, env, None, offset, params_ext)
                body = [s2 for s2 in h.body if not (isinstance(s2, ast.Expr) and isinstance(s2.value, ast.Constant))]
                # straight-line helper: locals bound once each (resolved by the evaluator through their definitions), then the one sleep
                lead, last = body[:-1], body[-1:]
                bound_once = all(isinstance(s2, (ast.Assign, ast.AnnAssign)) and isinstance(s2.targets[0] if isinstance(s2, ast.Assign) else s2.target, ast.Name)
                                 and (len(s2.targets) == 1 if isinstance(s2, ast.Assign) else s2.value is not None) and not pf.has_await(s2) for s2 in lead)
                hparams = {a.arg for a in h.args.posonlyargs + h.args.args + h.args.kwonlyargs}
                lnames = [(s2.targets[0] if isinstance(s2, ast.Assign) else s2.target).id for s2 in lead] if bound_once else []  # type: ignore[union-attr]
                ctx.need(bound_once and len(set(lnames)) == len(lnames) and not (set(lnames) & hparams) and len(last) == 1 and _sleep_call(last[0]) is not None
                         and pf.dotted(_sleep_call(last[0]).func) in SLEEPS  # type: ignore[union-attr]
                         and len(_sleep_call(last[0]).args) == 1 and not _sleep_call(last[0]).keywords,  # type: ignore[union-attr]
                         f'{h.name}: body is not <locals bound once>; <one sleep call>')
                v = sub.eval(_sleep_call(last[0]).args[0], henv, h, offset, hext)  # type: ignore[union-attr]
                where = last[0]
        except cf.Decline as e:
            declines.append(f'{name}: the value slept on is not analysable on the path {state}: {e}')
            continue
        arg_names = [x.id for x in ast.walk(call) if isinstance(x, ast.Name)]
        culprit = next((last_def[x] for x in arg_names if x in last_def), where)
        units = ('; unit check: ' + '; '.join(dict.fromkeys(v.notes))) if v.notes else ''
        msg = None
        if offset != 1:
            pass  # reported by the increment rule
        if v.stale:
            msg = f'on the retried path {state} the sleep uses {v.origin}: the delay is not computed for this failure'
        elif v.band is not None and v.band[0] == Fraction(1, 1000):
            if v.band[1] != offset:
                msg = (f'on the retried path {state} the delay `{v.origin}` is computed before `tries` is incremented: the n-th retry waits the band of try n-1 '
                       f'(half the documented delay)')
        elif v.hi > max_s:
            msg = (f'on the retried path {state} the value passed to the sleep (seconds) ranges over {v.show().replace(' s', '').replace(' ms', '')}; its upper bound {_fmt(v.hi)} s (from `{v.origin}`, '
                   f'set by `{pf.nsrc(culprit)[:120]}`) exceeds the documented maximum of {_fmt(max_s)} s{units}'
                   + (' - a value read off the exception / response is not clamped by min() against a bound in the same unit' if v.ext or v.notes else ''))
        elif v.band is not None:
            msg = (f'on the retried path {state} the value slept on is delay_ms_for_try(tries) scaled by {v.band[0]} instead of 1/1000: waits are '
                   f'{_fmt(v.band[0] * 1000)}x the documented jittered band{units}')
        elif v.excursion:
            msg = f'on the retried path {state} the value slept on leaves the documented jittered band: {v.excursion}{units}'
        else:
            declines.append(f'{name}: on the path {state} the value slept on ranges over {v.show()} and is not recognisably the documented band (not decided)')
            continue
        if msg:
            problems.append((msg, getattr(culprit, 'lineno', st.lineno)))
    if problems:
        msg, line = problems[0]
        ctx.bad('R2', cons2, msg + (f' ({len(problems)} of {n_paths} retried paths)' if n_paths > 1 else ''), m.path, line)
    elif declines:
        raise AnalysisError(declines[0])
    else:
        ctx.ok('R2', cons2, {'retried_paths': n_paths, 'value': 'delay_ms_for_try(tries) / 1000 after the increment, on every path'})
    return n_eval


def _check_delay(ctx: Ctx, m: pf.Module):
    fn = m.func('delay_ms_for_try')
    # parameters: (tries, base_delay_ms, max_delay_ms) and then any number of OPTIONAL extras (a floor, an additive extra, ...): the function is decided
    # at the defaults here (that is what the documented band speaks about); a call site that binds an extra is decided there (R2), by
    # evaluating this body with the abstract value it passes
    ctx.need(not fn.args.vararg and not fn.args.kwarg and not fn.args.posonlyargs, 'delay_ms_for_try takes *args / **kwargs / positional-only parameters')
    args = [a.arg for a in fn.args.args]
    ctx.need(args[:3] == ['tries', 'base_delay_ms', 'max_delay_ms'], f'delay_ms_for_try parameters changed: {args}')
    pos_defaults = dict(zip(args[len(args) - len(fn.args.defaults):], fn.args.defaults))
    kw_defaults = {a.arg: d for a, d in zip(fn.args.kwonlyargs, fn.args.kw_defaults)}
    dvals = [_int_const(m, pos_defaults[p]) if p in pos_defaults else None for p in args[1:3]]
    ctx.need(all(v is not None for v in dvals), f'delay_ms_for_try: base_delay_ms / max_delay_ms have no integer (module constant) defaults')
    # module-level integer constants the body reads (whatever they are called)
    local_names = set(pf.assignments(fn))
    consts: Dict[str, int] = {}
    for n in ast.walk(fn):
        if isinstance(n, ast.Name) and isinstance(n.ctx, ast.Load) and n.id not in local_names and n.id not in consts:
            v = _int_const(m, n)
            if v is not None:
                consts[n.id] = v
    extras: Dict[str, object] = {}
    for pname, d in list(pos_defaults.items()) + list(kw_defaults.items()):
        if pname in args[:3]:
            continue
        if d is not None and isinstance(d, ast.Constant) and d.value is None:
            extras[pname] = cf.NONE
        else:
            ctx.need(d is not None and _int_const(m, d) is not None, f'delay_ms_for_try: parameter `{pname}` has no integer / None default (every caller would have to pass it: not analysed)')
            extras[pname] = _int_const(m, d)
    ctx.need(set(extras) == set(args[3:]) | set(kw_defaults), f'delay_ms_for_try: a parameter after max_delay_ms has no default ({args})')
    base, mx = dvals  # type: ignore[misc]
    # tries may only be used through a clamp min(tries, .., <const>, ..) so that finitely many cases are exhaustive
    uses = [n for n in ast.walk(fn) if isinstance(n, ast.Name) and n.id == args[0] and isinstance(n.ctx, ast.Load)]
    par = {c: p for p in ast.walk(fn) for c in ast.iter_child_nodes(p)}
    clamp: Optional[int] = None
    for u in uses:
        p = par.get(u)
        if isinstance(p, ast.Call) and pf.dotted(p.func) == 'min' and len(p.args) >= 2 and not p.keywords:
            ks = []
            for other in p.args:
                if isinstance(other, ast.Name) and other.id in consts:
                    ks.append(consts[other.id])
                elif isinstance(other, ast.Constant) and isinstance(other.value, int) and not isinstance(other.value, bool):
                    ks.append(other.value)
            if ks:
                clamp = min(ks) if clamp is None else min(clamp, min(ks))
                continue
        clamp = None
        break
    hi_try = (clamp + 3) if clamp is not None else 80
    exhaustive = clamp is not None
    K = clamp if clamp is not None else 62  # the exponent at which the growth stops (LOG_2_MAX_MULTIPLIER today)
    ctx.need(base >= 1 and mx >= 1 and 0 <= K <= 62, 'delay constants out of the analysed range')
    # the interval of a value is exact only while every random draw flows into the result once; a draw read twice (x - x) is over-approximated
    rnd: Set[str] = set()
    changed = True
    while changed:
        changed = False
        for nm, ds in pf.assignments(fn).items():
            if nm in rnd:
                continue
            for d in ds:
                if isinstance(d, ast.AST) and any((isinstance(x, ast.Call) and (pf.dotted(x.func) or '').split('.')[0] in ('random', 'randrange', 'randint', 'uniform', 'secrets'))
                                                 or (isinstance(x, ast.Name) and x.id in rnd) for x in ast.walk(d)):
                    rnd.add(nm)
                    changed = True
    reads = {nm: sum(1 for x in ast.walk(fn) if isinstance(x, ast.Name) and isinstance(x.ctx, ast.Load) and x.id == nm) for nm in rnd}
    precise = all(v <= 1 for v in reads.values())
    bad = []
    samples = []
    over_max = []
    top = None
    model = cf.DelayModel(fn, consts, dict({'base_delay_ms': base, 'max_delay_ms': mx}, **extras), hi_try, exhaustive=exhaustive)
    for t in range(1, hi_try + 1):
        got, exact = model.run(t, {})
        ctx.need(exact, f'delay_ms_for_try: a branch that is not decided by the default parameter values (tries={t}): the interval result is only an over-approximation')
        C = base * (2 ** min(t, 62))
        want = absdom.Interval(min(C // 2, mx), min(C, mx))
        if t <= 4 or t == hi_try:
            samples.append({'tries': t, 'delay_ms': repr(got), 'documented_band': repr(want)})
        if t > K:
            # beyond the clamp the band may stop growing, but only once the hard cap already binds
            want_lo = min(base * (2 ** K) // 2, mx)
            ok = got.hi <= mx and got.lo >= want_lo and got.lo >= min(mx, want_lo)
            if base * (2 ** K) // 2 < mx:
                ok = False  # clamp cuts the exponential growth before the maximum delay is reached
        else:
            ok = got == want
        if not ok:
            bad.append((t, repr(got), repr(want)))
        if got.hi > mx:
            over_max.append((t, repr(got), repr(want), got.hi))
        if top is None or got.hi >= top[3]:
            top = (t, repr(got), repr(want), got.hi)
    cons = f'{F}::delay_ms_for_try'
    if (bad or over_max) and not precise:
        raise AnalysisError(f'delay_ms_for_try: a random draw is read more than once ({sorted(k for k, v in reads.items() if v > 1)}): the interval of the result is only an '
                            f'over-approximation and it leaves the documented band: not decided')
    if bad:
        t, g, w = bad[0]
        ctx.bad('R3', cons, f'for tries={t} the delay ranges over {g} ms but the documented jittered band capped at max_delay_ms={mx} is {w} '
                f'({len(bad)} try counts wrong)', m.path, fn.lineno, extra=bad[:10])
    else:
        ctx.ok('R3', cons, {'try_counts': hi_try, 'exhaustive_by_clamp': exhaustive, 'samples': samples})
    # ---- "never longer than the maximum", for EVERY value of the parameters: the returned value must be bounded by the max_delay_ms
    # parameter through a symbolic derivation (min against the parameter, or built from values so bounded by operations that do not
    # increase them).  Capping an ingredient (the exponent, the ceiling) "at the maximum" and dropping the final clamp is the mistake.
    cons2 = f'{F}::delay_ms_for_try::never longer than max_delay_ms'
    CAP = 'max_delay_ms'
    fn0 = fn
    if extras:
        # the optional extras at their defaults (what every call that does not bind them gets)
        import copy

        class _Def(ast.NodeTransformer):
            def visit_Name(self, node: ast.Name):  # noqa: N802
                if isinstance(node.ctx, ast.Load) and node.id in extras:
                    return ast.copy_location(ast.Constant(value=None if extras[node.id] is cf.NONE else extras[node.id]), node)
                return node
        ctx.need(not any(isinstance(n, ast.Name) and isinstance(n.ctx, ast.Store) and n.id in extras for n in ast.walk(fn)), 'delay_ms_for_try: an optional parameter is re-assigned')
        fn = _Def().visit(copy.deepcopy(fn))
        ast.fix_missing_locations(fn)
        from engines import c2426facts
        c2426facts.prune_constant_branches(fn)  # `if floor is not None:` at the default None
    rets = [r for r in pf.walk_shallow(fn) if isinstance(r, ast.Return)]
    ctx.need(rets and all(r.value is not None for r in rets), 'delay_ms_for_try: bare return')
    unclamped = [r for r in rets if not any(b.below(CAP) for b in cf.upper_bounds(fn, r.value))]
    over = [(t, g, w) for t, g, w, hi in over_max]
    if not unclamped:
        ctx.ok('R3', cons2, {'returns': len(rets), 'bound': f'every returned value is derived to be <= {CAP}'})
    else:
        r = unclamped[0]
        shown = pf.nsrc(pf.expand_locals(fn, r.value))
        if not any(cf.depends_on(fn, r.value, CAP) for r in unclamped):
            t, g, w, hi = top
            ctx.bad('R3', cons2, f'`{pf.nsrc(r)}` (= `{shown[:160]}`) does not depend on the `{CAP}` parameter at all: a caller-chosen maximum is ignored, e.g. '
                    f'delay_ms_for_try({t}, max_delay_ms={max(hi // 2, 1)}) still ranges up to {hi} ms (callers pass 5000 / 15000 / 30000)', m.path, r.lineno)
        elif over:
            t, g, w = over[0]
            ctx.bad('R3', cons2, f'`{pf.nsrc(r)}` is not clamped by `{CAP}`: no `min(.., {CAP})` (or equivalent bound) applies to the returned value `{shown[:200]}`; an ingredient '
                    f'capped "at the maximum" does not cap the result - for tries={t} (defaults base={base}, max={mx}) the delay ranges over {g} ms, above the maximum of {mx} ms '
                    f'(documented band {w})', m.path, r.lineno, extra=over[:10])
        else:
            raise AnalysisError(f'delay_ms_for_try: `{pf.nsrc(r)}` is not derivably bounded by `{CAP}` for every (base_delay_ms, max_delay_ms) (upper bounds found: '
                                f'{[b.show() for b in cf.upper_bounds(fn, r.value)][:4]}) and the interval evaluation at the default parameters shows no excess: not decided')
    ctx.extra_cov['delay_band_samples'] = samples
    if extras:
        ctx.extra_cov['delay_optional_parameters'] = {k: (None if v is cf.NONE else v) for k, v in extras.items()}
    return hi_try, base, mx, model


# ------------------------------------------------------------------------------------------------
# R4
# ------------------------------------------------------------------------------------------------


def _chain_targets(m: pf.Module, fn: pf.FuncDef, e: ast.AST, ev: str, bound: Optional[Dict[str, Set[str]]] = None, depth: int = 0) -> Optional[Set[str]]:
    """The attributes of the classified exception that `e` may evaluate to ('__cause__', '__context__', 'None', ...); None = not understood."""
    bound = bound or {}
    if depth > 5:
        return None
    if isinstance(e, ast.Constant) and e.value is None:
        return {'None'}
    if isinstance(e, ast.Attribute) and isinstance(e.value, ast.Name) and (e.value.id == ev or bound.get(e.value.id) == {'<e>'}):
        return {e.attr}
    if isinstance(e, ast.Name):
        if e.id in bound:
            return set(bound[e.id])
        if e.id == ev:
            return {'<e>'}
        defs = pf.assignments(fn).get(e.id, [])
        if not defs:
            return None
        out: Set[str] = set()
        for d in defs:
            if not isinstance(d, ast.expr):
                return None
            r = _chain_targets(m, fn, d, ev, bound, depth + 1)
            if r is None:
                return None
            out |= r
        return out
    if isinstance(e, ast.IfExp):
        a, b = _chain_targets(m, fn, e.body, ev, bound, depth + 1), _chain_targets(m, fn, e.orelse, ev, bound, depth + 1)
        return None if a is None or b is None else a | b
    if isinstance(e, ast.BoolOp):
        out = set()
        for v in e.values:
            r = _chain_targets(m, fn, v, ev, bound, depth + 1)
            if r is None:
                return None
            out |= r
        return out
    if isinstance(e, ast.Call) and pf.dotted(e.func) == 'getattr' and len(e.args) >= 2 and isinstance(e.args[1], ast.Constant) and isinstance(e.args[1].value, str):
        base = _chain_targets(m, fn, e.args[0], ev, bound, depth + 1)
        if base == {'<e>'}:
            return {e.args[1].value} | ({'None'} if len(e.args) > 2 else set())
        return None
    if isinstance(e, ast.Call) and isinstance(e.func, ast.Name) and m.has_func(e.func.id) and not e.keywords:
        h = m.func(e.func.id)
        ps = [a.arg for a in h.args.args]
        if len(ps) != len(e.args):
            return None
        hb: Dict[str, Set[str]] = {}
        for p, a in zip(ps, e.args):
            r = _chain_targets(m, fn, a, ev, bound, depth + 1)
            if r is None:
                return None
            hb[p] = r
        out = set()
        rets = [r for r in pf.walk_shallow(h) if isinstance(r, ast.Return)]
        if not rets:
            return None
        for r in rets:
            rr = {'None'} if r.value is None else _chain_targets(m, h, r.value, '\0', hb, depth + 1)
            if rr is None:
                return None
            out |= rr
        return out
    return None


def _split_returns(stmts: Sequence[ast.stmt]) -> List[ast.stmt]:
    """A copy of the statements in which `return A if c else B` is `if c: return A / else: return B`, and `return a and b` / `return a or b` whose last
    operand is a boolean literal is the if-statement it abbreviates (so that the truth-table walk sees the test)."""
    import copy

    class _R(ast.NodeTransformer):
        def visit_FunctionDef(self, node):
            return node
        visit_AsyncFunctionDef = visit_FunctionDef
        visit_Lambda = visit_FunctionDef

        def visit_Return(self, node: ast.Return):
            v = node.value
            if isinstance(v, ast.IfExp):
                a = self.visit_Return(ast.copy_location(ast.Return(value=v.body), node))
                b = self.visit_Return(ast.copy_location(ast.Return(value=v.orelse), node))
                return ast.copy_location(ast.If(test=v.test, body=[a], orelse=[b]), node)
            if isinstance(v, (ast.BoolOp, ast.Compare)) or (isinstance(v, ast.UnaryOp) and isinstance(v.op, ast.Not)) or (isinstance(v, ast.Call) and pf.dotted(v.func) == 'isinstance'):
                # the callers only look at the truth value
                return ast.copy_location(ast.If(test=v, body=[ast.copy_location(ast.Return(value=ast.Constant(value=True)), node)],
                                                orelse=[ast.copy_location(ast.Return(value=ast.Constant(value=False)), node)]), node)
            return node
    out = [_R().visit(copy.deepcopy(s)) for s in stmts]
    for s in out:
        ast.fix_missing_locations(s)
    _KEEP.extend(out)
    return out


def _default_outcomes(ctx: Ctx, m: pf.Module, fn: pf.FuncDef, name: str) -> Set[str]:
    """What the classifier returns for an exception that matches none of its class tests and has no cause / context: the body is walked with
    every `isinstance(e, ..)` false and every test of the (absent) chain entry decided; every other atom takes both truth values.
    -> subset of {'False', 'True', 'other'} ('other' = a computed value, falling off the end, raising)."""
    ev = fn.args.args[0].arg
    body = _split_returns([s for s in fn.body if not isinstance(s, (ast.Import, ast.ImportFrom)) and not (isinstance(s, ast.Expr) and isinstance(s.value, ast.Constant))])

    def chain_entry(x: ast.AST) -> bool:
        if isinstance(x, ast.Name) and x.id == ev:
            return False
        t = _chain_targets(m, fn, x, ev)
        return bool(t) and all(a in ('None', '__cause__', '__context__') for a in t)  # type: ignore[union-attr]

    def fixed(atom: ast.AST) -> Optional[bool]:
        if isinstance(atom, ast.Call) and pf.dotted(atom.func) == 'isinstance' and len(atom.args) == 2 and (pf.nsrc(atom.args[0]) == ev or chain_entry(atom.args[0])):
            return False
        if isinstance(atom, ast.Compare) and len(atom.ops) == 1 and isinstance(atom.comparators[0], ast.Constant) and atom.comparators[0].value is None \
                and chain_entry(atom.left):
            if isinstance(atom.ops[0], (ast.Is, ast.Eq)):
                return True
            if isinstance(atom.ops[0], (ast.IsNot, ast.NotEq)):
                return False
        if isinstance(atom, (ast.Name, ast.Attribute, ast.Call)) and chain_entry(atom):
            return False
        return None

    keys: List[str] = []
    outs: Set[str] = set()
    while True:
        again = False
        outs = set()
        for fv in absdom.valuations(keys):
            def val(atom: ast.AST) -> bool:
                f = fixed(atom)
                if f is not None:
                    return f
                k = absdom.atom_key(atom)
                if k not in fv:
                    keys.append(k)
                    raise KeyError(k)
                return fv[k]
            try:
                o = absdom.walk_block(body, val)
            except KeyError:
                again = True
                break
            if o.kind == 'return' and isinstance(o.node.value, ast.Constant) and isinstance(o.node.value.value, bool):  # type: ignore[union-attr]
                outs.add(str(o.node.value.value))  # type: ignore[union-attr]
            else:
                outs.add('other')
        if not again:
            return outs
        ctx.need(len(keys) <= 10, f'{name}: too many undecided tests on the default path ({keys[:4]} ...)')


def _check_classifier(ctx: Ctx, m: pf.Module, name: str, follows_cause: bool):
    fn = m.func(name)
    cons = f'{F}::{name}'
    ev = fn.args.args[0].arg
    # default: an exception of an unknown class without a cause is not retried
    outs = _default_outcomes(ctx, m, fn, name)
    if outs == {'False'}:
        ctx.ok('R4', cons + '::default', 'an exception that matches no class test and has no cause is classified False')
    elif outs == {'True'}:
        ctx.bad('R4', cons + '::default', f'{name} returns True for an exception that matches none of its class tests and has no `__cause__` (every path on which all '
                f'`isinstance({ev}, ..)` tests fail ends in `return True`): unknown errors are retried instead of being raised at once', m.path, fn.body[-1].lineno)
    else:
        raise AnalysisError(f'{name}: the value returned for an exception that matches no class test and has no cause is not a constant on every path ({sorted(outs)}): not decided')
    rec = [c for c in pf.walk_shallow(fn) if isinstance(c, ast.Call) and pf.dotted(c.func) == name and len(c.args) == 1]
    followed: Set[str] = set()
    for c in rec:
        a = c.args[0]
        if isinstance(a, ast.Attribute) and isinstance(a.value, ast.Name) and a.value.id == ev and not a.attr.startswith('__'):
            continue  # a component such as e.os_error: part of the policy table, not a chain walk
        t = _chain_targets(m, fn, a, ev)
        ctx.need(t is not None, f'{name}: recursive call `{pf.nsrc(c)}` on a value that is not understood')
        followed |= t - {'None'}  # type: ignore[operator]
    chain = {x for x in followed if x.startswith('__')}
    if follows_cause:
        if '__context__' in chain:
            ctx.bad('R4', cons + '::cause', f'{name} also classifies an error by its implicit `__context__` (the exception that merely happened to be in flight): a permanent error '
                    f'raised while a transient one was being handled - e.g. `except asyncio.TimeoutError: raise KeyError(k)` - is classified as transient and retried for ever '
                    f'instead of being raised immediately', m.path, fn.lineno)
        elif '__cause__' not in chain:
            # positive evidence only: nothing in the classifier (or in anything it hands the exception to) can look at the chain
            mentions = any((isinstance(x, ast.Attribute) and x.attr in ('__cause__', '__context__', '__traceback__')) or (isinstance(x, ast.Constant) and x.value in ('__cause__', '__context__'))
                           for x in ast.walk(fn))
            loops = any(isinstance(x, (ast.While, ast.For, ast.AsyncFor, ast.Try)) for x in ast.walk(fn))
            hands_on = [c for c in pf.walk_shallow(fn) if isinstance(c, ast.Call) and pf.dotted(c.func) not in ('isinstance', 'type', 'str', 'repr', 'id')
                        and (pf.dotted(c.func) or '').split('.')[0] not in _INERT_ROOTS
                        and any(isinstance(x, ast.Name) and x.id == ev for x in list(c.args) + [k.value for k in c.keywords])]
            rebinds = len(pf.assignments(fn).get(ev, [])) > 1
            why = 'mentions the chain attributes' if mentions else 'a loop / comprehension / try' if loops else 're-binds the parameter' if rebinds else \
                ('hands the exception to `' + pf.nsrc(hands_on[0])[:60] + '`') if hands_on else ''
            ctx.need(not why, f'{name}: no recursion into `{ev}.__cause__` was recognised, but the chain may be followed in a form that is not understood ({why})')
            ctx.bad('R4', cons + '::cause', f'{name} never looks at `{ev}.__cause__` (no read of the attribute, no loop, the exception is handed to nothing but isinstance): chained errors '
                    f'(`raise X from <transient>`) are not classified', m.path, fn.lineno)
        else:
            ctx.need(chain == {'__cause__'}, f'{name}: follows {sorted(chain)} (not understood)')
            ctx.ok('R4', cons + '::cause', 'recurses into e.__cause__ only')
    else:
        ctx.need(not chain, f'{name}: follows {sorted(chain)} although it is not a chain-following classifier')


def _check_delegate(ctx: Ctx, m: pf.Module, name: str, target: str):
    """The public wrapper is nothing but a call of the analysed loop with its own operation / arguments handed on.  There is no FAIL here: a wrapper
    that does anything else is simply not covered by the analysis of the loop (declined)."""
    fn = m.func(name)
    tfn = m.func(target)
    cons = f'{F}::{name}'
    calls = [c for c in pf.walk_shallow(fn) if isinstance(c, ast.Call) and pf.dotted(c.func) == target]
    ctx.need(len(calls) == 1, f'{name}: expected exactly one call of {target} (found {len(calls)}): not a plain delegation (not analysed)')
    c = calls[0]
    ctx.need(not any(isinstance(x, (ast.While, ast.For, ast.AsyncFor, ast.Try, ast.With, ast.AsyncWith, ast.Raise)) for x in pf.walk_shallow(fn)),
             f'{name}: loops / try / with around the delegation (not analysed)')
    rets = [r for r in pf.walk_shallow(fn) if isinstance(r, ast.Return)]
    ctx.need(bool(rets), f'{name}: no return')
    for r in rets:
        v = pf.resolve_expr(fn, r.value) if r.value is not None else None
        if isinstance(v, ast.Await):
            v = v.value
        ctx.need(v is c, f'{name}: `{pf.nsrc(r)[:80]}` does not return the result of {target}(...) (not analysed)')
    # the operation handed to the loop is the wrapper's own, with its own arguments
    ctx.need(not tfn.args.posonlyargs and not fn.args.posonlyargs, f'{target}: positional-only parameters')
    tparams = [a.arg for a in tfn.args.args]
    tcalls = [x for x in ast.walk(tfn) if isinstance(x, ast.Call) and isinstance(x.func, ast.Name) and x.func.id in tparams]
    ctx.need(len({x.func.id for x in tcalls}) == 1, f'{target}: the operation parameter is not recognised')  # type: ignore[attr-defined]
    op = tcalls[0].func.id  # type: ignore[attr-defined]
    plain = [a for a in c.args if not isinstance(a, ast.Starred)]
    stars = [a for a in c.args if isinstance(a, ast.Starred)]
    ctx.need(all(not isinstance(a, ast.Starred) for a in c.args[:len(plain)]), f'{name}: `{pf.nsrc(c)[:80]}`: starred argument ahead of positional ones')
    bound: Dict[str, ast.AST] = dict(zip(tparams, plain))
    for k in c.keywords:
        if k.arg is not None:
            bound[k.arg] = k.value
    own = {a.arg for a in fn.args.args + fn.args.kwonlyargs}
    opv = bound.get(op)
    ctx.need(isinstance(opv, ast.Name) and opv.id in own and len(pf.assignments(fn).get(opv.id, [])) == 1,
             f'{name}: the operation handed to {target} is `{pf.nsrc(opv) if opv is not None else "<missing>"}`, not a parameter of the wrapper (not analysed)')
    va, kw = fn.args.vararg, fn.args.kwarg
    ok_va = (va is None and not stars) or (va is not None and len(stars) == 1 and isinstance(stars[0].value, ast.Name) and stars[0].value.id == va.arg and len(plain) == len(tparams))
    dstar = [k for k in c.keywords if k.arg is None]
    ok_kw = (kw is None and not dstar) or (kw is not None and len(dstar) == 1 and isinstance(dstar[0].value, ast.Name) and dstar[0].value.id == kw.arg)
    ctx.need(ok_va and ok_kw, f'{name}: `{pf.nsrc(c)[:100]}` does not hand on *{va.arg if va else ""} / **{kw.arg if kw else ""} as they are (not analysed)')
    ctx.ok('R5', cons, f'returns {target}(..., {opv.id}, *{va.arg if va else ""}, **{kw.arg if kw else ""})')  # type: ignore[union-attr]


# ------------------------------------------------------------------------------------------------
# R6: producer / consumer agreement on the classified fields
# ------------------------------------------------------------------------------------------------


def _imports(m: pf.Module) -> Dict[str, str]:
    """local name -> absolute dotted origin (`import a.b.c` binds `a` to package a; relative imports are resolved against the module's package)."""
    pkg = m.rel[len('hail/python/'):-3].split('/')[:-1] if m.rel.startswith('hail/python/') else []
    out: Dict[str, str] = {}
    for st in ast.walk(m.tree):
        if isinstance(st, ast.Import):
            for a in st.names:
                if a.asname:
                    out[a.asname] = a.name
                else:
                    out[a.name.split('.')[0]] = a.name.split('.')[0]
        elif isinstance(st, ast.ImportFrom):
            base = (st.module or '').split('.') if st.module else []
            if st.level:
                base = pkg[:len(pkg) - (st.level - 1)] + base
            for a in st.names:
                out[a.asname or a.name] = '.'.join(base + [a.name])
    return out


def _resolve_class(m: pf.Module, ref: str) -> Optional[Tuple[str, str]]:
    """(repo-relative file, class name) when the (dotted) reference names a class defined in the repository's python tree."""
    parts = ref.split('.')
    imps = _imports(m)
    if parts[0] in imps:
        full = '.'.join([imps[parts[0]]] + parts[1:])
    elif len(parts) == 1:
        return (m.rel, ref) if any(c.name == ref for c in m.classes()) else None
    else:
        full = ref
    if '.' not in full:
        return None
    rel = cf.module_rel_of(full)
    if rel is None:
        return None
    return rel, parts[-1]


def _subclasses_in(mod: pf.Module, base_ref: str) -> List[str]:
    return [c.name for c in mod.classes() if any(pf.dotted(b) == base_ref for b in c.bases)]


_site_cache: Dict[Tuple[str, str], List[str]] = {}
_text_cache: Dict[str, str] = {}


def _site_files(ctx: Ctx, cls_name: str) -> List[str]:
    if (ctx.tier, cls_name) in _site_cache:
        return _site_cache[(ctx.tier, cls_name)]
    dirs = ['hail/python/hailtop']
    if ctx.tier == 'thorough':
        dirs += ['batch/batch', 'gear/gear', 'ci/ci', 'auth/auth', 'monitoring/monitoring', 'web_common/web_common']
    out = []
    for rel in pf.walk_py(dirs):
        try:
            if rel not in _text_cache:
                _text_cache[rel] = read_repo(rel)
            if cls_name in _text_cache[rel]:
                out.append(rel)
        except (AnalysisError, UnicodeDecodeError):
            continue
    _site_cache[(ctx.tier, cls_name)] = out
    return out


def _check_fields(ctx: Ctx, m: pf.Module) -> None:
    # consumer side
    reads: Dict[Tuple[str, str, str], Set[str]] = {}  # (file, class, attr) -> classifiers
    tokens_case = False
    for cn in CLASSIFIERS:
        fn = m.func(cn)
        for ref, attr, node in cf.classifier_reads(fn):
            targets: List[Tuple[str, str]] = []
            r = _resolve_class(m, ref)
            if r is not None:
                targets.append(r)
            else:
                # a library base class: its repository-defined subclasses are produced by repository code
                for rel in ('hail/python/hailtop/httpx.py',):
                    mm = pf.load(rel)
                    for sub in _subclasses_in(mm, ref):
                        targets.append((rel, sub))
            for rel, cls in targets:
                reads.setdefault((rel, cls, attr), set()).add(cn)
        for c in ast.walk(fn):
            if isinstance(c, ast.Constant) and isinstance(c.value, str) and c.value != c.value.lower():
                tokens_case = True
    ctx.need(reads, 'no classifier reads a field of a repository-defined exception class (idiom not recognised)')
    for (rel, cls, attr), who in sorted(reads.items()):
        dm = pf.load(rel)
        cdef = dm.cls(cls)
        init, amap, pos, has_kw = cf.init_attr_sources(cdef)
        ctx.need(init is not None, f'{rel}::{cls}: no __init__')
        lf_init = cf.LosslessFlow(dm, case_sensitive=tokens_case)
        # a property of that name: follow it to the stored attribute
        for pdef in [f for f in cdef.body if isinstance(f, ast.FunctionDef) and f.name == attr and 'property' in pf.decorator_names(f)]:
            rets = [r for r in pf.walk_shallow(pdef) if isinstance(r, ast.Return) and r.value is not None]
            ctx.need(rets, f'{rel}::{cls}.{attr}: property without return')
            stored = set()
            for r in rets:
                fl = lf_init.classify(r.value, pdef)
                if fl.kind == cf.LOSSY:
                    ctx.bad('R6', f'{rel}::{cls}.{attr}::property', f'the property `{attr}` returns a reduced value ({fl.why}) while {sorted(who)} in utils.py classify the error by `e.{attr}`',
                            dm.path, r.lineno)
                ctx.need(fl.kind != cf.UNKNOWN, f'{rel}::{cls}.{attr}: property value not understood ({fl.why})')
                if isinstance(r.value, ast.Attribute) and isinstance(r.value.value, ast.Name) and r.value.value.id == pdef.args.args[0].arg:
                    stored.add(r.value.attr)
            ctx.need(len(stored) == 1 or any(f.rule == 'R6' for f in ctx.findings), f'{rel}::{cls}.{attr}: property does not return a single stored attribute')
            if len(stored) == 1:
                attr_store = stored.pop()
                ctx.need(attr_store in amap, f'{rel}::{cls}: `self.{attr_store}` is not assigned in __init__')
                amap = dict(amap)
                amap[attr] = amap[attr_store]
        # which constructor parameter carries the attribute
        if attr in amap:
            fl = lf_init.classify(amap[attr], init)
            src = amap[attr]
            consi = f'{rel}::{cls}.__init__::self.{attr}'
            if fl.kind == cf.LOSSY:
                ctx.bad('R6', consi, f'`self.{attr} = {pf.nsrc(src)}` stores a reduced value ({fl.why}) while {sorted(who)} in utils.py classify the error by `e.{attr}`: '
                        f'a failure whose distinguishing content is lost is classified as permanent and raised on its first occurrence', dm.path, src.lineno)
                continue
            ctx.need(fl.kind == cf.OK and isinstance(src, ast.Name) and src.id in pos + [a.arg for a in init.args.kwonlyargs],
                     f'{consi}: `{pf.nsrc(src)}` is not a plain constructor parameter ({fl.why})')
            param = src.id
        else:
            ctx.need(has_kw, f'{rel}::{cls}: attribute {attr} is neither assigned in __init__ nor can it be passed on through **kwargs')
            param = attr
        # producer side: every constructor site
        n_sites = 0
        for srel in _site_files(ctx, cls):
            sm = pf.load(srel)
            lf = cf.LosslessFlow(sm, case_sensitive=tokens_case)
            for c in ast.walk(sm.tree):
                if not isinstance(c, ast.Call):
                    continue
                d = pf.dotted(c.func)
                if d is None or d.split('.')[-1] != cls:
                    continue
                rr = _resolve_class(sm, d)
                if rr is None or rr != (rel, cls):
                    continue
                arg = None
                for k in c.keywords:
                    if k.arg == param:
                        arg = k.value
                if arg is None and param in pos and pos.index(param) < len(c.args) and not any(isinstance(a, ast.Starred) for a in c.args):
                    arg = c.args[pos.index(param)]
                host = sm.enclosing_func(c)
                q = sm.qualname(host) if host is not None else '<module>'
                conss = f'{srel}::{q}::{cls}.{attr}'
                n_sites += 1
                if arg is None:
                    ctx.need(not any(k.arg is None for k in c.keywords), f'{conss}: arguments passed through ** (not analysed)')
                    ctx.need(any(k.arg == 'status' for k in c.keywords) or attr == 'status', f'{conss}: the site passes neither `{param}` nor a status (synthetic error, not analysed)')
                    ctx.bad('R6', conss, f'this constructor site builds the error from a response (it passes a status) but hands no `{param}` to {cls}(...): `e.{attr}` keeps its default and '
                            f'{sorted(who)} in {F}, which decide on `e.{attr}`, can never recognise the failure - e.g. Google\'s 403 rateLimitExceeded is raised on its first occurrence '
                            f'instead of being retried', sm.path, c.lineno)
                    continue
                fl = lf.classify(arg, host)
                if fl.kind == cf.LOSSY:
                    ctx.bad('R6', conss, f'the `{param}` handed to {cls}(...) is not the full response value: {fl.why}.  {sorted(who)} in {F} decide on `e.{attr}` '
                            f'(e.g. `\'rateLimitExceeded\' in e.body` for Google\'s 403 throttling): a response whose distinguishing content falls outside what is kept is classified '
                            f'as neither rate-limit nor transient and is raised on its first occurrence instead of being retried until it succeeds', sm.path, c.lineno)
                elif fl.kind == cf.OK:
                    ctx.ok('R6', conss, f'`{pf.nsrc(arg)[:60]}`: {fl.why}')
                else:
                    raise AnalysisError(f'{conss}: cannot decide whether `{pf.nsrc(arg)[:80]}` preserves the response value ({fl.why})')
        ctx.need(n_sites >= 1, f'no constructor site of {cls} found for the field {attr}')


# ------------------------------------------------------------------------------------------------
# R7: rate-limit errors are transient errors (the sync helper asks only is_transient_error)
# ------------------------------------------------------------------------------------------------


def _check_subsumption(ctx: Ctx, m: pf.Module) -> int:
    rl = m.func('is_rate_limit_error')
    te = m.func('is_transient_error')
    ev_r, ev_t = rl.args.args[0].arg, te.args.args[0].arg
    ctx.need(ev_r == ev_t, 'classifiers name their parameter differently')
    ev = ev_r

    _bodies: Dict[int, List[ast.stmt]] = {}

    def body_of(fn):
        if id(fn) not in _bodies:
            _bodies[id(fn)] = _split_returns([s for s in fn.body if not isinstance(s, (ast.Import, ast.ImportFrom)) and not (isinstance(s, ast.Expr) and isinstance(s.value, ast.Constant))])
        return _bodies[id(fn)]
    # classes mentioned by the rate-limit classifier, with their subclass relation
    classes: List[str] = []
    for c in ast.walk(rl):
        if isinstance(c, ast.Call) and pf.dotted(c.func) == 'isinstance' and len(c.args) == 2 and pf.nsrc(c.args[0]) == ev:
            d = pf.dotted(c.args[1])
            ctx.need(d is not None, f'is_rate_limit_error: isinstance against `{pf.nsrc(c.args[1])}`')
            if d not in classes:
                classes.append(d)  # type: ignore[arg-type]
    ctx.need(classes, 'is_rate_limit_error tests no exception class')
    supers: Dict[str, Set[str]] = {c: {c} for c in classes}
    for c in classes:
        r = _resolve_class(m, c)
        if r is not None:
            cd = pf.load(r[0]).cls(r[1])
            mm = pf.load(r[0])
            for b in cd.bases:
                bd = pf.dotted(b)
                if bd is not None:
                    supers[c].add(bd)
                    supers[c].add(_imports(mm).get(bd.split('.')[0], bd.split('.')[0]) + bd[len(bd.split('.')[0]):])
    # status constants and body tokens appearing in either classifier
    statuses: Set[int] = set()
    tokens: Set[str] = set()
    sets: Dict[str, Set[int]] = {}
    for fn in (rl, te):
        for n in ast.walk(fn):
            if isinstance(n, ast.Compare) and pf.nsrc(n.left) == f'{ev}.status' and len(n.ops) == 1:
                rhs = n.comparators[0]
                if isinstance(n.ops[0], (ast.Eq, ast.NotEq)) and isinstance(rhs, ast.Constant) and isinstance(rhs.value, int):
                    statuses.add(rhs.value)
                elif isinstance(n.ops[0], (ast.In, ast.NotIn)):
                    if isinstance(rhs, ast.Name):
                        s = cf.int_set_of(m, rhs.id)
                        if s is not None:
                            sets[rhs.id] = s
                            statuses |= s
                    elif isinstance(rhs, (ast.Tuple, ast.Set, ast.List)) and all(isinstance(x, ast.Constant) and isinstance(x.value, int) for x in rhs.elts):
                        statuses |= {x.value for x in rhs.elts}  # type: ignore[attr-defined]
            if isinstance(n, ast.Compare) and len(n.ops) == 1 and isinstance(n.ops[0], ast.In) and isinstance(n.left, ast.Constant) and isinstance(n.left.value, str) \
                    and pf.nsrc(n.comparators[0]) == f'{ev}.body':
                tokens.add(n.left.value)
    OTHER = -1

    class Undecided(Exception):
        pass

    def make_val(cls: str, status: int, tok: Dict[str, bool], free: Dict[str, bool], free_keys: List[str]):
        def val(atom: ast.AST) -> bool:
            if isinstance(atom, ast.Call) and pf.dotted(atom.func) == 'isinstance' and len(atom.args) == 2 and pf.nsrc(atom.args[0]) == ev:
                ts = atom.args[1].elts if isinstance(atom.args[1], ast.Tuple) else [atom.args[1]]
                return any(pf.dotted(t) in supers[cls] or pf.dotted(t) in ('Exception', 'BaseException') for t in ts)
            if isinstance(atom, ast.Compare) and pf.nsrc(atom.left) == f'{ev}.status' and len(atom.ops) == 1:
                rhs, op = atom.comparators[0], atom.ops[0]
                if isinstance(op, (ast.Eq, ast.NotEq)) and isinstance(rhs, ast.Constant):
                    r = status == rhs.value
                    return r if isinstance(op, ast.Eq) else not r
                if isinstance(op, (ast.In, ast.NotIn)):
                    if isinstance(rhs, ast.Name) and rhs.id in sets:
                        r = status in sets[rhs.id]
                    elif isinstance(rhs, (ast.Tuple, ast.Set, ast.List)) and all(isinstance(x, ast.Constant) for x in rhs.elts):
                        r = status in {x.value for x in rhs.elts}  # type: ignore[attr-defined]
                    else:
                        raise Undecided(pf.nsrc(atom))
                    return r if isinstance(op, ast.In) else not r
                raise Undecided(pf.nsrc(atom))
            if isinstance(atom, ast.Compare) and len(atom.ops) == 1 and isinstance(atom.ops[0], ast.In) and isinstance(atom.left, ast.Constant) \
                    and pf.nsrc(atom.comparators[0]) == f'{ev}.body' and atom.left.value in tok:
                return tok[atom.left.value]
            k = absdom.atom_key(atom)
            if k not in free:
                free_keys.append(k)
                raise KeyError(k)
            return free[k]
        return val

    def run(fn, cls, status, tok) -> Tuple[bool, bool, List[str]]:
        """(may return False, may return True, free atoms) over all valuations of the atoms the abstract state does not fix."""
        keys: List[str] = []
        outs: Set[bool] = set()
        while True:
            again = False
            outs = set()
            for fv in absdom.valuations(keys):
                try:
                    o = absdom.walk_block(body_of(fn), make_val(cls, status, tok, fv, keys))
                except KeyError:
                    again = True
                    break
                if o.kind != 'return' or not isinstance(o.node.value, (ast.Constant, ast.Call)):  # type: ignore[union-attr]
                    raise Undecided(f'{fn.name} leaves by {o.kind}')
                rv = o.node.value  # type: ignore[union-attr]
                if isinstance(rv, ast.Constant) and isinstance(rv.value, bool):
                    outs.add(rv.value)
                else:
                    outs.add('unknown')  # recursion into a chained / component exception: not evidence either way
            if not again:
                break
            if len(keys) > 14:
                raise Undecided('too many free atoms')
        return (False in outs), (True in outs), keys, ('unknown' in outs)

    n = 0
    cons = f'{F}::is_rate_limit_error implies is_transient_error'
    counter = None
    undecided: List[Tuple[str, int]] = []
    try:
        for cls in classes:
            for status in sorted(statuses) + [OTHER]:
                for tv in absdom.valuations(sorted(tokens)):
                    n += 1
                    r_false, r_true, _, r_unknown = run(rl, cls, status, tv)
                    if not (r_true or r_unknown):
                        continue
                    t_false, t_true, keys, t_unknown = run(te, cls, status, tv)
                    if r_true and t_false and counter is None:
                        counter = (cls, status, tv, keys)
                    elif (r_unknown and (t_false or t_unknown)) or (r_true and t_unknown):
                        undecided.append((cls, status))
    except Undecided as e:
        raise AnalysisError(f'R7: classifier shape not understood: {e}')
    if counter is not None:
        cls, status, tv, keys = counter
        ctx.bad('R7', cons, f'an exception of class {cls} with status {"<any other>" if status == OTHER else status} and body tokens {tv} is accepted by is_rate_limit_error but '
                f'is_transient_error can return False for it: sync_retry_transient_errors (which asks only is_transient_error) raises this rate-limit failure on its first occurrence '
                f'instead of retrying it until it succeeds', m.path, rl.lineno)
    elif undecided:
        raise AnalysisError(f'R7: for {undecided[0]} a classifier returns a computed value (a recursive call / an expression), so whether the rate-limit failure is also '
                            f'transient is not decided')
    else:
        ctx.ok('R7', cons, {'abstract_states': n, 'classes': classes, 'statuses': sorted(statuses), 'tokens': sorted(tokens)})
    return n


def run(ctx: Ctx) -> None:
    ctx.level = 'proof'
    ctx.exhaustive = True
    ctx.explanation = ('Truth-table evaluation of the extracted `except Exception` handlers over all valuations of the classifier predicates x order classes of the counters, '
                       'exhaustive interval evaluation of delay_ms_for_try for every try count up to the clamp, interval + unit evaluation of every definition reaching the sleep, '
                       'lossless-dataflow classification from the HTTP response to the classified exception fields, implication between the classifiers over a finite domain; '
                       'no repository code is run.')
    ctx.rule('R1', 'retry loop handler re-raises iff not transient and not rate-limit and not (limited-retry and failure index <= 5); '
                   'sync variant re-raises iff not transient; handlers ahead of it only re-raise; a dedicated budget counter is monotone', 4)
    ctx.rule('R2', 'tries is incremented exactly once per retried failure and on every retried path the loop sleeps exactly delay_ms_for_try(tries)/1000 '
                   '(interval + unit analysis of all reaching definitions)', 4)
    ctx.rule('R3', 'delay_ms_for_try(tries) in [min(C//2,max), min(C,max)], C = base*2^tries, never above max_delay_ms', 1)
    ctx.rule('R4', 'error classifiers default to False and follow __cause__ chains only', 5)
    ctx.rule('R5', 'public retry wrappers delegate to the analysed loop', 2)
    ctx.rule('R6', 'every exception field a classifier reads is written at every constructor site from the full response value', 3)
    ctx.rule('R7', 'is_rate_limit_error implies is_transient_error over exception class x status x body tokens', 1)
    ctx.assume('membership of concrete exception classes in transient / rate-limit / limited-retry is a policy table and is not decided')
    ctx.assume('random.randrange(n) returns an integer in [0, n-1]; asyncio.sleep(d) / time.sleep(d) wait d seconds')
    ctx.assume('aiohttp.ClientResponseError.__init__ stores the status / message / headers keyword arguments unchanged')
    m = pf.load(F)
    ctx.unit('files')
    t, base, mx, model = _check_delay(ctx, m)
    ctx.unit('delay_try_counts', t)
    de = cf.DelayEval(m, band_lo_ms=min(base, mx), band_hi_ms=mx, band1_hi_ms=min(2 * base, mx), base_ms=base, model=model)
    max_s = Fraction(mx, 1000)
    n = _check_loop(ctx, m, 'retry_transient_errors_with_debug_string', True, de, max_s)
    n += _check_loop(ctx, m, 'sync_retry_transient_errors', False, de, max_s)
    ctx.unit('decision_table_rows', n)
    ctx.unit('functions', 2)
    _check_classifier(ctx, m, 'is_transient_error', True)
    _check_classifier(ctx, m, 'is_limited_retries_error', True)
    _check_classifier(ctx, m, 'is_rate_limit_error', False)
    _check_delegate(ctx, m, 'retry_transient_errors', 'retry_transient_errors_with_debug_string')
    _check_delegate(ctx, m, 'retry_transient_errors_with_delayed_warnings', 'retry_transient_errors_with_debug_string')
    ctx.unit('functions', 6)
    _check_fields(ctx, m)
    ctx.unit('files', 2)
    k = _check_subsumption(ctx, m)
    ctx.unit('classifier_abstract_states', k)
