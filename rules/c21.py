"""C21 Retry policy retries exactly the transient failures.

Decides (from the syntax tree of hailtop/utils/utils.py, nothing is run):
  R1  decision table of the `except Exception` handler of the retry loops, over every valuation of
      the classifier predicates and every failure index: re-raise iff the statement says so
  R2  per failure: `tries` incremented exactly once; the value slept on is delay_ms_for_try(tries)/1000
  R3  delay_ms_for_try: interval evaluation for every try count -> jitter band [C//2, C] capped at max
  R4  classifiers follow __cause__ and end in `return False`
  R5  the public wrappers delegate to the analysed loop
Does not decide: which exception classes count as transient (a policy table).
"""
from __future__ import annotations

import ast
from typing import Dict, List, Optional

from engines import absdom, pyfacts as pf
from engines.common import AnalysisError, Ctx

META = dict(
    category='proof',
    text='Exhaustive truth table of the extracted retry handlers over all classifier valuations x failure indices, and exhaustive interval '
         'evaluation of the back-off function for every try count; every row/try count is an obligation and all are discharged by our own '
         'evaluator over the syntax tree. This is the right level because the retry decision depends only on four predicates and a counter.',
    note='Trusted: CPython ast; the evaluator in engines/absdom.py; randrange/asyncio.sleep semantics. Not decided: which exception classes are transient.',
    technique='static analysis: predicate-abstraction truth table + interval abstract interpretation over the AST',
    design_ref='DESIGN.md §3 C21',
)

F = 'hail/python/hailtop/utils/utils.py'
LIMITED_RETRIES = 5  # from the statement: "give up after at most five retries on limited-retry errors"


def _retry_loop(ctx: Ctx, fn: pf.FuncDef, name: str):
    """Recognise   tries = 0; while True: try: return [await] f(...) except ...: ... ; <sleep>"""
    loops = [st for st in fn.body if isinstance(st, ast.While)]
    ctx.need(len(loops) == 1, f'{name}: expected exactly one top-level while loop')
    loop = loops[0]
    ctx.need(isinstance(loop.test, ast.Constant) and loop.test.value is True, f'{name}: loop is not `while True`')
    ctx.need(len(loop.body) >= 1 and isinstance(loop.body[0], ast.Try), f'{name}: loop body does not start with try')
    tr = loop.body[0]
    ctx.need(len(tr.body) == 1 and isinstance(tr.body[0], ast.Return), f'{name}: try body is not a single return')
    ctx.need(not tr.finalbody and not tr.orelse, f'{name}: try has else/finally (unrecognised idiom)')
    return loop, tr, loop.body[1:]


def _check_loop(ctx: Ctx, m: pf.Module, name: str, sleep_kind: str, limited: bool):
    fn = m.func(name)
    loop, tr, after = _retry_loop(ctx, fn, name)
    # the initial value of tries
    init = [st for st in fn.body if isinstance(st, ast.Assign) and pf.nsrc(st.targets[0]) == 'tries']
    ctx.need(len(init) == 1 and isinstance(init[0].value, ast.Constant) and init[0].value.value == 0, f'{name}: `tries = 0` not found')

    # handlers before `except Exception` must only re-raise and must not be broader than Exception
    exc_handler = None
    for h in tr.handlers:
        tname = pf.dotted(h.type) if h.type is not None else None
        if tname == 'Exception':
            exc_handler = h
            break
        only_raise = len(h.body) == 1 and isinstance(h.body[0], ast.Raise) and h.body[0].exc is None
        ctx.check(only_raise and tname in ('KeyboardInterrupt', 'asyncio.CancelledError'),
                  'R1', f'{F}::{name}::except {tname}',
                  f'handler `except {tname}` ahead of `except Exception` must only re-raise', m.path, h.lineno)
    ctx.need(exc_handler is not None, f'{name}: no `except Exception` handler')
    evar = exc_handler.name

    atoms = absdom.collect_test_atoms(exc_handler.body)
    classified: Dict[str, str] = {}
    free: List[str] = []
    for a in atoms:
        k = absdom.atom_key(a)
        if isinstance(a, ast.Call) and pf.dotted(a.func) in ('is_limited_retries_error', 'is_rate_limit_error', 'is_transient_error') \
                and len(a.args) == 1 and isinstance(a.args[0], ast.Name) and a.args[0].id == evar:
            classified[k] = pf.dotted(a.func)
        elif isinstance(a, ast.Compare) and isinstance(a.left, ast.Name) and a.left.id == 'tries' and len(a.ops) == 1 \
                and isinstance(a.comparators[0], ast.Constant) and isinstance(a.ops[0], (ast.LtE, ast.Lt, ast.Gt, ast.GtE)):
            classified[k] = 'tries-bound'
        else:
            free.append(k)
    ctx.need(len(free) <= 6, f'{name}: too many unclassified predicates in handler ({free})')

    preds = ['is_limited_retries_error', 'is_rate_limit_error', 'is_transient_error']
    n_eval = 0
    fails = []
    incr_problems = []
    delay_problems = []
    for k in range(1, LIMITED_RETRIES + 4):  # failure index
        for pv in absdom.valuations(preds):
            for fv in absdom.valuations(free):
                executed: List[ast.stmt] = []

                def val(atom: ast.AST) -> bool:
                    key = absdom.atom_key(atom)
                    kind = classified.get(key)
                    if kind in preds:
                        return pv[kind]
                    if kind == 'tries-bound':
                        incs = sum(1 for s in executed if isinstance(s, ast.AugAssign) and pf.nsrc(s.target) == 'tries')
                        tries = (k - 1) + incs
                        op = atom.ops[0]  # type: ignore[attr-defined]
                        c = atom.comparators[0].value  # type: ignore[attr-defined]
                        return {ast.LtE: tries <= c, ast.Lt: tries < c, ast.Gt: tries > c, ast.GtE: tries >= c}[type(op)]
                    return fv[key]

                o = absdom.walk_block(exc_handler.body, val, executed)
                n_eval += 1
                T, R, L = pv['is_transient_error'], pv['is_rate_limit_error'], pv['is_limited_retries_error']
                if limited:
                    want_retry = T or R or (L and k <= LIMITED_RETRIES)
                else:
                    want_retry = T
                got_retry = o.kind == 'fall'
                if o.kind not in ('fall', 'raise') or (o.kind == 'raise' and o.node.exc is not None):  # type: ignore[union-attr]
                    fails.append((k, pv, f'handler leaves by {o.kind}'))
                elif got_retry != want_retry:
                    fails.append((k, pv, 'retries' if got_retry else 're-raises'))
                if got_retry:
                    incs = [s for s in executed if isinstance(s, ast.AugAssign) and pf.nsrc(s.target) == 'tries']
                    if not (len(incs) == 1 and isinstance(incs[0].op, ast.Add) and pf.nsrc(incs[0].value) == '1'):
                        incr_problems.append((k, pv))
    cons = f'{F}::{name}::except Exception'
    if fails:
        k, pv, what = fails[0]
        ctx.bad('R1', cons, f'failure #{k} with classifier valuation {pv}: handler {what}, the statement requires the opposite '
                f'({len(fails)} of {n_eval} table rows wrong)', m.path, exc_handler.lineno, extra=[(a, b, c) for a, b, c in fails[:10]])
    else:
        ctx.ok('R1', cons, {'table_rows': n_eval, 'predicates': sorted(classified.values()), 'free_atoms': free})
    ctx.check(not incr_problems, 'R2', f'{F}::{name}::tries increment',
              f'`tries` is not incremented exactly once on a retried failure (e.g. failure #{incr_problems[0][0]} {incr_problems[0][1]})' if incr_problems else '',
              m.path, exc_handler.lineno)

    # R2: what is slept on
    ctx.need(len(after) == 1, f'{name}: expected exactly one statement after the try in the loop body')
    st = after[0]
    call = st.value if isinstance(st, ast.Expr) else None
    if isinstance(call, ast.Await):
        call = call.value
    ctx.need(isinstance(call, ast.Call), f'{name}: statement after try is not a call')
    cname = pf.dotted(call.func)
    cons2 = f'{F}::{name}::sleep'
    if sleep_kind == 'asyncio':
        ctx.need(cname == 'asyncio.sleep' and len(call.args) == 1, f'{name}: expected `await asyncio.sleep(x)`, found {pf.nsrc(st)}')
        arg = call.args[0]
        if isinstance(arg, ast.Name):
            defs = pf.assignments(fn).get(arg.id, [])
            ctx.need(len(defs) == 1, f'{name}: sleep argument {arg.id} has {len(defs)} definitions')
            dexpr = defs[0]
            # the definition must be executed in the handler on every retried path, after the increment
            pos = [i for i, s in enumerate(exc_handler.body) if isinstance(s, ast.Assign) and s.value is dexpr]
            inc_pos = [i for i, s in enumerate(exc_handler.body) if isinstance(s, ast.AugAssign) and pf.nsrc(s.target) == 'tries']
            ctx.check(bool(pos) and bool(inc_pos) and pos[0] > inc_pos[0], 'R2', cons2 + '::order',
                      'the delay is not computed unconditionally after `tries` is incremented in the handler', m.path, st.lineno)
        else:
            dexpr = arg
        ok = (isinstance(dexpr, ast.BinOp) and isinstance(dexpr.op, ast.Div)
              and isinstance(dexpr.right, ast.Constant) and float(dexpr.right.value) == 1000.0
              and isinstance(dexpr.left, ast.Call) and pf.dotted(dexpr.left.func) == 'delay_ms_for_try'
              and [pf.nsrc(a) for a in dexpr.left.args] == ['tries'] and not dexpr.left.keywords)
        ctx.check(ok, 'R2', cons2, f'sleep argument is `{pf.nsrc(dexpr)}`, expected delay_ms_for_try(tries) / 1000 with default bounds', m.path, st.lineno)
    else:
        ctx.check(cname == sleep_kind and [pf.nsrc(a) for a in call.args] == ['tries'] and not call.keywords, 'R2', cons2,
                  f'expected `{sleep_kind}(tries)`, found `{pf.nsrc(st)}`', m.path, st.lineno)
        helper = m.func(sleep_kind)
        body = [s for s in helper.body if not (isinstance(s, ast.Expr) and isinstance(s.value, ast.Constant))]
        ctx.need(len(body) == 1 and isinstance(body[0], ast.Expr), f'{sleep_kind}: unrecognised body')
        c2 = body[0].value
        if isinstance(c2, ast.Await):
            c2 = c2.value
        ok = (isinstance(c2, ast.Call) and pf.dotted(c2.func) in ('time.sleep', 'asyncio.sleep') and len(c2.args) == 1
              and pf.nsrc(c2.args[0]) in ('delay_ms_for_try(tries, base_delay_ms, max_delay_ms) / 1000.0', 'delay_ms_for_try(tries, base_delay_ms, max_delay_ms) / 1000'))
        ctx.check(ok, 'R2', f'{F}::{sleep_kind}', f'helper sleeps on `{pf.nsrc(body[0])}`', m.path, helper.lineno)
    return n_eval


def _check_delay(ctx: Ctx, m: pf.Module):
    fn = m.func('delay_ms_for_try')
    consts = {}
    for name in ('LOG_2_MAX_MULTIPLIER', 'DEFAULT_MAX_DELAY_MS', 'DEFAULT_BASE_DELAY_MS'):
        v = m.global_assign(name)
        ctx.need(isinstance(v, ast.Constant) and isinstance(v.value, int), f'{name} is not an integer literal')
        consts[name] = v.value
    # parameter defaults
    args = [a.arg for a in fn.args.args]
    ctx.need(args == ['tries', 'base_delay_ms', 'max_delay_ms'], f'delay_ms_for_try parameters changed: {args}')
    defaults = [pf.nsrc(d) for d in fn.args.defaults]
    ctx.need(defaults == ['DEFAULT_BASE_DELAY_MS', 'DEFAULT_MAX_DELAY_MS'], f'delay_ms_for_try defaults changed: {defaults}')
    base, mx, K = consts['DEFAULT_BASE_DELAY_MS'], consts['DEFAULT_MAX_DELAY_MS'], consts['LOG_2_MAX_MULTIPLIER']
    ctx.need(base >= 1 and mx >= 1 and 0 <= K <= 62, 'delay constants out of the analysed range')
    # tries may only be used through a clamp min(tries, <const>) so that finitely many cases are exhaustive
    uses = [n for n in ast.walk(fn) if isinstance(n, ast.Name) and n.id == 'tries' and isinstance(n.ctx, ast.Load)]
    par = {c: p for p in ast.walk(fn) for c in ast.iter_child_nodes(p)}
    clamp: Optional[int] = None
    for u in uses:
        p = par.get(u)
        if isinstance(p, ast.Call) and pf.dotted(p.func) == 'min' and len(p.args) == 2:
            other = [a for a in p.args if a is not u][0]
            if isinstance(other, ast.Name) and other.id in consts:
                clamp = consts[other.id] if clamp is None else min(clamp, consts[other.id])
                continue
            if isinstance(other, ast.Constant) and isinstance(other.value, int):
                clamp = other.value if clamp is None else min(clamp, other.value)
                continue
        clamp = None
        break
    hi_try = (clamp + 3) if clamp is not None else 80
    exhaustive = clamp is not None
    bad = []
    samples = []
    for t in range(1, hi_try + 1):
        env = {'tries': absdom.Interval(t, t), 'base_delay_ms': absdom.Interval(base, base), 'max_delay_ms': absdom.Interval(mx, mx)}
        env.update({k: absdom.Interval(v, v) for k, v in consts.items()})
        got = absdom.eval_straightline(fn, env)
        C = base * (2 ** min(t, 62))
        want = absdom.Interval(min(C // 2, mx), min(C, mx))
        if t <= 4 or t == hi_try:
            samples.append({'tries': t, 'delay_ms': repr(got), 'documented_band': repr(want)})
        if t > K:
            # beyond the clamp the band may stop growing, but only once the hard cap already binds
            want_lo = min(base * (2 ** K) // 2, mx)
            ok = got.hi <= mx and got.lo >= want_lo and got.lo >= min(mx, want_lo)
            if base * (2 ** K) // 2 < mx:
                ok = False  # clamp cuts the exponential growth before the maximum delay is reached
        else:
            ok = got == want
        if not ok:
            bad.append((t, repr(got), repr(want)))
    cons = f'{F}::delay_ms_for_try'
    if bad:
        t, g, w = bad[0]
        ctx.bad('R3', cons, f'for tries={t} the delay ranges over {g} ms but the documented jittered band capped at max_delay_ms={mx} is {w} '
                f'({len(bad)} try counts wrong)', m.path, fn.lineno, extra=bad[:10])
    else:
        ctx.ok('R3', cons, {'try_counts': hi_try, 'exhaustive_by_clamp': exhaustive, 'samples': samples})
    ctx.extra_cov['delay_band_samples'] = samples
    return hi_try


def _check_classifier(ctx: Ctx, m: pf.Module, name: str, follows_cause: bool):
    fn = m.func(name)
    last = fn.body[-1]
    cons = f'{F}::{name}'
    ctx.check(isinstance(last, ast.Return) and isinstance(last.value, ast.Constant) and last.value.value is False,
              'R4', cons + '::default', f'last statement is `{pf.nsrc(last)}`, expected `return False` (unknown errors are not retried)', m.path, last.lineno)
    if follows_cause:
        found = False
        for st in fn.body:
            if isinstance(st, ast.If) and pf.nsrc(st.test) == 'e.__cause__ is not None' and len(st.body) == 1 \
                    and isinstance(st.body[0], ast.Return) and pf.nsrc(st.body[0].value) == f'{name}(e.__cause__)':
                found = True
        ctx.check(found, 'R4', cons + '::cause', 'no `if e.__cause__ is not None: return <self>(e.__cause__)` step: chained errors are not classified', m.path, fn.lineno)


def _check_delegate(ctx: Ctx, m: pf.Module, name: str, target: str):
    fn = m.func(name)
    body = [s for s in fn.body if not (isinstance(s, ast.Expr) and isinstance(s.value, ast.Constant))]
    ok = False
    if len(body) == 1 and isinstance(body[0], ast.Return):
        c = body[0].value
        if isinstance(c, ast.Await):
            c = c.value
        if isinstance(c, ast.Call) and pf.dotted(c.func) == target:
            # f, *args, **kwargs forwarded
            fwd = [pf.nsrc(a) for a in c.args]
            ok = 'f' in fwd and '*args' in fwd and any(k.arg is None and pf.nsrc(k.value) == 'kwargs' for k in c.keywords)
    ctx.check(ok, 'R5', f'{F}::{name}', f'does not simply delegate to {target}(…, f, *args, **kwargs)', m.path, fn.lineno)


def run(ctx: Ctx) -> None:
    ctx.level = 'proof'
    ctx.exhaustive = True
    ctx.explanation = ('Truth-table evaluation of the extracted `except Exception` handlers over all valuations of the classifier predicates x failure '
                       'indices 1..8, and exhaustive interval evaluation of delay_ms_for_try for every try count up to the clamp; no repository code is run.')
    ctx.rule('R1', 'retry loop handler re-raises iff not transient and not rate-limit and not (limited-retry and failure index <= 5); '
                   'sync variant re-raises iff not transient; handlers ahead of it only re-raise', 4)
    ctx.rule('R2', 'tries is incremented exactly once per retried failure and the loop sleeps delay_ms_for_try(tries)/1000 with default bounds', 5)
    ctx.rule('R3', 'delay_ms_for_try(tries) in [min(C//2,max), min(C,max)], C = base*2^tries, never above max_delay_ms', 1)
    ctx.rule('R4', 'error classifiers default to False and follow __cause__ chains', 5)
    ctx.rule('R5', 'public retry wrappers delegate to the analysed loop', 2)
    ctx.assume('membership of concrete exception classes in transient / rate-limit / limited-retry is a policy table and is not decided')
    ctx.assume('random.randrange(n) returns an integer in [0, n-1]; asyncio.sleep(d) waits d seconds')
    m = pf.load(F)
    ctx.unit('files')
    n = _check_loop(ctx, m, 'retry_transient_errors_with_debug_string', 'asyncio', limited=True)
    n += _check_loop(ctx, m, 'sync_retry_transient_errors', 'sync_sleep_before_try', limited=False)
    ctx.unit('decision_table_rows', n)
    ctx.unit('functions', 2)
    t = _check_delay(ctx, m)
    ctx.unit('delay_try_counts', t)
    _check_classifier(ctx, m, 'is_transient_error', True)
    _check_classifier(ctx, m, 'is_limited_retries_error', True)
    _check_classifier(ctx, m, 'is_rate_limit_error', False)
    _check_delegate(ctx, m, 'retry_transient_errors', 'retry_transient_errors_with_debug_string')
    _check_delegate(ctx, m, 'retry_transient_errors_with_delayed_warnings', 'retry_transient_errors_with_debug_string')
    ctx.unit('functions', 6)
