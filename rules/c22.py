"""C22 Copy tool reproduces sources exactly  --  PARTIAL claim: structural necessary conditions only.

The property as a whole ("for every set of transfers between local paths every destination ends up byte-identical to its
source, or the documented error is raised") is a round-trip statement about runtime bytes and file-system states; static
analysis cannot decide it.  Decided here, from the syntax trees of hailtop/aiotools/fs/copier.py, copy.py, local_fs.py,
fs/stream.py (nothing is imported or run), are clauses whose failure necessarily breaks it:

  R1 part arithmetic   SourceCopier._copy_file_multi_part_main / f / _copy_part are executed abstractly over polynomial normal
                       forms for every case of  size = q*part_size + rem  (q in {0,1,>=2} x rem in {0,>0}) and every kind of
                       part (last / next-to-last / earlier): either the whole file goes through _copy_file, or the parts
                       [start_i, start_i + size_i) cover [0, size) without a gap and without reaching beyond the end of the
                       source (start_0 = 0, start_i + size_i >= start_{i+1}, start_last + size_last = size; an overlap inside
                       the file is tolerated, it rewrites identical bytes), and inside a part the source read offset equals the
                       destination offset of the byte being written (reader/writer agreement).  A refutation is reported with a
                       concrete size / part size.
                       The part quantities must all come from ONE division of the size by the part size in force.  Where the code
                       adjusts them on some path (a cap on the number of parts, a minimum / rounded part size: a test the case does
                       not decide, a further division of the size) the execution forks (engines/absexec: explore): an undecided test is
                       followed both ways under a recorded assumption; a division of the size by a new divisor starts a fresh
                       decomposition size = q'*P' + rem' with its own six cases, and what was computed from the superseded division
                       (a remainder, a part count, the old part size) stays expressed in the OLD unknowns - nothing but the link
                       "same size" relates it to the fresh ones.  The coverage obligations are then proved on the normal forms exactly
                       as before (a proof holds whatever the relation between the generations); an obligation that is not an identity
                       because it mixes the generations (last part sized by the stale `rem`, parts enumerated by the stale count,
                       offsets striding by the stale part size) is reported with a REALISABLE witness - the original unknowns are
                       free, the later ones are computed from the links, the fork assumptions hold - and declined when none is found.
                       Helper methods the arithmetic was extracted into are inlined first (engines/inline).
  R2 exact-length loops the counted loop of _copy_part (and of _ReadableStreamFromBlocking._readexactly it relies on) continues
                       iff bytes remain, asks for between 1 and `remaining` bytes (never across the part boundary), passes on the
                       very bytes read and decreases the counter by the number of bytes passed on; the read-until-EOF loop of
                       _copy_file passes on every non-empty chunk and leaves exactly on the empty one.
  R3 destination       the single-file path reads `srcfile` from its start and creates `destfile`; the multi-part path creates the
                       part creator for `destfile`, announces a part count that covers every part number it uses, hands that creator
                       and `srcfile` to every part, and every exit of the function has copied (no path returns, or raises an error of its own
                       that is none of the documented ones, before anything was copied); LocalAsyncFS opens sources 'rb' (seeking to `start` for
                       ranged reads), creates destinations with a truncating binary mode, creates an empty file for a multi-part
                       copy and writes each part through a non-truncating 'r+b' handle positioned at the part's own offset;
                       LocalMultiPartCreate.__aexit__ removes the file only on failure and never suppresses the error.
  R4 destination rules predicate abstraction + path enumeration (engines/pathabs): for every valuation of the atoms the destination rules
                       test (treat_dest_as x result of staturl(dest) x dest ends with '/' x src ends with '/' x statfile(src) succeeds x
                       recursive listfiles(src/) succeeds x one / several sources; 288 rows) the statement trees of Transfer.__init__,
                       Copier._copy_one_transfer/_dest_type/copy_source and SourceCopier.__init__/copy/copy_as_file/copy_as_dir/_full_dest are
                       walked, callees composed at their call sites, and the abstract OUTCOME is computed: the error class raised, or the
                       (source, destination, status) arguments handed to _copy_file_multi_part as terms over uninterpreted constructors
                       (url_join(dest, url_basename(rstrip(src, '/'))), slice_from(entry_url, len(root)) ...).  It is compared row by row
                       with the table the statement documents; an atom the code tests that is not a column of the table declines.  The
                       barrier between copy_as_file and copy_as_dir is not scheduled: the CFG obligation "released exactly once on every
                       path before the wait and on every exit, two parties, counter 2" is checked structurally and licenses composing the
                       two classification parts before the two copy parts.  make_transfer maps 'to'/'into' to the documented modes;
                       LocalAsyncFS.statfile/staturl classify directories the way the table assumes.
  R5 errors surface    with return_exceptions false (what the tool passes) every broad handler on the copy path re-raises, the flag
                       is handed down unchanged, copy.py does not switch it on, and no coroutine of the copy path is created
                       without being awaited or scheduled.

NOT decided: byte identity itself (contents of what read/write return, OS semantics of open/seek/write, short writes), the
cloud back ends, behaviour under concurrent modification of sources, interleavings of the part tasks (the parts write
disjoint ranges by R1, which is the only schedule-independence argument made), the string behaviour of url_join / url_basename /
rstrip / slicing (uninterpreted constructors in R4: only WHICH term is built is compared), the weighted semaphore (C40), progress
accounting (SourceReport counters), cleanup of partial files after a failure, the return_exceptions=True reporting mode.
"""
from __future__ import annotations

import ast
from typing import Any, Callable, Dict, List, Optional, Sequence, Set, Tuple

from engines import absdom, pathabs as pa, pyfacts as pf
from engines.common import AnalysisError, Ctx
from engines.polysign import ONE, ZERO, Poly
from engines.inline import inline_methods
from engines.absexec import Exec, Op, Undecided, bind_args, explore, real_points, refute

META = dict(
    category='other',
    text='Partial claim. Necessary structural conditions of exact copying are decided exhaustively over finite abstractions: part coverage and '
         'reader/writer offset agreement by abstract execution over polynomial normal forms with a finite case split (identities proved on the '
         'normal form, refutations by a concrete witness of the normal form; paths that adjust the part size / count are forked and the size re-divided, results of a '
         'superseded division that reach the parts are refuted by realisable witnesses only), exact-length loop clauses by one abstract iteration per order case, '
         'the destination-rule decision table by predicate abstraction + path enumeration of the extracted methods with uninterpreted string '
         'constructors (every row of the atom valuation compared with the documented table), the barrier by must-pass-through on the CFG, error '
         'propagation by truth tables of the handlers.  Byte identity itself is a runtime round-trip property and is not claimed.',
    note='Trusted: CPython ast; engines/polysign, absexec, pathabs, inline; outcomes of statfile/listfiles/staturl are columns of the table; url_join, url_basename, '
         'rstrip, slicing are uninterpreted; read() of a regular local file returns >= 1 byte before EOF; write() writes all bytes. '
         'Not decided: contents of reads/writes, OS open/seek semantics, cloud back ends, schedules, accounting, cleanup after failure.',
    technique='static analysis: abstract execution over polynomial normal forms with a finite case split; predicate abstraction + path enumeration '
              'with inter-method composition for the decision table; CFG must-pass-through; truth tables for handlers; structural checks of open modes',
    design_ref='DESIGN.md §3 C22 (partial)',
)

F = 'hail/python/hailtop/aiotools/fs/copier.py'
CP = 'hail/python/hailtop/aiotools/copy.py'
LF = 'hail/python/hailtop/aiotools/local_fs.py'
FSF = 'hail/python/hailtop/aiotools/fs/fs.py'
ST = 'hail/python/hailtop/aiotools/fs/stream.py'
SC = 'SourceCopier'
RETRY = ('retry_transient_errors',)

V = Poly.var
SIZE = V('q') * V('P') + V('rem')


# ==================================================================================================
# R1 / R2 / R3: abstract execution of the copy routines
# ==================================================================================================


def _role(name: str) -> Op:
    return Op('role', name=name)


def _is_role(v: Any, name: str) -> bool:
    return isinstance(v, Op) and v.kind == 'role' and v.name == name


def _formal(name: str) -> Op:
    return Op('formal', name=name)


def _method(m: pf.Module, name: str) -> pf.FuncDef:
    return m.func(f'{SC}.{name}')


def _copier_model(m: pf.Module) -> Callable:
    def invoke(ex: Exec, target: ast.AST, args: Sequence[ast.AST], keywords: Sequence[ast.keyword], node: ast.Call) -> Any:
        if not (isinstance(target, ast.Attribute) and isinstance(target.value, ast.Name) and target.value.id == 'self'):
            return NotImplemented
        if not m.has_func(f'{SC}.{target.attr}'):
            return NotImplemented
        if any(isinstance(a, ast.Starred) for a in args) or any(k.arg is None for k in keywords):
            raise AnalysisError(f'{ex.label}: star-arguments in the call of {target.attr}')
        actuals = bind_args(_method(m, target.attr), [ex.ev(a) for a in args], {k.arg: ex.ev(k.value) for k in keywords})
        ex.events.append(Op('invoke', method=target.attr, actuals=actuals, node=node, withs=list(ex.withs), alt=ex.handler_depth))
        return Op('result', of=target.attr)

    def model(ex: Exec, e: ast.Call, recv: Any, attr: str) -> Any:
        name = pf.dotted(e.func)
        if attr == 'size' and not e.args and (_is_role(recv, 'srcstat') or (isinstance(recv, Op) and recv.kind == 'formal' and recv.name == 'srcstat')):
            return SIZE
        if attr == 'copy_part_size' and recv is not None:
            return V('P')   # the file system's answer: the part size of the ORIGINAL decomposition, whatever the size is divided by later
        if name in RETRY and e.args:
            r = invoke(ex, e.args[0], e.args[1:], e.keywords, e)
            if r is not NotImplemented:
                return r
        if isinstance(recv, Op) and recv.kind == 'self':
            r = invoke(ex, e.func, e.args, e.keywords, e)
            if r is not NotImplemented:
                return r
        if name is not None and name.split('.')[-1] == 'bounded_gather2':
            stars = [a for a in e.args if isinstance(a, ast.Starred)]
            if len(stars) != 1 or len(e.args) != 2:
                raise AnalysisError(f'{ex.label}: `{pf.nsrc(e)[:90]}` is not bounded_gather2(sema, *[thunks])')
            comp = stars[0].value
            comp_env = ex.env
            if isinstance(comp, ast.Name) and isinstance(ex.env.get(comp.id), Op) and ex.env[comp.id].kind == 'comp':
                comp, comp_env = ex.env[comp.id].node, ex.env[comp.id].env     # thunks = [partial(f, i) for i in range(n)]; gather(*thunks)
            ok = isinstance(comp, (ast.ListComp, ast.GeneratorExp)) and len(comp.generators) == 1 and not comp.generators[0].ifs \
                and not comp.generators[0].is_async and isinstance(comp.generators[0].target, ast.Name)
            if not ok:
                raise AnalysisError(f'{ex.label}: the thunks given to bounded_gather2 are not one comprehension over a range')
            gen = comp.generators[0]
            live_env, ex.env = ex.env, comp_env
            try:
                rng = ex.ev(gen.iter)
            finally:
                ex.env = live_env
            if not (isinstance(rng, Op) and rng.kind == 'range' and isinstance(rng.lo, Poly) and rng.lo.is_zero() and isinstance(rng.hi, Poly)):
                raise AnalysisError(f'{ex.label}: parts are not enumerated by range(<n>) but by `{pf.nsrc(gen.iter)}`')
            elt = comp.elt
            ok = isinstance(elt, ast.Call) and pf.dotted(elt.func) in ('functools.partial', 'partial') and len(elt.args) == 2 and not elt.keywords \
                and isinstance(elt.args[0], ast.Name) and isinstance(elt.args[1], ast.Name) and elt.args[1].id == gen.target.id
            if not ok:
                raise AnalysisError(f'{ex.label}: thunk `{pf.nsrc(elt)}` is not functools.partial(<f>, <index>)')
            clo = comp_env.get(elt.args[0].id)
            if not (isinstance(clo, Op) and clo.kind == 'closure'):
                raise AnalysisError(f'{ex.label}: `{elt.args[0].id}` is not a local function')
            ex.events.append(Op('gather', N=rng.hi, closure=clo.node, env=dict(ex.env), withs=list(ex.withs), node=e, alt=ex.handler_depth))
            return Op('result', of='bounded_gather2')
        return NotImplemented
    return model


def _pt_text(ex: Exec, pt: Dict[str, int]) -> str:
    size, P0, P = ex.inst(SIZE).at(pt), ex.inst(V('P')).at(pt), ex.inst(ex.cur(V('P'))).at(pt)
    if not ex.assumptions and not ex.gens:
        return f'size={size}, part_size={P0}'
    # the part size was adjusted / re-derived on this path: name the inputs (the file system's copy_part_size, the buffer size if it played a part)
    txt = f'size={size}, copy_part_size={P0}'
    if any('B' in g.div.unknowns() for g in ex.gens) or any('B' in a.unknowns() + b.unknowns() for _, a, b, _, _ in ex.assumptions):
        txt += f', BUFFER_SIZE={ex.inst(V("B")).at(pt)}'
    if ex.current_generation() > 1:
        txt += f', size last divided by {P}'
    return txt


class _Part:
    """Result of the generic (formal-parameter) analysis of _copy_part."""

    def __init__(self) -> None:
        self.start: Optional[Poly] = None
        self.number: Optional[Poly] = None
        self.n0: Optional[Poly] = None
        self.pc: Any = None
        self.src: Any = None
        self.loop: Dict[str, Any] = {}
        self.int_params: List[str] = []


def _analyse_copy_part(ctx: Ctx, m: pf.Module, example: Dict[str, Any]) -> _Part:
    fn = _method(m, '_copy_part')
    q = f'{SC}._copy_part'
    env: Dict[str, Any] = {'self': Op('self'), 'Copier.BUFFER_SIZE': V('B')}
    part = _Part()
    for p in [a.arg for a in fn.args.args][1:]:
        if isinstance(example.get(p), Poly):
            env[p] = V(p)
            part.int_params.append(p)
        else:
            env[p] = _formal(p)
    ex = Exec(m, fn, env, {}, q)
    ex.call_model = _copier_model(m)
    ex.run()
    ctx.need(len(ex.loops) == 1 and ex.loops[0].get('kind') == 'counted', f'{q}: expected one counted copy loop, found {[l.get("kind") for l in ex.loops]}')
    lp = ex.loops[0]
    part.loop = lp
    ctx.need('sink' in lp and 'read' in lp, f'{q}: the copy loop could not be followed to its read and write (see the reported loop clause)' if lp['problems'] else f'{q}: no read/write in loop')
    sink, buf = lp['sink'], lp['read']
    dest = sink.target
    ctx.need(isinstance(dest, Op) and dest.kind == 'create_part' and sink.how == 'write', f'{q}: the loop writes to `{dest!r}`, not to a stream from create_part')
    ctx.need(isinstance(dest.start, Poly) and isinstance(dest.number, Poly), f'{q}: create_part number/start are not integer expressions')
    part.start, part.number, part.pc = dest.start, dest.number, dest.pc
    part.n0 = lp['n0']
    srcs = buf.stream
    ctx.need(isinstance(srcs, Op) and srcs.kind in ('open_from', 'open'), f'{q}: the loop reads from `{srcs!r}`, not from a stream opened on the source')
    part.src = srcs.src
    # reader/writer agreement: the k-th byte of the part is read at source offset start + k and written at destination offset start + k
    cons = f'{F}::{q}::source offset = destination offset'
    nv = V('n_')
    offs = lp.get('src_offsets', [])
    if offs and all(isinstance(o, Poly) for o in offs):
        bad = None
        for o in offs:
            want = part.start + (part.n0 - nv)
            if not (o - want).is_zero():
                pt = {u: 1 for u in (o - want).unknowns()}
                pt.update({'part_number': 2, 'part_size': 5, 'this_part_size': 3, 'n_': 1})
                bad = (o, want, pt)
        if bad:
            o, want, pt = bad
            ctx.bad('R1', cons, f'inside a part the source is read at offset `{o!r}` while the byte is written at destination offset `{want!r}` '
                    f'(= part start + bytes already copied, {part.n0!r} - remaining); e.g. part_number=2, part_size=5, this_part_size=3, 1 byte remaining: '
                    f'read at {o.at(pt)}, written at {want.at(pt)} - the destination holds bytes of a different region of the source',
                    m.path, srcs.node.lineno)
        else:
            ctx.ok('R1', cons, {'source_offset': repr(offs[0]), 'destination_offset': repr(part.start + (part.n0 - nv))})
    elif srcs.kind == 'open_from' and isinstance(srcs.start, Poly) and not offs:
        raise AnalysisError(f'{q}: source stream opened outside the loop (sequential source) - offsets not analysed')
    else:
        raise AnalysisError(f'{q}: source offsets of the copy loop are not integer expressions')
    return part


def _subst_formals(p: Poly, actuals: Dict[str, Any], names: Sequence[str]) -> Poly:
    sub = {}
    for nme in names:
        a = actuals.get(nme)
        if not isinstance(a, Poly):
            raise AnalysisError(f'_copy_part: argument for {nme} is not an integer expression in this case')
        sub[nme] = a
    return p.subst(sub)


def _run_closure(parent: Exec, clo: ast.AST, env: Dict[str, Any], sub: Dict[str, Poly], i: Poly, label: str) -> Dict[str, Any]:
    params = [a.arg for a in clo.args.args]  # type: ignore[attr-defined]
    if len(params) != 1:
        raise AnalysisError(f'{label}: part function takes {len(params)} parameters')
    e2 = dict(env)
    e2[params[0]] = i
    ex = parent.child(clo, e2, sub, label)  # type: ignore[arg-type]
    ex.run()
    inv = [x for x in ex.events if x.kind == 'invoke' and x.method == '_copy_part']
    if len(inv) != 1:
        raise AnalysisError(f'{label}: the part function starts {len(inv)} part copies (one expected)')
    return inv[0].actuals


def _class_constants(m: pf.Module) -> Dict[str, Poly]:
    """`Cls.NAME` -> value for the integer class constants of the module (MAX_PARTS = 10_000 ...); BUFFER_SIZE stays the unknown B >= 1."""
    out: Dict[str, Poly] = {}
    for c in m.tree.body:
        if not isinstance(c, ast.ClassDef):
            continue
        for st in c.body:
            tgt = st.targets[0] if isinstance(st, ast.Assign) and len(st.targets) == 1 else (st.target if isinstance(st, ast.AnnAssign) and st.value is not None else None)
            if not isinstance(tgt, ast.Name):
                continue
            try:
                iv = absdom.eval_interval(st.value, {})  # type: ignore[union-attr]
            except AnalysisError:
                continue
            if iv.lo == iv.hi and float(iv.lo).is_integer():
                out[f'{c.name}.{tgt.id}'] = Poly.const(int(iv.lo))
    return out


def _untuple_helper_calls(m: pf.Module, cls: str, target: str) -> pf.Module:
    """`a, b = self.h(..)`  ==>  `_t = self.h(..); a, b = _t` in a copy of the module, so that engines/inline (single targets only) can expand h."""
    import copy
    tree = copy.deepcopy(m.tree)
    m2 = pf.Module(m.rel, m.path, m.src, tree)
    fn = m2.func(f'{cls}.{target}')
    n = [0]
    # a private @staticmethod helper called as `self.h(..)` is the plain method `h(self, ..)` for that call (engines/inline expands undecorated methods only)
    for h in m2.cls(cls).body:
        if isinstance(h, ast.FunctionDef) and h.name.startswith('_') and len(h.decorator_list) == 1 and pf.dotted(h.decorator_list[0]) == 'staticmethod' \
                and not any(a.arg == 'self' for a in h.args.args) and not any(isinstance(x, ast.Name) and x.id == 'self' for x in ast.walk(h)):
            h.decorator_list = []
            h.args.args.insert(0, ast.arg(arg='self'))
            n[0] += 1

    def block(stmts: List[ast.stmt]) -> List[ast.stmt]:
        out: List[ast.stmt] = []
        for st in stmts:
            for fld in ('body', 'orelse', 'finalbody'):
                b = getattr(st, fld, None)
                if isinstance(b, list) and b and isinstance(b[0], ast.stmt) and not isinstance(st, (ast.FunctionDef, ast.AsyncFunctionDef, ast.ClassDef)):
                    setattr(st, fld, block(b))
            if isinstance(st, ast.Try):
                for h in st.handlers:
                    h.body = block(h.body)
            v = st.value.value if isinstance(st, ast.Assign) and isinstance(st.value, ast.Await) else getattr(st, 'value', None)
            if isinstance(st, ast.Assign) and len(st.targets) == 1 and isinstance(st.targets[0], (ast.Tuple, ast.List)) and isinstance(v, ast.Call) \
                    and isinstance(v.func, ast.Attribute) and isinstance(v.func.value, ast.Name) and v.func.value.id == 'self':
                n[0] += 1
                tmp = f'_t{n[0]}'
                first = ast.copy_location(ast.Assign(targets=[ast.Name(id=tmp, ctx=ast.Store())], value=st.value, lineno=st.lineno), st)
                second = ast.copy_location(ast.Assign(targets=st.targets, value=ast.Name(id=tmp, ctx=ast.Load()), lineno=st.lineno), st)
                ast.fix_missing_locations(first)
                ast.fix_missing_locations(second)
                out += [first, second]
            else:
                out.append(st)
        return out
    fn.body = block(fn.body)
    return m2 if n[0] else m


def _stale_vars(exi: Exec, env: Dict[str, Any], node: ast.AST) -> List[str]:
    """Variables the part function reads that still hold a result of a superseded division (their value carries tagged unknowns)."""
    used = {n.id for n in ast.walk(node) if isinstance(n, ast.Name)}
    return sorted(nm for nm in used if isinstance(env.get(nm), Poly) and exi.is_stale(env[nm]))


def _analyse_main(ctx: Ctx, m: pf.Module, top_env: Dict[str, Any]) -> None:
    # helpers the part arithmetic may have been extracted into are analysed in place (engines/inline); the copy routines themselves are modelled
    m, il = inline_methods(_untuple_helper_calls(m, SC, '_copy_file_multi_part_main'), SC, '_copy_file_multi_part_main', exclude=('_copy_file', '_copy_part', '_copy_file_multi_part', 'copy', 'copy_as_file', 'copy_as_dir'))
    fn = _method(m, '_copy_file_multi_part_main')
    q = f'{SC}._copy_file_multi_part_main'
    s_, r_, u_ = V('s_'), V('r_'), V('u_')
    rem_cases = [('rem = 0', {'rem': ZERO, 'P': ONE + s_}), ('rem > 0', {'rem': ONE + r_, 'P': Poly.const(2) + r_ + s_})]
    q_cases = [('q = 0', ZERO), ('q = 1', ONE), ('q >= 2', Poly.const(2) + u_)]
    all_cases = [(f'{qd}, {rd}', dict(rsub, q=qsub)) for qd, qsub in q_cases for rd, rsub in rem_cases]
    consts = _class_constants(m)
    state: Dict[str, Any] = {'part': None, 'file_checked': False, 'n_multi': 0}
    undecided: List[str] = []
    for case, csub in all_cases:
        def make(script: List[Any], case: str = case, csub: Dict[str, Poly] = csub) -> Exec:
            env = dict(top_env)
            env.update(consts)
            env['Copier.BUFFER_SIZE'] = V('B')
            sub = dict(csub)
            sub['B'] = ONE + V('b_')
            ex = Exec(m, fn, env, sub, f'{q} [{case}]')
            ex.call_model = _copier_model(m)
            ex.divmod_of = ex.canonical_divmod = (SIZE, V('P'), V('q'), V('rem'))
            ex.rebase_cases = all_cases
            ex.keep = {'B', 'b_'}
            return ex
        # one run on today's tree; one run per combination of fork answers / re-division cases otherwise (engines/absexec: explore)
        groups: Dict[str, Dict[str, Any]] = {}
        try:
            runs = list(explore(make))
        except AnalysisError as e:
            undecided.append(str(e))
            continue
        for ex, status in runs:
            path = '; '.join(d.split(':')[0] if k == 'division' else d for k, d in ex.trace)
            subcase = '; '.join(d.split(': ', 1)[1] for k, d in ex.trace if k == 'division')
            glabel = case + (f'; {path}' if path else '')
            grp = groups.setdefault(glabel, {'problems': [], 'undecided': [], 'facts': None, 'line': fn.lineno})
            ex.label = f'{q} [{glabel}{" / " + subcase if subcase else ""}]'
            try:
                res = _analyse_run(ctx, m, fn, ex, status, glabel, subcase, state)
            except AnalysisError as e:
                grp['undecided'].append(str(e))
                continue
            grp['problems'] += [(f'[{subcase}] ' if subcase else '') + p for p in res['problems']]
            grp['line'] = res.get('line', grp['line'])
            grp['undecided'] += res.get('undecided', [])
            if grp['facts'] is None:
                grp['facts'] = res['facts']
        for glabel, grp in groups.items():
            cons = f'{F}::{q}::size = q*part_size + rem, {glabel}'
            if grp['problems']:
                more = len(grp['problems']) - 3
                ctx.bad('R1', cons, '; '.join(grp['problems'][:3]) + (f' (+{more} more)' if more > 0 else ''), m.path, grp['line'], extra=grp['problems'])
            elif grp['undecided']:
                undecided += grp['undecided'][:2]
            elif grp['facts'] is not None:
                ctx.ok('R1', cons, grp['facts'])
    if undecided:
        raise AnalysisError(' | '.join(undecided[:3]))
    ctx.need(state['n_multi'] >= 1, f'{q}: no case takes the multi-part path')
    ctx.unit('size_cases', 6)


def _real_point(ex: Exec, label: str) -> Dict[str, int]:
    for pt in real_points(ex, set(ex.inst(SIZE).unknowns()) | set(ex.inst(V('P')).unknowns()) | set(ex.inst(ex.cur(SIZE)).unknowns())):
        return pt
    raise Undecided(f'{label}: no input found that takes this path')


def _analyse_run(ctx: Ctx, m: pf.Module, fn: pf.FuncDef, ex: Exec, status: str, case: str, subcase: str, state: Dict[str, Any]) -> Dict[str, Any]:
    """One finished abstract execution of _copy_file_multi_part_main: the whole file through _copy_file, or parts that cover [0, size)."""
    q = f'{SC}._copy_file_multi_part_main'
    label = ex.label
    forked = bool(ex.trace)
    live = [x for x in ex.events if not x.alt]
    singles = [x for x in live if x.kind == 'invoke' and x.method == '_copy_file']
    gathers = [x for x in live if x.kind == 'gather']
    if status == 'raise':
        # an exit by an exception of the function's own making, before anything was copied: only the documented errors may end a copy
        rs = [x for x in ex.events if x.kind == 'raise']
        exc = rs[-1].node.exc if rs and not rs[-1].alt else None
        cls = pf.dotted(exc.func if isinstance(exc, ast.Call) else exc) if exc is not None else None
        if cls is not None and cls.split('.')[-1] not in ERRORS and not singles and not gathers:
            wit = _real_point(ex, label) if forked else {u: 0 for u in ('s_', 'r_', 'u_')}
            _once(ctx, 'R3', f'{F}::{q}::every exit has copied', False, f'for {_pt_text(ex, wit)} ({case}) the function raises {cls.split(".")[-1]} (`{pf.nsrc(rs[-1].node)[:80]}`) without '
                  'copying anything: the source exists and is a regular file, this is none of the documented errors', m.path, rs[-1].node.lineno)
            return {'problems': [], 'facts': None}
    if status not in ('fall', 'return'):
        raise AnalysisError(f'{label}: abstract execution ends by `{status}`')
    if not singles and not gathers:
        wit = _real_point(ex, label) if forked else {u: 0 for u in ('s_', 'r_', 'u_')}
        _once(ctx, 'R3', f'{F}::{q}::every exit has copied', False, f'for {_pt_text(ex, wit)} ({case}) the function returns without calling _copy_file and without '
              'running the parts: nothing is copied and no error is raised', m.path, fn.lineno)
        return {'problems': [], 'facts': None}
    ctx.need(len(gathers) <= 1 and len(singles) <= 1, f'{label}: {len(singles)} whole-file copies and {len(gathers)} part runs on one path')
    if singles:
        _check_single(ctx, m, singles[0], case, state['file_checked'])
        state['file_checked'] = True
        if not gathers:
            return {'problems': [], 'facts': {'path': 'whole file through _copy_file', 'witness': _pt_text(ex, {u: 0 for u in ('s_', 'r_', 'u_')}) if not forked else case}}
    g = gathers[0]
    state['n_multi'] += 1
    N = g.N
    ctx.need(isinstance(N, Poly), f'{label}: number of parts is not an integer expression')
    # who creates the destination
    mpcs = [x.stream for x in ex.events if x.kind == 'opened' and x.stream.kind == 'mpc']
    ctx.need(bool(mpcs), f'{label}: no multi_part_create on the multi-part path')
    consm = f'{F}::{q}::multi_part_create(destfile, ..) [{case}]'
    okm = True
    for mp in mpcs:
        if not _is_role(mp.dest, 'destfile'):
            okm = False
            _once(ctx, 'R3', consm, False, f'the part creator is created for {_vt(mp.dest)}, not for the destination file', m.path, g.node.lineno)
        elif not isinstance(mp.n, Poly):
            raise AnalysisError(f'{label}: num_parts is not an integer expression')
    if okm:
        if forked:
            _once(ctx, 'R3', consm, True, '', m.path, g.node.lineno)
        else:
            ctx.ok('R3', consm, {'num_parts': [repr(ex.inst(mp.n)) for mp in mpcs], 'parts_enumerated': repr(ex.inst(N))})
    consn = f'{F}::{q}::part numbers lie within the announced count [{case}]'
    range_problems: List[str] = []
    # the three kinds of part
    base0 = dict(ex.sub)
    problems: List[str] = []
    und: List[str] = []   # obligations neither proved nor refuted: the run declines unless another obligation is refuted
    facts: Dict[str, Any] = {'path': 'multi-part', 'n_parts': repr(ex.inst(N))}
    part: Optional[_Part] = state['part']
    csize = ex.cur(SIZE)   # the file size in the unknowns of the decomposition in force (the same number as SIZE)

    def stale(exi: Exec, *polys: Poly) -> str:
        if ex.current_generation() == 1:
            return ''
        names = _stale_vars(exi, g.env, g.closure) + (['the number of parts'] if exi.is_stale(N) else [])
        src = next((x.src for x in reversed(ex.gens) if x.what == 'size'), '?')
        return (f' [{", ".join(f"`{n}`" if " " not in n else n for n in names)} still hold{"s" if len(names) == 1 else ""} a result of the division that `{src}` '
                'superseded: the part size in force is no longer the divisor it was computed with]') if names else ''
    for kd, i, nxt, base in _part_kinds(ex, N, label):
        exi = ex.child(fn, {}, base, f'{label[:-1]}; {kd}]')
        try:
            act = _run_closure(exi, g.closure, g.env, base, i, f'{q}.f [{case}; {kd}]')
            act2 = _run_closure(exi, g.closure, g.env, base, nxt, f'{q}.f [{case}; part after {kd}]') if nxt is not None else None
        except Undecided as e:
            if not forked:
                raise
            und.append(str(e))    # a test of the part function is not uniform for this kind of part: the other kinds may still refute
            continue
        if part is None:
            part = state['part'] = _analyse_copy_part(ctx, m, act)
            _check_loop(ctx, m.path, f'{F}::{SC}._copy_part', part.loop, 'R2')
        if not _plumb_part(ctx, m, act, part, mpcs, case, kd, g, i, exi):
            problems.append('argument plumbing')
            continue
        start = _subst_formals(part.start, act, part.int_params)  # type: ignore[arg-type]
        sz = _subst_formals(part.n0, act, part.int_params)  # type: ignore[arg-type]
        number = _subst_formals(part.number, act, part.int_params)  # type: ignore[arg-type]
        guards = [i]
        # part number inside the announced count
        for mp in mpcs:
            if isinstance(mp.n, Poly) and (exi.decide('>=', number, ZERO) is not True or exi.decide('<', number, mp.n) is not True):
                pt = refute(exi, '>=', number, ZERO, guards) or refute(exi, '<', number, mp.n, guards)
                if pt is None:
                    und.append(f'{exi.label}: cannot place part number {exi.inst(number)!r} in 0..{exi.inst(mp.n)!r}')
                    continue
                range_problems.append(f'{kd}: for {_pt_text(exi, pt)} part index {exi.inst(i).at(pt)} is created as part number {exi.inst(number).at(pt)} while '
                                      f'multi_part_create was told {exi.inst(mp.n).at(pt)} parts: create_part rejects it (AssertionError), the part is never written'
                                      + stale(exi, number, mp.n))
        if nxt is None:
            want, wtext = csize, 'the end of the file'
        else:
            want, wtext = _subst_formals(part.start, act2, part.int_params), 'the start of the next part'  # type: ignore[arg-type]
        end = start + sz
        # no gap before what follows; nothing read beyond the end of the source (an overlap inside the file rewrites identical bytes: harmless,
        # because source offset = destination offset)
        for op, rhs, rtext, verdict in (('>=', want, wtext, 'those bytes are never copied'),
                                        ('<=', csize, 'the end of the file', 'the part reads beyond the end of the source: UnexpectedEOFError')):
            if exi.decide(op, end, rhs) is True:
                continue
            pt = refute(exi, op, end, rhs, guards)
            if pt is None:
                und.append(f'{exi.label}: cannot decide end of part {exi.inst(end)!r} {op} {exi.inst(rhs)!r}')
                continue
            a, b, c = exi.inst(start).at(pt), exi.inst(end).at(pt), exi.inst(rhs).at(pt)
            problems.append(f'{kd}: for {_pt_text(exi, pt)} part {exi.inst(i).at(pt)} of {exi.inst(N).at(pt)} copies bytes [{a}, {b}) but {rtext} is {c}: {verdict}'
                            + stale(exi, end, rhs))
        if exi.decide('>=', start, ZERO) is not True:
            und.append(f'{exi.label}: start offset {exi.inst(start)!r} not known to be non-negative')
        facts[kd] = {'start': repr(exi.inst(start)), 'size': repr(exi.inst(sz))}
    # the first part starts at 0
    ex0 = ex.child(fn, {}, base0, f'{label[:-1]}; first part]')
    if ex0.decide('>=', N, ONE) is not False and part is not None:
        try:
            act0 = _run_closure(ex0, g.closure, g.env, base0, ZERO, f'{q}.f [{case}; first part]')
            s0 = _subst_formals(part.start, act0, part.int_params)  # type: ignore[arg-type]
        except Undecided as e:
            if not forked:
                raise
            und.append(str(e))
            s0 = ZERO
        if ex0.decide('==', s0, ZERO) is not True:
            pt = refute(ex0, '==', s0, ZERO)
            if pt is None:
                und.append(f'{ex0.label}: cannot decide that part 0 starts at offset 0 ({ex0.inst(s0)!r})')
            else:
                problems.append(f'first part: for {_pt_text(ex0, pt)} part 0 starts at offset {ex0.inst(s0).at(pt)}: the first bytes are never copied')
    if forked:
        if range_problems:
            _once(ctx, 'R3', consn, False, (f'[{subcase}] ' if subcase else '') + '; '.join(range_problems[:2]), m.path, g.node.lineno)
        else:
            _once(ctx, 'R3', consn, True, '', m.path, g.node.lineno)
    else:
        ctx.check(not range_problems, 'R3', consn, '; '.join(range_problems[:2]), m.path, g.node.lineno)
    return {'problems': problems, 'facts': facts, 'line': g.node.lineno, 'undecided': und}


def _part_kinds(ex: Exec, N: Poly, label: str) -> List[Tuple[str, Poly, Optional[Poly], Dict[str, Poly]]]:
    """The kinds of part index i in 0..N-1 as (description, i, index of the next part or None, case substitution).  Every kind is encoded so
    that i >= 0 holds for all values of the slack unknowns: a constant N is enumerated, N = k + u_ is shifted (u_ = shift + slack)."""
    base = dict(ex.sub)
    n = ex.inst(N)
    un = ex.cur(V('u_')).unknowns()[0]
    e_, c_ = ex.cur(V('e_')), ex.cur(V('c_'))
    if n.is_const() and 0 <= n.const_value() <= 4:
        k = n.const_value()
        return [(f'part {j} of {k}', Poly.const(j), Poly.const(j + 1) if j + 1 < k else None, base) for j in range(k)]
    k0 = n.const_value()
    if not (set(n.t) <= {(), (un,)} and n.t.get((un,)) == 1 and 0 <= k0 <= 3):
        # the part count is not a quantity k + u of the decomposition in force (a result of a superseded division, an opaque quotient, a
        # clamp): nothing orders it against q, so the kinds of part are described relative to it (index >= 0 is a guard of the refutations;
        # a proof holds for every value of the unknowns anyway)
        if not (ex.script is not None or ex.trace or ex.gens):
            raise Undecided(f'{label}: number of parts {n!r} is not of the form k + u')
        return [('last part', N - ONE, None, base), ('next-to-last part', N - Poly.const(2), N - ONE, base),
                ('an earlier part', N - Poly.const(3) - c_, N - Poly.const(2) - c_, base)]
    out = []
    for kd, back, extra in (('last part', 1, ZERO), ('next-to-last part', 2, ZERO), ('an earlier part', 3, c_)):
        sub = dict(base)
        shift = max(0, back - k0)
        sub[un] = Poly.const(shift) + extra + e_
        i = N - Poly.const(back) - extra
        out.append((kd, i, None if back == 1 else i + ONE, sub))
    return out


def _vt(v: Any) -> str:
    if isinstance(v, Op) and v.kind == 'role':
        return {'srcfile': 'the source file', 'destfile': 'the destination file'}.get(v.name, f'the caller\'s `{v.name}`')
    if isinstance(v, Op) and v.kind == 'mpc':
        return f'a part creator for {_vt(v.dest)}'
    if isinstance(v, Poly):
        return f'the number {v!r}'
    return f'`{v!r}`'


def _once(ctx: Ctx, rule: str, cons: str, ok: bool, msg: str, path: str, line: int) -> None:
    seen = ctx.__dict__.setdefault('_c22_seen', set())
    if (rule, cons, ok) in seen:
        return
    seen.add((rule, cons, ok))
    ctx.check(ok, rule, cons, msg, path, line)


def _plumb_part(ctx: Ctx, m: pf.Module, act: Dict[str, Any], part: _Part, mpcs: List[Op], case: str, kd: str, g: Op, i: Poly, exi: Exec) -> bool:
    """The part copy is handed the source file and the part creator of this destination."""
    q = f'{SC}._copy_file_multi_part_main'
    ok = True
    if isinstance(part.src, Op) and part.src.kind == 'formal':
        got = act.get(part.src.name)
        cons = f'{F}::{q}::part reads `srcfile` [{case}]'
        ok = _is_role(got, 'srcfile')
        _once(ctx, 'R3', cons, ok, f'{kd}: _copy_part reads from its parameter `{part.src.name}`, which receives {_vt(got)} instead of the source file', m.path, g.node.lineno)
    else:
        raise AnalysisError(f'{q}: _copy_part reads from `{part.src!r}`, not from a parameter')
    if isinstance(part.pc, Op) and part.pc.kind == 'formal':
        got = act.get(part.pc.name)
        cons = f'{F}::{q}::part writes through the part creator of `destfile` [{case}]'
        okp = isinstance(got, Op) and got.kind == 'mpc' and any(got.same(mp) for mp in mpcs) and _is_role(got.dest, 'destfile')
        if not okp and isinstance(got, Op) and got.kind == 'conflict':
            raise AnalysisError(f'{q}: the part creator differs between the try body and its fallback')
        ok = ok and okp
        _once(ctx, 'R3', cons, okp, f'{kd}: _copy_part creates its part through {_vt(got)}, not through the part creator made for the destination file', m.path, g.node.lineno)
    else:
        raise AnalysisError(f'{q}: _copy_part calls create_part on `{part.pc!r}`, not on a parameter')
    rex = act.get('return_exceptions')
    if 'return_exceptions' not in [a.arg for a in _method(m, '_copy_part').args.args]:
        raise AnalysisError(f'{SC}._copy_part has no return_exceptions parameter')
    okr = isinstance(rex, Poly) and exi.decide('==', rex, ZERO) is True
    if not okr and not (isinstance(rex, Poly) and rex.is_const()):
        raise AnalysisError(f'{q}: cannot follow the return_exceptions argument of _copy_part (`{rex!r}`)')
    _once(ctx, 'R5', f'{F}::{q}::_copy_part(.., return_exceptions) [{case}]', okr, f'{kd}: the part copy is started with return_exceptions=True although the caller asked for exceptions: '
          'a failed part is recorded in the report, the destination is left with a hole and counted as copied', m.path, g.node.lineno)
    return ok


def _check_single(ctx: Ctx, m: pf.Module, inv: Op, case: str, done: bool) -> None:
    """_copy_file(srcfile, destfile): read-until-EOF loop from the start of srcfile into a freshly created destfile."""
    q = f'{SC}._copy_file'
    fn = _method(m, '_copy_file')
    act = inv.actuals
    env: Dict[str, Any] = {'self': Op('self'), 'Copier.BUFFER_SIZE': V('B')}
    for p in [a.arg for a in fn.args.args][1:]:
        env[p] = V(p) if isinstance(act.get(p), Poly) else _formal(p)
    ex = Exec(m, fn, env, {'B': ONE + V('b_')}, q)
    ex.call_model = _copier_model(m)
    ex.run()
    ctx.need(len(ex.loops) == 1 and ex.loops[0].get('kind') == 'eof', f'{q}: expected one read-until-EOF loop, found {[l.get("kind") for l in ex.loops]}')
    lp = ex.loops[0]
    if not done:
        _check_loop(ctx, m.path, f'{F}::{q}', lp, 'R2')
    if 'sink' not in lp or 'read' not in lp:
        ctx.need(bool(lp['problems']), f'{q}: loop not followed')
        return
    srcs, dst = lp['read'].stream, lp['sink'].target
    ctx.need(isinstance(srcs, Op) and srcs.kind in ('open', 'open_from'), f'{q}: reads from `{srcs!r}`')
    ctx.need(isinstance(dst, Op) and dst.kind == 'create', f'{q}: writes to `{dst!r}`, not to a stream from create()')
    if srcs.kind == 'open_from':
        ctx.need(isinstance(srcs.start, Poly), f'{q}: source start offset not an integer')
        ctx.check(srcs.start.is_zero(), 'R3', f'{F}::{q}::reads from the start', f'the whole-file copy opens the source at offset {srcs.start!r}', m.path, srcs.node.lineno)
    for what, val, role in (('reads', srcs.src, 'srcfile'), ('creates', dst.dest, 'destfile')):
        cons = f'{F}::{SC}._copy_file_multi_part_main::whole-file copy {what} `{role}`'
        ctx.need(isinstance(val, Op) and val.kind == 'formal', f'{q}: {what} `{val!r}`, not a parameter')
        got = act.get(val.name)
        _once(ctx, 'R3', cons, _is_role(got, role), f'[{case}] _copy_file {what} its parameter `{val.name}`, which receives {_vt(got)} instead of {_vt(_role(role))}'
              + (': the destination is read and the source overwritten' if isinstance(got, Op) and got.kind == 'role' else ''), m.path, inv.node.lineno)


LOOP_TEXT = {
    'test': 'the loop continues exactly while bytes remain',
    'exit': 'the loop body does not leave before the count is exhausted',
    'request': 'each read asks for between 1 and `remaining` bytes',
    'data': 'the bytes passed on are the bytes just read',
    'decrement': 'the counter decreases by the number of bytes passed on',
    'stop': 'the loop is left on the empty read (end of file)',
    'pass': 'every non-empty chunk is passed on and the loop continues',
}


def _check_loop(ctx: Ctx, path: str, where: str, lp: Dict[str, Any], rule: str) -> None:
    bad = dict()
    for clause, msg in lp['problems']:
        bad.setdefault(clause, msg)
    for clause in list(lp['holds']) + list(bad):
        cons = f'{where}::copy loop::{clause}'
        if clause in bad:
            ctx.bad(rule, cons, bad[clause], path, lp['node'].lineno)
        else:
            ctx.ok(rule, cons, LOOP_TEXT.get(clause, clause))


def _analyse_readexactly(ctx: Ctx) -> None:
    m = pf.load(ST)
    ctx.unit('files')
    cls = '_ReadableStreamFromBlocking'
    fn = m.func(f'{cls}._readexactly')
    q = f'{cls}._readexactly'
    params = [a.arg for a in fn.args.args]
    ctx.need(len(params) == 2, f'{q}: parameters changed: {params}')
    ex = Exec(m, fn, {'self': Op('self'), params[1]: V(params[1])}, {}, q)
    ex.run()
    ctx.need(len(ex.loops) == 1 and ex.loops[0].get('kind') == 'counted', f'{q}: expected one counted read loop')
    lp = ex.loops[0]
    _check_loop(ctx, m.path, f'{ST}::{q}', lp, 'R2')
    if 'sink' in lp:
        sink = lp['sink']
        ctx.need(sink.how == 'append' and isinstance(sink.target, Op) and sink.target.kind == 'list', f'{q}: blocks are not collected in a local list')
        ctx.need(lp['n0'] == V(params[1]), f'{q}: the counter does not start at the requested count')
        rets = [r for r in ex.returned]
        ctx.need(not (len(rets) == 1 and isinstance(rets[0], Op) and rets[0].kind == 'loopvar'), f'{q}: returns only the last block read - equal to all blocks only if one read always suffices, not decided')
        ok = len(rets) == 1 and isinstance(rets[0], Op) and rets[0].kind == 'join' and rets[0].seq is sink.target \
            and isinstance(rets[0].sep, Op) and rets[0].sep.kind == 'const' and rets[0].sep.value == b''
        ctx.check(ok, 'R2', f'{ST}::{q}::returns all blocks', f'the function returns `{rets[0] if rets else None!r}`, not the concatenation b"".join(<all blocks read>): '
                  'readexactly(n) hands back fewer/other bytes than the n it consumed, and _copy_part advances by n', m.path, fn.lineno)
    # readexactly(n) forwards n
    rx = m.func(f'{cls}.readexactly')
    calls = [c for c in pf.calls_in(rx) if any(pf.dotted(a) == 'self._readexactly' for a in c.args)]
    ctx.need(len(calls) == 1, f'{cls}.readexactly does not hand self._readexactly to the thread pool exactly once')
    c = calls[0]
    idx = [i for i, a in enumerate(c.args) if pf.dotted(a) == 'self._readexactly'][0]
    rest = [pf.nsrc(a) for a in c.args[idx + 1:]]
    rp = [a.arg for a in rx.args.args]
    ctx.check(rest == rp[1:2] and not c.keywords, 'R2', f'{ST}::{cls}.readexactly::forwards n', f'readexactly({rp[1]}) runs _readexactly({", ".join(rest)})', m.path, rx.lineno)


# ==================================================================================================
# R3: local file-system primitives
# ==================================================================================================


def _open_calls(fn: pf.FuncDef) -> List[Tuple[ast.Call, List[ast.expr], Dict[str, ast.expr]]]:
    out = []
    for c in pf.calls_in(fn):
        name = pf.dotted(c.func)
        if name == 'open':
            out.append((c, list(c.args), {k.arg: k.value for k in c.keywords if k.arg}))
        elif name is not None and name.split('.')[-1] == 'blocking_to_async' and len(c.args) >= 2 and pf.dotted(c.args[1]) == 'open':
            out.append((c, list(c.args[2:]), {k.arg: k.value for k in c.keywords if k.arg}))
    return out


def _mode_of(ctx: Ctx, where: str, args: List[ast.expr], kw: Dict[str, ast.expr]) -> str:
    me = kw.get('mode') if 'mode' in kw else (args[1] if len(args) >= 2 else None)
    if me is None:
        return 'r'
    s = pf.const_str(me)
    ctx.need(s is not None, f'{where}: open mode `{pf.nsrc(me)}` is not a string literal')
    return s  # type: ignore[return-value]


def _derived(fn: pf.FuncDef, root: str) -> Set[str]:
    """Names whose value is built from `root` (f -> bio = cast(.., f) -> bio = Wrapper(bio, ..))."""
    der = {root}
    changed = True
    while changed:
        changed = False
        for name, vals in pf.assignments(fn).items():
            if name in der:
                continue
            for v in vals:
                if isinstance(v, ast.expr) and pf.names_in(v) & der:
                    der.add(name)
                    changed = True
    return der


def _opened_var(ctx: Ctx, m: pf.Module, fn: pf.FuncDef, call: ast.Call, where: str) -> str:
    par = m.parents()
    cur: ast.AST = call
    while not isinstance(cur, ast.stmt):
        cur = par[cur]
    ctx.need(isinstance(cur, ast.Assign) and len(cur.targets) == 1 and isinstance(cur.targets[0], ast.Name), f'{where}: the opened file is not bound to a local')
    return cur.targets[0].id  # type: ignore[union-attr]


def _seek_check(ctx: Ctx, m: pf.Module, fn: pf.FuncDef, fvar: str, param: str, cons: str, why: str) -> None:
    cfg = pf.cfg(fn)
    der = _derived(fn, fvar)
    seeks = []
    for n in cfg.nodes:
        for c in pf.node_calls(n):
            if isinstance(c.func, ast.Attribute) and c.func.attr == 'seek' and isinstance(c.func.value, ast.Name) and c.func.value.id in der:
                seeks.append((n, c))
    if not seeks:
        ctx.bad('R3', cons, f'the file is never positioned at `{param}`: {why}', m.path, fn.lineno)
        return
    ctx.need(len(seeks) == 1, f'{cons}: {len(seeks)} seek calls')
    n, c = seeks[0]
    whence = c.args[1] if len(c.args) >= 2 else next((k.value for k in c.keywords if k.arg == 'whence'), None)
    wok = whence is None or pf.dotted(whence) in ('io.SEEK_SET', 'os.SEEK_SET', 'SEEK_SET') or (isinstance(whence, ast.Constant) and whence.value == 0)
    pos_ok = len(c.args) >= 1 and isinstance(c.args[0], ast.Name) and c.args[0].id == param
    skip = cfg.path_avoiding(cfg.entry, lambda x: x is cfg.exit, lambda x: x is n)
    ctx.check(pos_ok and wok and skip is None, 'R3', cons,
              (f'`{pf.nsrc(c)}` does not seek to the absolute offset `{param}`' if not (pos_ok and wok) else 'a path returns the stream without seeking') + f': {why}',
              m.path, c.lineno)


def _returns_wrap(ctx: Ctx, m: pf.Module, fn: pf.FuncDef, fvar: str, cons: str) -> None:
    der = _derived(fn, fvar)
    rets = [r for r in pf.walk_shallow(fn) if isinstance(r, ast.Return)]
    ok = bool(rets) and all(r.value is not None and (pf.names_in(r.value) & der) for r in rets)
    ctx.check(ok, 'R3', cons, 'the returned stream is not built from the file that was opened and positioned', m.path, fn.lineno)


def _local_fs(ctx: Ctx) -> None:
    m = pf.load(LF)
    ctx.unit('files')
    L = 'LocalAsyncFS'

    def one_open(qual: str) -> Tuple[pf.FuncDef, ast.Call, str, List[ast.expr]]:
        fn = m.func(qual)
        oc = _open_calls(fn)
        ctx.need(len(oc) == 1, f'{qual}: {len(oc)} open() calls (one expected)')
        call, args, kw = oc[0]
        return fn, call, _mode_of(ctx, qual, args, kw), args

    # sources
    for qual in (f'{L}.open', f'{L}._open_from'):
        fn, call, mode, _ = one_open(qual)
        ms = set(mode)
        ctx.check(ms == {'r', 'b'}, 'R3', f'{LF}::{qual}::mode', f'sources are opened with mode {mode!r}: '
                  + ('text mode decodes / translates the bytes' if 'b' not in ms else 'not a plain binary read'), m.path, call.lineno)
    fn, call, _, _ = one_open(f'{L}._open_from')
    params = [a.arg for a in fn.args.args]
    ctx.need(len(params) >= 3, f'{L}._open_from parameters changed: {params}')
    fvar = _opened_var(ctx, m, fn, call, f'{L}._open_from')
    _seek_check(ctx, m, fn, fvar, params[2], f'{LF}::{L}._open_from::seek(start)', 'every ranged read returns the first bytes of the file, so every part of a multi-part copy '
                'receives the bytes of part 0')
    _returns_wrap(ctx, m, fn, fvar, f'{LF}::{L}._open_from::returns the positioned file')
    # destinations
    fn, call, mode, _ = one_open(f'{L}.create')
    ms = set(mode)
    why = None
    if 'b' not in ms:
        why = 'text mode: writing bytes fails / is translated'
    elif 'a' in ms:
        why = 'append mode keeps the old content of an existing destination in front of the copy'
    elif 'x' in ms:
        why = 'exclusive mode refuses to overwrite an existing destination'
    elif 'w' not in ms:
        why = 'the old content of a longer existing destination is not truncated: its tail survives the copy'
    ctx.check(why is None, 'R3', f'{LF}::{L}.create::mode', f'destinations are created with mode {mode!r}: {why}', m.path, call.lineno)
    # multi_part_create: create/truncate, then a LocalMultiPartCreate for the same path and count
    fn = m.func(f'{L}.multi_part_create')
    params = [a.arg for a in fn.args.args]
    ctx.need(len(params) == 4, f'{L}.multi_part_create parameters changed: {params}')
    url, nump = params[2], params[3]
    cfg = pf.cfg(fn)
    creates = [n for n in cfg.nodes if any(pf.dotted(c.func) in ('self.create', 'self.touch') and c.args and pf.nsrc(c.args[0]) == url for c in pf.node_calls(n))]
    rets = [n for n in cfg.nodes if n.kind == 'return']
    ctx.need(len(rets) == 1, f'{L}.multi_part_create: {len(rets)} return statements')
    rv = rets[0].ast.value  # type: ignore[union-attr]
    ctx.need(isinstance(rv, ast.Call) and pf.dotted(rv.func) == 'LocalMultiPartCreate' and len(rv.args) == 3, f'{L}.multi_part_create does not return LocalMultiPartCreate(fs, path, n)')
    skip = cfg.path_avoiding(cfg.entry, lambda x: x is rets[0], lambda x: x in creates) if creates else [cfg.entry]
    ctx.check(skip is None, 'R3', f'{LF}::{L}.multi_part_create::creates an empty destination first',
              'the destination is not created/truncated before the parts are written through r+b handles: a missing destination makes every part fail, '
              'a longer existing destination keeps its old tail', m.path, fn.lineno)
    ctx.check(url in pf.names_in(rv.args[1]) and pf.nsrc(rv.args[2]) == nump, 'R3', f'{LF}::{L}.multi_part_create::same path and count',
              f'returns `{pf.nsrc(rv)}`: the part creator is not for `{url}` with `{nump}` parts', m.path, rv.lineno)
    # create_part
    P = 'LocalMultiPartCreate'
    init = m.func(f'{P}.__init__')
    ip = [a.arg for a in init.args.args]
    ctx.need(len(ip) == 4, f'{P}.__init__ parameters changed: {ip}')
    stores = {pf.nsrc(s.targets[0]): pf.nsrc(s.value) for s in init.body if isinstance(s, ast.Assign) and len(s.targets) == 1}
    path_attr = next((k for k, v in stores.items() if v == ip[2]), None)
    ctx.need(path_attr is not None, f'{P}.__init__ does not store the path')
    fn, call, mode, args = one_open(f'{P}.create_part')
    ms = set(mode)
    why = None
    if 'b' not in ms:
        why = 'text mode: writing bytes fails'
    elif 'w' in ms:
        why = 'a truncating mode: each part erases what the other parts have already written'
    elif 'a' in ms:
        why = 'append mode ignores the seek position: parts land in completion order, not at their offsets'
    elif 'x' in ms:
        why = 'exclusive mode fails because multi_part_create already created the file'
    elif '+' not in ms:
        why = 'read-only: the part cannot be written'
    ctx.check(why is None, 'R3', f'{LF}::{P}.create_part::mode', f'parts are written through open(..., {mode!r}): {why}', m.path, call.lineno)
    ctx.check(bool(args) and pf.nsrc(args[0]) == path_attr, 'R3', f'{LF}::{P}.create_part::same file', f'parts are written to `{pf.nsrc(args[0]) if args else "?"}`, not to {path_attr}',
              m.path, call.lineno)
    params = [a.arg for a in fn.args.args]
    ctx.need(len(params) >= 3, f'{P}.create_part parameters changed: {params}')
    fvar = _opened_var(ctx, m, fn, call, f'{P}.create_part')
    _seek_check(ctx, m, fn, fvar, params[2], f'{LF}::{P}.create_part::seek(start)', 'every part is written at the beginning of the destination file instead of at its own offset')
    _returns_wrap(ctx, m, fn, fvar, f'{LF}::{P}.create_part::returns the positioned file')
    # __aexit__
    fn = m.func(f'{P}.__aexit__')
    params = [a.arg for a in fn.args.args]
    ctx.need(len(params) == 4, f'{P}.__aexit__ parameters changed: {params}')
    excs = set(params[1:])
    rets_ = [r for r in pf.walk_shallow(fn) if isinstance(r, ast.Return) and r.value is not None]
    sup = [r for r in rets_ if not (isinstance(r.value, ast.Constant) and not r.value.value)]
    ctx.check(not sup, 'R3', f'{LF}::{P}.__aexit__::does not suppress', f'`{pf.nsrc(sup[0]) if sup else ""}` can return a true value from __aexit__: a failed part copy is swallowed and the '
              'incomplete destination is reported as copied', m.path, fn.lineno)
    cfg = pf.cfg(fn)

    def removes(n: pf.Node) -> bool:
        return any((pf.dotted(c.func) or '').split('.')[-1] in ('remove', 'unlink', 'rmtree', '_remove_doesnt_exist_ok') for c in pf.node_calls(n))

    def val(atom: ast.AST) -> bool:
        if isinstance(atom, ast.Name) and atom.id in excs:
            return False
        if isinstance(atom, ast.Compare) and len(atom.ops) == 1 and isinstance(atom.left, ast.Name) and atom.left.id in excs \
                and isinstance(atom.comparators[0], ast.Constant) and atom.comparators[0].value is None:
            if isinstance(atom.ops[0], (ast.Is, ast.Eq)):
                return True
            if isinstance(atom.ops[0], (ast.IsNot, ast.NotEq)):
                return False
        raise AnalysisError(f'{P}.__aexit__: test `{pf.nsrc(atom)}` is not about the exception arguments')

    def edge_ok(a: pf.Node, b: pf.Node, lab: str) -> bool:
        if a.kind == 'test' and lab in ('T', 'F'):
            return absdom.eval_bool(a.ast, val) == (lab == 'T')
        return lab != 'exc'
    rm = [n for n in cfg.nodes if n.ast is not None and removes(n)]
    reach = cfg.reachable_from(cfg.entry, edge_ok=edge_ok)
    hit = [n for n in rm if n.id in reach]
    ctx.check(not hit, 'R3', f'{LF}::{P}.__aexit__::removes only on failure', f'`{hit[0].text() if hit else ""}` is reached when the parts completed without an exception: '
              'the destination is deleted right after a successful multi-part copy', m.path, hit[0].lineno if hit else fn.lineno)
    # copy_part_size is a positive constant (divisor of the part arithmetic)
    fm = pf.load(FSF)
    ctx.unit('files')
    for mod, qual in ((fm, 'AsyncFS.copy_part_size'), (m, f'{L}.copy_part_size')):
        if not mod.has_func(qual):
            continue
        f2 = mod.func(qual)
        rets2 = [r for r in pf.walk_shallow(f2) if isinstance(r, ast.Return)]
        ctx.need(len(rets2) == 1 and rets2[0].value is not None, f'{qual}: not a single return')
        try:
            v = absdom.eval_interval(rets2[0].value, {})
        except AnalysisError as e:
            raise AnalysisError(f'{qual}: part size `{pf.nsrc(rets2[0].value)}` is not a constant ({e})')
        ctx.check(v.lo >= 1, 'R1', f'{mod.rel}::{qual}::positive', f'part size {v.lo} is not positive: divmod(size, part_size) fails or yields negative part counts', mod.path, f2.lineno)


# ==================================================================================================
# R4: destination-rule decision table (predicate abstraction + path enumeration, engines/pathabs)
# ==================================================================================================

ERRORS = ('FileAndDirectoryError', 'FileNotFoundError', 'IsADirectoryError', 'NotADirectoryError')
URL_ALIASES = {'m:url_maybe_trailing_slash': 'entry_url', 'm:url': 'entry_url'}  # equal for the non-directory entries a recursive listing yields


def _classes() -> Dict[str, Tuple[pf.Module, ast.ClassDef]]:
    m, fm = pf.load(F), pf.load(FSF)
    out = {n: (m, m.cls(n)) for n in ('Transfer', 'Copier', SC, 'SourceReport', 'TransferReport')}
    out['AsyncFS'] = (fm, fm.cls('AsyncFS'))
    return out


def _exceptions() -> Dict[str, str]:
    em = pf.load('hail/python/hailtop/aiotools/fs/exceptions.py')
    out = {}
    for c in em.tree.body:
        if isinstance(c, ast.ClassDef) and len(c.bases) == 1 and pf.dotted(c.bases[0]):
            out[c.name] = pf.dotted(c.bases[0])
    return out


def _enum(ctx: Ctx, m: pf.Module, cls: str, name: str) -> str:
    for st in m.cls(cls).body:
        if isinstance(st, ast.Assign) and len(st.targets) == 1 and pf.nsrc(st.targets[0]) == name:
            s = pf.const_str(st.value)
            ctx.need(s is not None, f'{cls}.{name} is not a string constant')
            return s  # type: ignore[return-value]
    raise AnalysisError(f'anchor vanished: {cls}.{name}')


class _Row:
    """One row of the table: the atoms, the outcome of the environment queries, the expected and the computed abstract outcome."""

    def __init__(self, ctx: Ctx, consts: Dict[str, str], mode: str, dstate: str, dslash: bool, multi: bool, sslash: bool, sfile: bool, sdir: bool):
        self.ctx, self.consts = ctx, consts
        self.mode, self.dstate, self.dslash, self.multi, self.sslash, self.sfile, self.sdir = mode, dstate, dslash, multi, sslash, sfile, sdir
        self.src_in = pa.Sym('src')
        self.dest = pa.Sym('dest')
        self.S: Any = pa.Term('elem', [self.src_in]) if multi else self.src_in  # the (generic) source of the transfer
        self.val: Dict[str, bool] = {
            'isinstance(src, list)': multi,
            'isinstance(src, str)': not multi,
            "endswith(dest, '/')": dslash,
            f"endswith({pa.key(self.S)}, '/')": sslash,
        }
        self.engine = pa.PathAbs(_classes(), self.val, url_aliases=URL_ALIASES, exceptions=_exceptions())
        mk = self.engine.mk
        self.root = self.S if sslash else mk('concat', [self.S, pa.Const('/')])
        self.listing = pa.Term('listing', [self.root])
        self.entry = pa.Term('elem', [self.listing])
        self.entry_url = pa.Term('entry_url', [self.entry])
        self.val[f"endswith({pa.key(self.entry_url)}, '/')"] = False  # files with empty names do not exist on a local file system

    def name(self) -> str:
        kind = {(True, True): 'file+dir', (True, False): 'file', (False, True): 'dir', (False, False): 'missing'}[(self.sfile, self.sdir)]
        src = f'{kind}{" with trailing slash" if self.sslash else ""}'
        return (f'treat_dest_as={self.mode}, destination {self.dstate}{" with trailing slash" if self.dslash else ""}, '
                + (f'every one of several sources: {src}' if self.multi else f'source {src}'))

    # ---- the documented table -----------------------------------------------------------------
    def expected(self) -> Tuple[str, Any]:
        c, mk = self.consts, self.engine.mk
        if self.multi and self.mode == c['DEST_IS_TARGET']:
            return ('error', 'NotADirectoryError')  # several sources cannot all become one exact target
        into_dir = self.mode == c['DEST_DIR'] or (self.mode == c['INFER_DEST'] and (self.dslash or self.multi or self.dstate == 'dir'))
        is_file = self.sfile and not self.sslash  # "a/" never names a file
        is_dir = self.sdir
        if is_file and is_dir:
            return ('error', 'FileAndDirectoryError')
        if not is_file and not is_dir:
            return ('error', 'FileNotFoundError')
        inside = mk('url_join', [self.dest, mk('url_basename', [mk('rstrip', [self.S, pa.Const('/')])])])
        if is_file:
            if into_dir:
                target = inside
            elif self.mode == c['DEST_IS_TARGET'] and self.dslash:
                return ('error', 'IsADirectoryError')  # a file onto a path spelled as a directory
            else:
                target = self.dest
            return ('copies', [(('each ' if self.multi else '') + pa.key(self.S), pa.key(target), pa.key(pa.Term('statfile', [self.S])))])
        if into_dir:
            root = inside
        elif self.mode == c['INFER_DEST'] and self.dstate == 'file':
            return ('error', 'NotADirectoryError')  # a directory onto an existing file
        else:
            root = self.dest
        rel = mk('slice_from', [self.entry_url, mk('len', [self.root])])
        return ('copies', [('each ' + pa.key(self.entry_url), pa.key(mk('url_join', [root, rel])), pa.key(pa.Term('m:status', [self.entry])))])

    # ---- the table computed from the code -----------------------------------------------------
    def computed(self) -> Tuple[str, Any]:
        c, eng = self.consts, self.engine
        copies: List[Tuple[str, str, str]] = []
        flags: List[Any] = []

        def raise_(name: str, arg: Any) -> None:
            raise pa.AbsRaise(pa.Exc(name, [arg]))

        def statfile(args: List[Any], kwargs: Dict[str, Any]) -> Any:
            if len(args) != 1 or pa.key(args[0]) != pa.key(self.S):
                raise AnalysisError(f'statfile is asked about `{pa.key(args[0]) if args else "?"}`, which is not a column of the table')
            if not self.sfile:
                raise_('FileNotFoundError', args[0])
            return pa.Term('statfile', [args[0]])

        def listfiles(args: List[Any], kwargs: Dict[str, Any]) -> Any:
            rec = kwargs.get('recursive', args[1] if len(args) > 1 else pa.Const(False))
            if not args or pa.key(args[0]) != pa.key(self.root) or not (isinstance(rec, pa.Const) and rec.value is True):
                raise AnalysisError(f'listfiles is asked about `{pa.key(args[0]) if args else "?"}` (recursive={pa.key(rec)}), which is not a column of the table')
            if not self.sdir:
                raise_('NotADirectoryError' if self.sfile else 'FileNotFoundError', args[0])
            return pa.Term('listing', [args[0]])

        def staturl(args: List[Any], kwargs: Dict[str, Any]) -> Any:
            if len(args) != 1 or pa.key(args[0]) != 'dest':
                raise AnalysisError(f'staturl is asked about `{pa.key(args[0]) if args else "?"}`, which is not a column of the table')
            if self.dstate == 'missing':
                raise_('FileNotFoundError', args[0])
            return pa.Const(c['FILE'] if self.dstate == 'file' else c['DIR'])

        def stub(bound: Dict[str, Any]) -> Any:
            generic = eng.generic_depth > 0
            copies.append((('each ' if generic else '') + pa.key(bound.get('srcfile')), pa.key(bound.get('destfile')), pa.key(bound.get('srcstat'))))
            flags.append(bound.get('return_exceptions'))
            return pa.Const(None)

        eng.oracles = {'statfile': statfile, 'listfiles': listfiles, 'staturl': staturl}
        eng.oracle_receivers = ('router_fs',)
        eng.stubs = {'_copy_file_multi_part': stub}
        try:
            transfer = eng.call(eng.class_ref('Transfer'), [self.src_in, self.dest], {'treat_dest_as': pa.Const(self.mode)}, 'Transfer(...)')
            copier = pa.AObj('Copier')
            copier.fields['router_fs'] = pa.Sym('router_fs')
            copier.fields['xfer_sema'] = pa.Sym('xfer_sema')
            fn = eng.getattr(copier, '_copy_one_transfer')
            eng.await_(eng.call(fn, [pa.Sym('sema'), pa.Sym('transfer_report'), transfer, pa.Const(False)], {}, '_copy_one_transfer(...)'))
        except pa.AbsRaise as r:
            return ('error', r.exc.name)
        if any(not (isinstance(x, pa.Const) and x.value is False) for x in flags):
            return ('swallows', [pa.key(x) for x in flags])
        return ('copies', sorted(copies))


def _fmt(o: Tuple[str, Any]) -> str:
    if o[0] == 'error':
        return f'raises {o[1]}'
    if o[0] == 'swallows':
        return f'passes return_exceptions={o[1]} down (errors would be swallowed)'
    return 'copies ' + ('; '.join(f'{a} -> {b} (size from {s})' for a, b, s in o[1]) if o[1] else 'nothing')


def _dest_table(ctx: Ctx) -> None:
    m, fm = pf.load(F), pf.load(FSF)
    consts = {k: _enum(ctx, m, 'Transfer', k) for k in ('DEST_DIR', 'DEST_IS_TARGET', 'INFER_DEST')}
    consts.update({k: _enum(ctx, fm, 'AsyncFS', k) for k in ('FILE', 'DIR')})
    ctx.need(len(set(consts.values())) == 5, f'Transfer / AsyncFS constants are not distinct: {consts}')
    sig = [a.arg for a in _method(m, '_copy_file_multi_part').args.args][1:]
    ctx.need(all(x in sig for x in ('srcfile', 'srcstat', 'destfile', 'return_exceptions')), f'{SC}._copy_file_multi_part parameters changed: {sig}')
    line = m.func(f'{SC}._full_dest').lineno
    for mk_ in ('DEST_DIR', 'DEST_IS_TARGET', 'INFER_DEST'):
        mode = consts[mk_]
        for multi in (False, True):
            diffs = []
            n = 0
            for dstate in ('missing', 'file', 'dir'):
                for dslash in (False, True):
                    for sslash in (False, True):
                        for sfile in (False, True):
                            for sdir in (False, True):
                                row = _Row(ctx, consts, mode, dstate, dslash, multi, sslash, sfile, sdir)
                                want = row.expected()
                                try:
                                    got = row.computed()
                                except AnalysisError as e:
                                    raise AnalysisError(f'destination table row ({row.name()}): {e}')
                                n += 1
                                if got != want:
                                    diffs.append((row.name(), want, got))
            ctx.unit('decision_table_rows', n)
            cons = f'{F}::destination rules::treat_dest_as={mode}, {"several sources" if multi else "one source"}'
            if not diffs:
                ctx.ok('R4', cons, {'rows': n})
            for name, want, got in diffs[:2]:
                ctx.bad('R4', f'{F}::destination rules::{name}', f'the code {_fmt(got)}; the documented rule is: {_fmt(want)} ({len(diffs)} of {n} rows of this group differ)',
                        m.path, line, extra=[d[0] for d in diffs[:20]])


def _barrier(ctx: Ctx) -> None:
    """Structural obligation behind the barrier split of pathabs.model_asyncio_gather: copy_as_file / copy_as_dir release the barrier exactly once
    on every path before waiting and on every exit; two parties are gathered, the counter starts at 2, release counts down by one and opens at 0."""
    m = pf.load(F)
    for name in ('copy_as_file', 'copy_as_dir'):
        fn = _method(m, name)
        why = pa.barrier_discipline(fn, 'self.release_barrier')
        ctx.check(why is None, 'R4', f'{F}::{SC}.{name}::releases the barrier exactly once on every path', f'{why}: SourceCopier.copy never returns (or the classification of the '
                  'source as file/directory is read before the sibling has written it)', m.path, fn.lineno)
    init = _method(m, '__init__')
    pend = [st.value for st in ast.walk(init) if isinstance(st, (ast.Assign, ast.AnnAssign)) and pf.nsrc(st.targets[0] if isinstance(st, ast.Assign) else st.target) == 'self.pending']
    ctx.need(len(pend) == 1 and isinstance(pend[0], ast.Constant) and isinstance(pend[0].value, int), f'{SC}.__init__: self.pending is not set once to an integer literal')
    cp = _method(m, 'copy')
    gs = [c for c in ast.walk(cp) if isinstance(c, ast.Call) and pf.dotted(c.func) == 'asyncio.gather']
    ctx.need(len(gs) == 1, f'{SC}.copy: {len(gs)} asyncio.gather calls')
    parties = [a for a in gs[0].args if isinstance(a, ast.Call) and pf.dotted(a.func) in ('self.copy_as_file', 'self.copy_as_dir')]
    ctx.need(len(parties) == len(gs[0].args), f'{SC}.copy gathers something else than copy_as_file / copy_as_dir')
    rb = _method(m, 'release_barrier')
    body = [s for s in rb.body if not (isinstance(s, ast.Expr) and isinstance(s.value, ast.Constant))]
    shape = len(body) == 2 and isinstance(body[0], ast.AugAssign) and isinstance(body[0].op, ast.Sub) and pf.nsrc(body[0].target) == 'self.pending' \
        and pf.nsrc(body[0].value) == '1' and isinstance(body[1], ast.If) and pf.nsrc(body[1].test) in ('self.pending == 0', 'self.pending <= 0', 'not self.pending') \
        and len(body[1].body) == 1 and pf.call_name(getattr(body[1].body[0], 'value', None)) == 'self.barrier.set' and not body[1].orelse
    ctx.need(shape, f'{SC}.release_barrier is not `self.pending -= 1; if self.pending == 0: self.barrier.set()`')
    ctx.check(pend[0].value == len(parties), 'R4', f'{F}::{SC}::barrier parties', f'the barrier counts {pend[0].value} parties but {len(parties)} coroutines release it: '
              + ('nobody ever passes the barrier' if pend[0].value > len(parties) else 'the first coroutine passes before the other has classified the source'), m.path, init.lineno)


def _make_transfer(ctx: Ctx) -> None:
    mc, m = pf.load(CP), pf.load(F)
    ctx.unit('files')
    consts = {k: _enum(ctx, m, 'Transfer', k) for k in ('DEST_DIR', 'DEST_IS_TARGET', 'INFER_DEST')}
    fn = mc.func('make_transfer')
    ctx.need(len(fn.args.args) == 1, 'make_transfer parameters changed')
    j = pa.Sym('json_object')
    for jkey, want in (('to', consts['DEST_IS_TARGET']), ('into', consts['DEST_DIR'])):
        cons = f'{CP}::make_transfer::{jkey!r}'
        val = {f"in({k!r}, json_object)": k == jkey for k in ('to', 'into')}
        val[f"isinstance(getitem(json_object, 'from'), list)"] = False
        val[f"endswith(getitem(json_object, {jkey!r}), '/')"] = False
        eng = pa.PathAbs(_classes(), val, exceptions=_exceptions())
        try:
            t = eng.call(pa.Clo(fn, None, None, None, mc), [j], {}, 'make_transfer(...)')
        except pa.AbsRaise as r:
            ctx.bad('R4', cons, f'make_transfer({{"from": .., {jkey!r}: ..}}) raises {r.exc.name}', mc.path, fn.lineno)
            continue
        ctx.need(isinstance(t, pa.AObj) and t.cls == 'Transfer', 'make_transfer does not return a Transfer')
        got = tuple(pa.key(t.fields.get(k)) for k in ('src', 'dest', 'treat_dest_as'))
        exp = ("getitem(json_object, 'from')", f'getitem(json_object, {jkey!r})', repr(want))
        ctx.check(got == exp, 'R4', cons, f'a {{"from": s, {jkey!r}: d}} request becomes Transfer(src={got[0]}, dest={got[1]}, treat_dest_as={got[2]}); '
                  f'documented: {jkey!r} means {"copy to the exact target" if jkey == "to" else "copy into the directory"} ({want!r})', mc.path, fn.lineno)


def _local_classifiers(ctx: Ctx) -> None:
    """statfile raises FileNotFoundError for a directory; staturl answers DIR exactly for directories (what the table's model assumes)."""
    m = pf.load(LF)
    for name in ('statfile', 'staturl'):
        fn = m.func(f'LocalAsyncFS.{name}')
        atoms = [a for a in absdom.collect_test_atoms(fn.body)]
        isdir = [a for a in atoms if isinstance(a, ast.Call) and pf.dotted(a.func) == 'stat.S_ISDIR']
        ctx.need(len(isdir) == len(atoms) <= 1, f'LocalAsyncFS.{name}: expected at most one test, on stat.S_ISDIR (found {[pf.nsrc(a) for a in atoms]})')
        cons = f'{LF}::LocalAsyncFS.{name}::directories'
        outs = {}
        for d in (False, True):
            o = absdom.walk_block(fn.body, lambda a: d)
            if o.kind == 'raise':
                exc = o.node.exc  # type: ignore[union-attr]
                outs[d] = 'raise ' + (pf.dotted(exc.func) if isinstance(exc, ast.Call) else pf.dotted(exc) or '?')
            elif o.kind == 'return':
                outs[d] = 'return ' + pf.nsrc(o.node.value)  # type: ignore[union-attr]
            else:
                outs[d] = o.kind
        if name == 'statfile':
            ok = outs[True] == 'raise FileNotFoundError' and outs[False].startswith('return ')
            msg = f'for a directory statfile does `{outs[True]}` (for a file `{outs[False]}`): a directory source is also classified as a file, every directory copy ends in FileAndDirectoryError'
        else:
            ok = outs[True] == 'return AsyncFS.DIR' and outs[False] == 'return AsyncFS.FILE'
            msg = f'staturl answers `{outs[True]}` for a directory and `{outs[False]}` otherwise: INFER_DEST infers the wrong kind of destination'
        ctx.check(ok, 'R4', cons, msg, m.path, fn.lineno)


# ==================================================================================================
# R5: errors surface
# ==================================================================================================

BROAD = ('Exception', 'BaseException', 'asyncio.TimeoutError', 'TimeoutError', 'asyncio.CancelledError')
PATH_FUNCS = (f'{SC}._copy_file', f'{SC}._copy_part', f'{SC}._copy_file_multi_part_main', f'{SC}._copy_file_multi_part', f'{SC}.copy_as_file',
              f'{SC}.copy_as_dir', f'{SC}.copy', 'Copier.copy', 'Copier.copy_source', 'Copier._copy_one_transfer', 'Copier._copy')


def _handlers(ctx: Ctx, m: pf.Module) -> None:
    n = 0
    for qual in PATH_FUNCS:
        fn = m.func(qual)
        for h in [x for x in ast.walk(fn) if isinstance(x, ast.ExceptHandler)]:
            types = [None] if h.type is None else ([pf.dotted(t) for t in h.type.elts] if isinstance(h.type, ast.Tuple) else [pf.dotted(h.type)])
            if not any(t is None or t in BROAD for t in types):
                continue
            tname = 'bare' if h.type is None else pf.nsrc(h.type)
            cons = f'{F}::{qual}::except {tname}'
            params = {a.arg for a in fn.args.args + fn.args.kwonlyargs}
            encl = m.enclosing_func(h)
            while encl is not None and encl is not fn:
                params |= {a.arg for a in encl.args.args}
                encl = m.enclosing_func(encl)

            def val(atom: ast.AST) -> bool:
                if isinstance(atom, ast.Name) and atom.id == 'return_exceptions' and atom.id in params:
                    return False
                raise AnalysisError(f'{qual}: handler test `{pf.nsrc(atom)}` is not the return_exceptions flag')
            o = absdom.walk_block(h.body, val)
            ok = o.kind == 'raise' and (o.node.exc is None or (isinstance(o.node.exc, ast.Name) and o.node.exc.id == h.name))  # type: ignore[union-attr]
            n += 1
            ctx.check(ok, 'R5', cons, f'with return_exceptions false (the copy tool) the handler ends by `{o.kind}`'
                      + (f' `{pf.nsrc(o.node)}`' if o.node is not None else '') + ' instead of re-raising the caught exception: a failed copy is reported as done',
                      m.path, h.lineno)
    ctx.unit('handlers', n)


def _flag_plumbing(ctx: Ctx, m: pf.Module) -> None:
    """return_exceptions travels unchanged from Copier.copy to _copy_part; the tool leaves it false."""
    chain = [('Copier.copy', '_copy', 'Copier._copy'), ('Copier._copy', '_copy_one_transfer', 'Copier._copy_one_transfer'),
             ('Copier._copy_one_transfer', 'copy_source', 'Copier.copy_source'), ('Copier.copy_source', 'copy', f'{SC}.copy'),
             (f'{SC}.copy', 'copy_as_file', f'{SC}.copy_as_file'), (f'{SC}.copy', 'copy_as_dir', f'{SC}.copy_as_dir'),
             (f'{SC}.copy_as_file', '_copy_file_multi_part', f'{SC}._copy_file_multi_part'), (f'{SC}.copy_as_dir', '_copy_file_multi_part', f'{SC}._copy_file_multi_part'),
             (f'{SC}._copy_file_multi_part', '_copy_file_multi_part_main', f'{SC}._copy_file_multi_part_main')]
    for caller, name, callee in chain:
        fn, cf = m.func(caller), m.func(callee)
        params = [a.arg for a in cf.args.args]
        if params and params[0] in ('self', 'cls'):
            params = params[1:]
        ctx.need('return_exceptions' in params, f'{callee} has no return_exceptions parameter')
        idx = params.index('return_exceptions')
        sites = []
        for c in ast.walk(fn):
            if not isinstance(c, ast.Call):
                continue
            if isinstance(c.func, ast.Attribute) and c.func.attr == name:
                sites.append((c, list(c.args), c.keywords))
            elif pf.dotted(c.func) in ('functools.partial', 'partial') and c.args and isinstance(c.args[0], ast.Attribute) and c.args[0].attr == name:
                sites.append((c, list(c.args[1:]), c.keywords))
        ctx.need(bool(sites), f'{caller} does not call {name}')
        for c, args, kws in sites:
            got = next((k.value for k in kws if k.arg == 'return_exceptions'), None)
            if got is None and idx < len(args) and not any(isinstance(a, ast.Starred) for a in args[: idx + 1]):
                got = args[idx]
            cons = f'{F}::{caller}::{name}(.., return_exceptions)'
            if got is None:
                d = cf.args.defaults
                allp = [a.arg for a in cf.args.args]
                di = allp.index('return_exceptions') - (len(allp) - len(d))
                dv = d[di] if 0 <= di < len(d) else None
                ok = isinstance(dv, ast.Constant) and dv.value is False
                ctx.check(ok, 'R5', cons, f'`{pf.nsrc(c)[:80]}` does not pass return_exceptions and the default is not False', m.path, c.lineno)
            else:
                ok = (isinstance(got, ast.Name) and got.id == 'return_exceptions') or (isinstance(got, ast.Constant) and got.value is False)
                ctx.check(ok, 'R5', cons, f'`{pf.nsrc(got)}` is passed as return_exceptions instead of the caller\'s flag: below this call errors are recorded in a report '
                          'and not raised although the tool asked for exceptions', m.path, c.lineno)
    top = m.func('Copier.copy')
    dflt = {a.arg: d for a, d in zip(top.args.args[len(top.args.args) - len(top.args.defaults):], top.args.defaults)}
    dv = dflt.get('return_exceptions')
    ctx.check(isinstance(dv, ast.Constant) and dv.value is False, 'R5', f'{F}::Copier.copy::return_exceptions default', 'Copier.copy no longer defaults to raising errors', m.path, top.lineno)
    mc = pf.load(CP)
    calls = [c for c in ast.walk(mc.tree) if isinstance(c, ast.Call) and pf.dotted(c.func) == 'Copier.copy']
    ctx.need(len(calls) == 1, f'{CP}: {len(calls)} calls of Copier.copy')
    c = calls[0]
    got = next((k.value for k in c.keywords if k.arg == 'return_exceptions'), c.args[3] if len(c.args) > 3 else None)
    ctx.check(got is None or (isinstance(got, ast.Constant) and got.value is False), 'R5', f'{CP}::copy::Copier.copy(.., return_exceptions)',
              f'the tool calls Copier.copy with return_exceptions=`{pf.nsrc(got) if got is not None else ""}` and never inspects the report for errors: failed copies exit successfully',
              mc.path, c.lineno)


def _awaited(ctx: Ctx, mods: Sequence[pf.Module]) -> None:
    """Every call of a coroutine function of the copy path is awaited, or handed to gather / create_task / run, or returned to an awaiting caller."""
    async_names: Dict[str, int] = {}
    sync_names: Set[str] = set()
    for m in mods:
        for q, fn in m.functions():
            (async_names.__setitem__(fn.name, 1) if isinstance(fn, ast.AsyncFunctionDef) else sync_names.add(fn.name))
    names = {n for n in async_names if n not in sync_names and not n.startswith('__')} | {'bounded_gather2', 'retry_transient_errors'}
    sched = ('asyncio.gather', 'asyncio.create_task', 'asyncio.ensure_future', 'asyncio.run', 'asyncio.wait_for', 'asyncio.shield')
    n = 0
    for m in mods:
        par = m.parents()
        for c in ast.walk(m.tree):
            if not isinstance(c, ast.Call):
                continue
            f = c.func
            nm = f.attr if isinstance(f, ast.Attribute) else (f.id if isinstance(f, ast.Name) else None)
            if nm not in names:
                continue
            p = par.get(c)
            encl = m.enclosing_func(c)
            q = m.qualname(encl) if encl is not None else '<module>'
            ok = isinstance(p, ast.Await)
            if not ok and isinstance(p, ast.Call) and pf.dotted(p.func) in sched and c in p.args:
                ok = True
            if not ok and isinstance(p, ast.Return):
                ok = True  # returned to a caller that awaits it (checked at that call)
            if not ok and not isinstance(p, ast.Expr):
                # bound to a name / collected in a list ...: followed only for the simple `x = f(); await x` shape, otherwise not decided
                tgt = p.targets[0].id if isinstance(p, ast.Assign) and len(p.targets) == 1 and isinstance(p.targets[0], ast.Name) else None
                used = tgt is not None and encl is not None and any(
                    (isinstance(x, ast.Await) and isinstance(x.value, ast.Name) and x.value.id == tgt)
                    or (isinstance(x, ast.Call) and pf.dotted(x.func) in sched and any(isinstance(a, ast.Name) and a.id == tgt for a in x.args))
                    for x in ast.walk(encl))
                if not used:
                    raise AnalysisError(f'{m.rel}::{q}: cannot follow what happens to the coroutine created by `{pf.nsrc(c)[:80]}`')
                ok = True
            n += 1
            ctx.check(ok, 'R5', f'{m.rel}::{q}::{pf.nsrc(f)}(...) is awaited', f'`{pf.nsrc(c)[:100]}` creates a coroutine that is never awaited: that part of the copy silently does not happen',
                      m.path, c.lineno)
    ctx.unit('coroutine_calls', n)


# ==================================================================================================


def run(ctx: Ctx) -> None:
    ctx.explanation = ('Abstract execution of the multi-part copy over polynomial normal forms for 6 size cases x 3 kinds of part, forked / re-divided where a path adjusts the part size or count (identities proved on the normal form, '
                       'refutations by witness), one abstract iteration per order case of each copy loop, predicate abstraction + path enumeration of the 288-row destination-rule table, '
                       'CFG barrier discipline, truth tables of the broad exception handlers, structural checks of the local open modes.')
    ctx.rule('R1', 'parts cover [0,size) without gap and without reading beyond the end, for every case of size = q*part_size + rem and every path that adjusts the part size / count (all part quantities from one division by the part size in force); source offset = destination offset inside a part; part size positive', 8)
    ctx.rule('R2', 'copy loops: continue iff bytes remain, 1 <= request <= remaining, pass on what was read, decrease by what was passed on; EOF loop stops exactly at EOF', 15)
    ctx.rule('R3', 'whole-file / multi-part paths read srcfile and create destfile, every exit has copied or raised a documented error, part numbers within the announced count; local open modes, seeks, truncation, __aexit__', 27)
    ctx.rule('R4', 'destination-rule outcome table (predicate abstraction) equals the documented one on every row; barrier discipline; make_transfer; local statfile/staturl classification', 13)
    ctx.rule('R5', 'broad handlers re-raise when return_exceptions is false; the flag is handed down unchanged and left false by the tool; coroutines are awaited', 50)
    ctx.assume('url_join / url_basename / rstrip / slicing are uninterpreted: R4 compares which term is built, not what string it denotes')
    ctx.assume('outcomes of the file-system queries are table columns: statfile succeeds or raises FileNotFoundError, recursive listfiles succeeds or raises FileNotFoundError/NotADirectoryError, staturl answers file/dir or raises FileNotFoundError; a recursive listing yields no entry whose url ends with /')
    ctx.assume('a blocking read(k>=1) of a regular file returns at least one byte before end of file; write(b) writes all of b')
    ctx.assume('sources are not modified while they are copied')
    ctx.assume('the part arithmetic is analysed for every positive copy_part_size and BUFFER_SIZE (unknowns) and the literal values of the other integer class constants '
               '(a cap such as MAX_PARTS); witnesses are inputs of that parametrised program')
    m = pf.load(F)
    ctx.unit('files')
    deferred: List[str] = []

    def guarded(f: Callable[[], None]) -> None:
        try:
            f()
        except AnalysisError as e:
            deferred.append(str(e))

    # roles of the parameters of _copy_file_multi_part; everything below is reached by following the calls
    top = _method(m, '_copy_file_multi_part')
    tp = [a.arg for a in top.args.args][1:]
    ctx.need(all(x in tp for x in ('srcfile', 'srcstat', 'destfile', 'return_exceptions')), f'{SC}._copy_file_multi_part parameters changed: {tp}')
    env0: Dict[str, Any] = {'self': Op('self')}
    for p in tp:
        env0[p] = ZERO if p == 'return_exceptions' else _role(p)

    def chain() -> None:
        ex = Exec(m, top, env0, {}, f'{SC}._copy_file_multi_part')
        ex.call_model = _copier_model(m)
        ex.run()
        inv = [x for x in ex.events if x.kind == 'invoke' and x.method == '_copy_file_multi_part_main' and not x.alt]
        ctx.need(len(inv) == 1, f'{SC}._copy_file_multi_part calls _copy_file_multi_part_main {len(inv)} times')
        act = inv[0].actuals
        mainp = [a.arg for a in _method(m, '_copy_file_multi_part_main').args.args][1:]
        ctx.need(all(p in act for p in mainp), f'_copy_file_multi_part_main is not given all of {mainp}')
        menv: Dict[str, Any] = {'self': Op('self')}
        menv.update(act)
        _analyse_main(ctx, m, menv)
    guarded(chain)
    guarded(lambda: _analyse_readexactly(ctx))
    guarded(lambda: _local_fs(ctx))
    def table() -> None:
        before = len(ctx.findings)
        _barrier(ctx)
        if len(ctx.findings) > before:
            ctx.info('R4: the outcome table is not computed because the barrier discipline that licenses composing copy_as_file / copy_as_dir in two phases is violated')
            return
        _dest_table(ctx)
    guarded(table)
    guarded(lambda: _make_transfer(ctx))
    guarded(lambda: _local_classifiers(ctx))
    guarded(lambda: _handlers(ctx, m))
    guarded(lambda: _flag_plumbing(ctx, m))
    guarded(lambda: _awaited(ctx, [m, pf.load(CP)]))
    ctx.unit('functions', len(PATH_FUNCS) + 12)
    if deferred:
        raise AnalysisError(' | '.join(deferred))
