"""C23 Ranged reads return exactly the requested bytes.

Decides (from the syntax trees of hailtop/aiotools/fs/{fs,stream}.py, aiotools/{local_fs,router_fs}.py, aiocloud/*/…; nothing is run):
  R1  HTTP back ends (GCS, S3): on every path to the request the Range value is `bytes={start}-` when no length is given and
      `bytes={start}-{E}` with E = start + length - 1 (linear normal form) when one is; the value is what is sent
      (headers={'Range': …} / Range=…).  When the Range is not spelled out at that call - it sits in a dict assembled along the way (`**kwargs`)
      or is built by the callee from (start, length) - `_open_from` and the functions of its module it calls are executed abstractly
      (engines/c23facts part C: string templates, dicts by reference, closures, path conditions; once with and once without a length): every
      request, and every RE-request a re-open callback handed to the stream can issue later (its parameters = bytes already delivered, d),
      must carry `bytes={start+d}-` / `bytes={start+d}-{start+length-1}` - the END stays anchored at the start of the range - or, only
      without a length and on a path that implies offset 0, no Range at all
  R2  SDK / stream back ends pass (start, length) through unchanged: Azure hands offset=start, length=length to its stream and every
      download_blob call of that stream passes offset=self._offset and length=self._length; local seeks to `start` from the beginning
      and wraps the file in TruncatedReadableBinaryIO(limit=length); EVERY method of that wrapper that takes bytes out of the wrapped file
      (read, and any readinto / read1 / readline / ... added beside it - the blocking adapter picks reader methods by name) asks for at most
      limit - offset bytes (what is LEFT of the range; byte counts and destination-buffer clips in linear normal form) on every path and
      advances offset by what it obtained; the router delegates open_from(url, start, length=length)
  R3  front end: read_range computes n = end - start + [end_inclusive] and uses open_from(url, start, length=n) + readexactly(n);
      read_from uses open_from(url, start) + read(); open_from never reaches _open_from with length == 0 and otherwise forwards
      (url, start, length=length) unchanged and hands the back end's stream to the caller (a wrapper around it is decided by R6 for read-all and
      otherwise declined); every readexactly implementation of a ReadableStream class under hailtop (closure) signals UnexpectedEOFError on a
      short read; the blocking readexactly is a set of loops, each in the normal form "continue while O > 0, ask for at most O, count what came,
      raise when nothing came" (O = the outstanding bytes: a count-down variable or n - a count-up variable; read(k) and readinto(view[a:b])
      requests), and every value it returns lies behind exactly one such loop
  R0  closure: the set of concrete `_open_from` implementations under hailtop is exactly the analysed one, and every override names
      its positional parameters in the order of the abstract declaration (callers pass url, start positionally, length by keyword)
  R4  buffer accounting inside every buffered stream reader under hailtop (engines/c23facts part A): the representation of "unconsumed
      bytes" is derived from the consumption statements of the class (bytes dropped from the buffer: len(buffer); a position advanced:
      len(buffer) - pos) and every use - the counts compared with a requested size in refill tests and caps, the slices handed out, the
      amount consumed, buffer replacement paired with position reset - is compared with that ONE representation in linear normal form;
      a use written in the other representation makes a read that straddles a chunk boundary come back short (taken for EOF)
  R5  delivery (engines/c23facts part B): the Range built by `_open_from` (GCS: headers={'Range': ...}; S3: Range=...) and the GCS
      `alt=media` parameter reach the request primitive: an abstract execution over alias groups follows the keyword dict through every
      function that may be called (class hierarchy, attribute types from __init__, retry / executor combinators, closures) and reports
      any statement that replaces the carrying mapping (`kwargs['headers'] = {...}`), overwrites / removes the entry, or stops
      passing it on, on a path the presence facts do not exclude
  R6  read-all contract: for every ReadableStream implementation under hailtop the paths of `read` are enumerated for the abstract case
      "n is the sentinel -1" (tests on n decided from that, everything else both ways): what is returned must be a constant, a read-all
      primitive (x.read() / x.read(-1) / x.read(n) with n untouched / x.readall() / a blocking f.read without count), buffered data + such a
      primitive, or the join of a loop that reads until nothing is left - never the result of ONE bounded `await x.read(k)`, which by the
      ReadableStream contract returns AT MOST k bytes (read_from and open_from(..., length=L) + read() rely on read-all)
Does not decide: bounded-read accounting of a stream wrapper placed around every back end (declined); server / SDK behaviour for a well-formed request; seeking inside a truncated stream; transport-level content decoding.
"""
from __future__ import annotations

import ast
from typing import Dict, List, Optional, Sequence, Tuple

from engines import c23facts, c23norm, inline, linform, pyfacts as pf, strparts
from engines.common import AnalysisError, Ctx

META = dict(
    category='other',
    text='Sibling agreement across every concrete _open_from: the HTTP Range templates are normalised (string parts + linear normal form of the end offset) on '
         'every CFG path to the request, SDK back ends are checked for passing (offset, length) unchanged at every download call, and the local truncation '
         'arithmetic and the front-end span arithmetic are compared in linear normal form; the Range carrier is followed (abstract execution over alias groups) from '
         '_open_from to the request primitive; buffered readers are checked for one consistent representation of their unconsumed bytes; every reader method of the '
         'local truncating wrapper is capped by the bytes left; blocking exact-read loops are compared with an outstanding-bytes normal form; read(-1) of every stream class is '
         'path-enumerated for the sentinel case. Necessary conditions only.',
    note='Trusted: CPython ast; engines/pyfacts CFG; engines/linform; engines/c23facts (buffer accounting, delivery); HTTP Range semantics (inclusive end); azure '
         'download_blob(offset, length); file.seek/read; may-call resolution by class hierarchy and __init__ attribute types inside hailtop.aiocloud / aiotools / utils / httpx; '
         'mappings of unknown content merged into headers / params carry no Range / alt entry.',
    technique='static analysis: sibling agreement, string-template normalisation, linear normal forms, CFG path enumeration (incl. the abstract case n = read-all sentinel), representation-invariant '
              'consistency of buffer accounting, abstract execution over alias groups along the may-call chain (def-use of the Range carrier)',
    design_ref='DESIGN.md §3 C23',
)

FS = 'hail/python/hailtop/aiotools/fs/fs.py'
ST = 'hail/python/hailtop/aiotools/fs/stream.py'
LOC = 'hail/python/hailtop/aiotools/local_fs.py'
RT = 'hail/python/hailtop/aiotools/router_fs.py'
GCS = 'hail/python/hailtop/aiocloud/aiogoogle/client/storage_client.py'
S3 = 'hail/python/hailtop/aiocloud/aioaws/fs.py'
AZ = 'hail/python/hailtop/aiocloud/aioazure/fs.py'

IMPLS = {  # file -> class
    LOC: 'LocalAsyncFS', RT: 'RouterAsyncFS', GCS: 'GoogleStorageAsyncFS', S3: 'S3AsyncFS', AZ: 'AzureAsyncFS',
}
SCAN_DIRS = ['hail/python/hailtop/aiotools', 'hail/python/hailtop/aiocloud', 'hail/python/hailtop/fs']


def _load(rel: str) -> pf.Module:
    """The module with `X = X + E` spelled `X += E` (engines/c23norm): one spelling of a counter update for every rule below."""
    return c23norm.normalised_module(rel)


def _stmts(fn: ast.AST) -> List[ast.stmt]:
    return [n for n in pf.walk_shallow(fn) if isinstance(n, ast.stmt) and n is not fn]


def _sig(ctx: Ctx, fn: pf.FuncDef, where: str) -> Tuple[str, str, str]:
    a = [x.arg for x in fn.args.args]
    kw = [x.arg for x in fn.args.kwonlyargs]
    ctx.need(len(a) == 3 and kw == ['length'] or (len(a) == 4 and a[3] == 'length'), f'{where}: signature changed: {a} / {kw}')
    return a[1], a[2], 'length'


def _given_label(t: ast.AST, length: str) -> Optional[str]:
    """Label of the edge on which `length` is known to be given (not None)."""
    if isinstance(t, ast.Compare) and len(t.ops) == 1 and isinstance(t.left, ast.Name) and t.left.id == length \
            and isinstance(t.comparators[0], ast.Constant) and t.comparators[0].value is None:
        if isinstance(t.ops[0], (ast.IsNot, ast.NotEq)):
            return 'T'
        if isinstance(t.ops[0], (ast.Is, ast.Eq)):
            return 'F'
    if isinstance(t, ast.Name) and t.id == length:
        return 'T'
    if isinstance(t, ast.UnaryOp) and isinstance(t.op, ast.Not) and isinstance(t.operand, ast.Name) and t.operand.id == length:
        return 'F'
    return None


# ------------------------------------------------------------------------------------------------
# R0 closure
# ------------------------------------------------------------------------------------------------

def _closure(ctx: Ctx) -> None:
    found: Dict[str, List[str]] = {}
    n_files = 0
    for rel in pf.walk_py(SCAN_DIRS):
        n_files += 1
        m = pf.load(rel)
        for cls in m.classes():
            for st in cls.body:
                if isinstance(st, (ast.FunctionDef, ast.AsyncFunctionDef)) and st.name == '_open_from':
                    body = [s for s in st.body if not (isinstance(s, ast.Expr) and isinstance(s.value, ast.Constant))]
                    if all(isinstance(s, (ast.Pass, ast.Raise)) for s in body):
                        continue  # abstract declaration
                    found.setdefault(rel, []).append(cls.name)
    ctx.unit('files_scanned', n_files)
    want = {k: [v] for k, v in IMPLS.items()}
    extra = {k: v for k, v in found.items() if want.get(k) != v}
    missing = [k for k in want if k not in found]
    ctx.need(not extra and not missing, f'the set of concrete _open_from implementations changed: unexpected {extra}, missing {missing} (analyse the new back end before claiming C23)')
    ctx.ok('R0', 'hailtop::concrete _open_from implementations', {'implementations': found})
    # callers pass (url, start) positionally and length by keyword: every override must name its parameters in the declared order
    decl = pf.load(FS).func('AsyncFS._open_from')
    dnames = [a.arg for a in decl.args.args][1:]
    ctx.need(len(dnames) == 2 and [a.arg for a in decl.args.kwonlyargs] == ['length'], f'{FS}::AsyncFS._open_from: declaration changed')
    for rel, cls in IMPLS.items():
        m = pf.load(rel)
        fn = m.func(f'{cls}._open_from')
        names = [a.arg for a in fn.args.args][1:]
        cons = f'{rel}::{cls}._open_from::parameter order'
        if sorted(names[:2]) == sorted(dnames) and names[:2] != dnames:
            ctx.bad('R0', cons, f'the override takes ({", ".join(names)}) but AsyncFS.open_from / the router call `_open_from(url, start, length=...)` positionally: '
                    f'`{dnames[0]}` receives the offset and `{dnames[1]}` the URL', m.path, fn.lineno)
        else:
            ctx.ok('R0', cons, names)


# ------------------------------------------------------------------------------------------------
# R1 HTTP Range back ends
# ------------------------------------------------------------------------------------------------

def _range_backend(ctx: Ctx, rel: str, cls: str, request_pred, carrier) -> Optional[ast.Call]:
    """Returns the request call when it carries a Range (for the delivery rule R5)."""
    m = pf.load(rel)
    fn = m.func(f'{cls}._open_from')
    where = f'{rel}::{cls}._open_from'
    url, start, length = _sig(ctx, fn, where)
    g = pf.cfg(fn)
    reqs = [c for c in pf.calls_in(fn) if request_pred(c)]
    ctx.need(len(reqs) == 1, f'{where}: expected one storage request, found {len(reqs)}')
    req = reqs[0]
    rn = g.node_of(req)
    ctx.need(len(rn) == 1, f'{where}: request node')
    REQ = rn[0]
    val = carrier(req)
    cons = f'{where}::Range'
    if val is None:
        # the Range is not spelled out at this call: it may sit in a dict built along the way (`**kwargs`), or be built by the callee
        # from (start, length).  Decide from an abstract execution of _open_from and the functions of this module it calls.
        _range_events(ctx, rel, cls, fn, where, start, length, request_pred, req)
        return None
    ctx.ok('R1', cons + '::sent', pf.nsrc(val))

    # enumerate the paths entry -> request, evaluating the Range variable symbolically
    tests = {n.id: _given_label(n.ast, length) for n in g.nodes if n.kind == 'test' and n.ast is not None and length in pf.names_in(n.ast)}
    for nid, lab in tests.items():
        ctx.need(lab is not None, f'{where}: test on `{length}` not recognised: `{g.nodes[nid].text()}`')
    results: List[Tuple[Optional[bool], List[strparts.Part], str]] = []
    Env = Dict[str, List[strparts.Part]]
    fparams = {a.arg for a in fn.args.posonlyargs + fn.args.args + fn.args.kwonlyargs}

    def stringy(e: ast.AST, env: Env) -> bool:
        """Does the expression build a string (so that `+` concatenates)?  An integer expression (`start + (length - 1)`) does not."""
        if isinstance(e, ast.Constant):
            return isinstance(e.value, str)
        if isinstance(e, ast.JoinedStr):
            return True
        if isinstance(e, ast.Call):
            return pf.dotted(e.func) == 'str' or (isinstance(e.func, ast.Attribute) and e.func.attr in ('format', 'join') and isinstance(e.func.value, ast.Constant))
        if isinstance(e, ast.Name):
            v = env.get(e.id)
            return v is not None and not (len(v) == 1 and v[0][0] == 'expr')
        if isinstance(e, ast.BinOp) and isinstance(e.op, ast.Add):
            return stringy(e.left, env) or stringy(e.right, env)
        if isinstance(e, ast.BinOp) and isinstance(e.op, ast.Mod):
            return isinstance(e.left, ast.Constant) and isinstance(e.left.value, str)
        return False

    def ev(e: ast.AST, env: Env) -> List[strparts.Part]:
        out: List[strparts.Part] = []
        if not stringy(e, env):
            return [('expr', _subst_ints(pf.nsrc(e), env))]
        for kind, txt in strparts.parts(c23norm.strnorm(e)):
            if kind == 'expr' and txt in env:
                out += env[txt]
            elif kind == 'expr' and txt.isidentifier() and txt not in fparams and txt not in pf.assignments(fn) and _module_str(m, txt) is not None:
                out.append(('lit', _module_str(m, txt)))  # a module-level string constant (`_RANGE_UNIT = 'bytes'`)
            elif kind == 'expr':
                t2 = _subst_ints(txt, env)
                if t2 != txt and any(w in t2 for w in ('.join(', '.format(', ' % ')):
                    # a string-building call over a local that has just been substituted (`''.join(pieces)`)
                    try:
                        sub = strparts.parts(c23norm.strnorm(strparts.expr_of(t2)))
                    except (AnalysisError, SyntaxError):
                        sub = [('expr', t2)]
                    out += sub
                else:
                    out.append(('expr', t2))
            else:
                out.append((kind, txt))
        # merge literals (an empty literal marks "this is a string", so that `str(a) + str(b)` is not read as an integer sum later)
        merged: List[strparts.Part] = []
        for p in out:
            if p[0] == 'lit' and merged and merged[-1][0] == 'lit':
                merged[-1] = ('lit', merged[-1][1] + p[1])
            elif not (p[0] == 'lit' and p[1] == '' and merged):
                merged.append(p)
        if len(merged) == 1 and merged[0][0] == 'expr':
            merged.insert(0, ('lit', ''))
        return merged

    def walk(n: pf.Node, env: Env, given: Optional[bool], seen: Tuple[int, ...], depth: int) -> None:
        ctx.need(depth < 200 and len(results) < 64, f'{where}: too many paths')
        via = ' / '.join(g.nodes[i].text() for i in seen if g.nodes[i].kind == 'test')
        if n is REQ:
            vv = pf.resolve_expr(fn, val) if isinstance(val, ast.Name) and val.id not in env else val
            lab0 = _given_label(vv.test, length) if isinstance(vv, ast.IfExp) else None
            if lab0 is not None:
                # `Range=A if length is None else B`: one case per branch
                for bv, is_given in ((vv.body, lab0 == 'T'), (vv.orelse, lab0 != 'T')):
                    if given is None or given == is_given:
                        results.append((is_given, ev(bv, env), via))
                return
            results.append((given, ev(val, env), via))
            return
        a = n.ast
        env2 = env
        if n.kind == 'stmt' and isinstance(a, (ast.Assign, ast.AnnAssign)) and isinstance(getattr(a, 'value', None), ast.IfExp) and _given_label(a.value.test, length) is not None \
                and all(isinstance(t, ast.Name) for t in (a.targets if isinstance(a, ast.Assign) else [a.target])):
            # `x = A if length is None else B` is the if-statement with two assignments: one path per branch
            tg = [t.id for t in (a.targets if isinstance(a, ast.Assign) else [a.target])]  # type: ignore[union-attr]
            lab1 = _given_label(a.value.test, length)
            for bv, is_given in ((a.value.body, lab1 == 'T'), (a.value.orelse, lab1 != 'T')):
                if given is not None and given != is_given:
                    continue
                try:
                    v1 = ev(bv, env)
                except AnalysisError:
                    v1 = [('expr', f'<{tg[0]}: not followed>')]
                for nxt, lab in n.succ:
                    if lab == 'exc' or nxt is g.raise_exit or nxt.id in seen:
                        continue
                    walk(nxt, {**env, **{t: v1 for t in tg}}, is_given, seen + (n.id,), depth + 1)
            return
        if n.kind == 'stmt' and isinstance(a, (ast.Assign, ast.AnnAssign)) and getattr(a, 'value', None) is not None \
                and all(isinstance(t, ast.Name) for t in (a.targets if isinstance(a, ast.Assign) else [a.target])):
            tg = [t.id for t in (a.targets if isinstance(a, ast.Assign) else [a.target])]  # type: ignore[union-attr]
            try:
                v = ev(a.value, env)
                env2 = {**env, **{t: v for t in tg}}
            except AnalysisError:
                env2 = {**env, **{t: [('expr', f'<{t}: not followed>')] for t in tg}}
        elif n.kind == 'stmt' and isinstance(a, ast.AugAssign) and isinstance(a.target, ast.Name) and isinstance(a.op, ast.Add) and a.target.id in env:
            env2 = {**env, a.target.id: ev(ast.BinOp(left=ast.Name(a.target.id, ast.Load()), op=ast.Add(), right=a.value), env)}
        elif a is not None and n.kind in ('stmt', 'loop', 'with'):
            # any other binding (tuple targets, loop targets, with-as, other augmented assignments): the name is no longer known
            hdr: List[ast.AST] = []
            if isinstance(a, (ast.For, ast.AsyncFor, ast.AugAssign)):
                hdr = [a.target]
            elif isinstance(a, (ast.With, ast.AsyncWith)):
                hdr = [it.optional_vars for it in a.items if it.optional_vars is not None]
            elif isinstance(a, ast.Assign):
                hdr = list(a.targets)
            killed = {x.id for h in hdr for x in ast.walk(h) if isinstance(x, ast.Name) and isinstance(x.ctx, ast.Store)}
            if killed:
                env2 = {**env, **{k: [('expr', f'<{k}: not followed>')] for k in killed}}
        for nxt, lab in n.succ:
            if lab == 'exc' or nxt is g.raise_exit or nxt.id in seen:
                continue
            g2 = given
            if n.id in tests and lab in ('T', 'F'):
                v = (lab == tests[n.id])
                if given is not None and given != v:
                    continue
                g2 = v
            walk(nxt, env2, g2, seen + (n.id,), depth + 1)

    walk(g.entry, {}, None, (), 0)
    ctx.need(results, f'{where}: no path to the request')
    ctx.unit('range_paths', len(results))
    open_ok, closed_ok = [], []
    problems: List[str] = []
    for given, ps, via in results:
        for case in ([given] if given is not None else [False, True]):
            # a FAIL needs a Range value the analysis resolved completely (literal text and integer expressions over the parameters)
            why = _range_template_problem(ps, start, length, case, [], f'{where} (path: {via or "straight"})')
            if why is None:
                (closed_ok if case else open_ok).append(via)
            else:
                problems.append(f'{why} (path: {via or "straight"})')
    if problems:
        ctx.bad('R1', cons + '::value', problems[0] + (f' (+{len(problems) - 1} more)' if len(problems) > 1 else ''), m.path, req.lineno, extra=problems[:6])
    else:
        ctx.need(open_ok and closed_ok, f'{where}: open/closed range cases not both observed')
        ctx.ok('R1', cons + '::value', {'paths': len(results)})
    return req


def _module_str(m: pf.Module, name: str) -> Optional[str]:
    """The value of a module-level name bound exactly once, to a string literal."""
    vals = [st.value for st in m.tree.body if (isinstance(st, ast.Assign) and any(isinstance(t, ast.Name) and t.id == name for t in st.targets))
            or (isinstance(st, ast.AnnAssign) and isinstance(st.target, ast.Name) and st.target.id == name and st.value is not None)]
    stores = [x for x in ast.walk(m.tree) if isinstance(x, ast.Name) and x.id == name and isinstance(x.ctx, (ast.Store, ast.Del))]
    if len(vals) == 1 and len(stores) == 1 and isinstance(vals[0], ast.Constant) and isinstance(vals[0].value, str):
        return vals[0].value
    return None


def _subst_ints(txt: str, env: Dict[str, List[strparts.Part]]) -> str:
    """Source text of an integer expression with the locals that hold ONE expression replaced by it (`last = start + length - 1`)."""
    try:
        e = strparts.expr_of(txt)
    except SyntaxError:
        return txt

    class S(ast.NodeTransformer):
        def visit_Name(self, node: ast.Name):
            v = env.get(node.id)
            if v is not None and len(v) == 1 and v[0][0] == 'expr':
                try:
                    return strparts.expr_of(v[0][1])
                except SyntaxError:
                    return ast.Name(id=f'{node.id}?', ctx=ast.Load())
            if v is not None:
                return ast.Name(id=f'{node.id}?', ctx=ast.Load())  # a string local inside an arithmetic expression: not resolved
            return node

        def visit_Lambda(self, node):
            return node
    return pf.nsrc(S().visit(e))


def _range_template_problem(ps: List[strparts.Part], start: str, length: str, given: bool, deferred: List[str], where: str) -> Optional[str]:
    """None when the template is `bytes={start + d}-` (no length) / `bytes={start + d}-{start + length - 1}` (length given), d = the sum of the
    re-request parameters; a description of what is requested instead when it is a DIFFERENT, fully resolved template; AnalysisError when a part
    of it could not be resolved to literal text and integer expressions over the parameters (then nothing is known about what is sent)."""
    allowed = {start, length, *deferred}
    rp: List[Tuple[str, object]] = []
    ps = [p_ for p_ in ps if p_ != ('lit', '')]
    for kind, txt in ps:
        if kind == 'lit':
            rp.append(('lit', txt))
            continue
        try:
            l = linform.lin(strparts.expr_of(txt))
        except (AnalysisError, SyntaxError) as e:
            raise AnalysisError(f'{where}: the part `{txt}` of the Range value is not an integer expression the analysis resolved ({e})')
        unresolved = [x for x in l.symbols() if x not in allowed]
        if unresolved:
            raise AnalysisError(f'{where}: the part `{txt}` of the Range value depends on {unresolved}, not only on ({start}, {length})')
        rp.append(('lin', l))
    lo = linform.sym(start)
    for dname in deferred:
        lo = lo + linform.sym(dname)
    hi = linform.sym(start) + linform.sym(length) - linform.const(1)
    want: List[Tuple[str, object]] = [('lit', 'bytes='), ('lin', lo), ('lit', '-')] + ([('lin', hi)] if given else [])
    if rp == want:
        return None
    shown = ''.join(t if k == 'lit' else '{' + t + '}' for k, t in ps)
    if len(rp) < 3 or rp[0] != ('lit', 'bytes=') or rp[1][0] != 'lin' or rp[2] != ('lit', '-'):
        return f'the Range value is `{shown}`; it must begin with bytes={{{start}}}-'
    if rp[1][1] != lo:
        return (f'the first byte requested is `{ps[1][1]}` = {start}{" + " + " + ".join(deferred) if deferred else ""} + ({(rp[1][1] - lo)!r})')  # type: ignore[operator]
    tail = rp[3:]
    if not given:
        return f'without a length the Range value is `{shown}`; expected the open range bytes={{{start}}}-'
    if not tail:
        return f'with a length the Range value is `{shown}`: the range is open-ended, so everything up to the end of the object is returned'
    if len(tail) != 1 or tail[0][0] != 'lin':
        return f'with a length the Range value is `{shown}`: the end offset is not a single expression'
    d = tail[0][1] - hi  # type: ignore[operator]
    moved = bool(deferred) and set(d.symbols()) <= set(deferred)
    if moved:
        return (f'the last byte requested is `{ps[3][1]}` = {start} + {length} - 1 + ({d!r}): the END of the range moves with the re-request offset - after {deferred[0]} bytes have been '
                f'delivered the stream goes on for {deferred[0]} bytes beyond the range (e.g. {start}=0, {length}=4, body cut after 2 bytes: the re-request asks for bytes=2-5 and the caller '
                f'receives 6 bytes)')
    return (f'with a length the last byte requested is `{ps[3][1]}` = {start} + {length} - 1 + ({d!r}): HTTP ranges are inclusive on both ends, so '
            f'{"one byte too many is" if d == linform.const(1) else "the wrong span is"} returned'
            + (f' (e.g. {start}=0, {length}=1 asks for bytes=0-{d.const})' if d.is_const() else ''))


def _range_events(ctx: Ctx, rel: str, cls: str, fn: pf.FuncDef, where: str, start: str, length: str, request_pred, req: ast.Call) -> None:
    """R1 for a back end whose Range is assembled out of sight of the request call in `_open_from` (engines/c23facts part C): every
    request the back end can issue - immediately, or later through a re-open callback it hands to its stream - is an event with the
    Range template it carries (or none) and the path condition.  Required of every event:
        no length  ->  `bytes={start + d}-`           (or no Range at all when the path condition says the offset is 0)
        length     ->  `bytes={start + d}-{start + length - 1}`
    with d = 0 for the first request and d = the callback's own parameter(s) (bytes already delivered) for a re-request: the END of the
    range is anchored at the start of the range, it does not move with the offset of a re-request."""
    m = pf.load(rel)
    cons = f'{where}::Range'
    try:
        uni = c23facts.Universe()
        ex = c23facts.RangeExec(uni, rel, m.cls(cls), fn, start, length, request_pred)
        events = ex.run()
    except c23facts.Decline as e:
        raise AnalysisError(f'{where}: {e}')
    ctx.need(events, f'{where}: `{pf.nsrc(req)}` carries no Range and no request that could carry one was found')
    ctx.unit('range_events', len(events))
    ctx.unit('range_paths', ex.n_paths)
    sent_bad: List[Tuple[str, int, str]] = []
    val_bad: List[Tuple[str, int, str]] = []
    seen_first = {True: False, False: False}
    for ev in events:
        via = ' and '.join((t if pos else f'not ({t})') for t, pos in ev.cond) or 'every path'
        kind = f're-request through a callback (parameters {", ".join(ev.deferred)})' if ev.deferred else 'request'
        what = f'{kind} `{pf.nsrc(ev.call)[:90]}` in {ev.where.split("::")[-1]} [{"length given" if ev.given else "no length"}; {via}]'
        if not ev.deferred:
            seen_first[ev.given] = True
        dsum = linform.const(0)
        for dname in ev.deferred:
            dsum = dsum + linform.sym(dname)
        if ev.value is None:
            # no Range: the whole object.  Equivalent to the open range only without a length and with the offset known to be 0.
            zero = False
            for t, pos in ev.cond:
                try:
                    te = ast.parse(t, mode='eval').body
                    if isinstance(te, ast.Compare) and len(te.ops) == 1:
                        l0 = linform.lin(te.left) - linform.lin(te.comparators[0])
                        off = linform.sym(start) + dsum
                        if (isinstance(te.ops[0], ast.Gt) and not pos and l0 == off) or (isinstance(te.ops[0], ast.Eq) and pos and l0 == off) \
                                or (isinstance(te.ops[0], ast.NotEq) and not pos and l0 == off) or (isinstance(te.ops[0], ast.LtE) and pos and l0 == off):
                            zero = True
                    elif pos is False and pf.nsrc(te) == start and not ev.deferred:
                        zero = True
                except (SyntaxError, AnalysisError):
                    continue
            if ev.given:
                sent_bad.append((f'{what}: no Range is sent although a length was given: everything from the first byte to the END OF THE OBJECT is returned'
                                 + (f' (e.g. {start}=0, {length}=1 on a 100-byte object yields 100 bytes)' if zero else ''), ev.call.lineno, ev.file))
            elif not zero:
                sent_bad.append((f'{what}: no Range is sent on a path that does not imply {start} == 0: the bytes before `{start}` are returned too', ev.call.lineno, ev.file))
            continue
        ctx.need(isinstance(ev.value, c23facts.RxS), f'{where}: the Range of {what} is not a string template the analysis could follow')
        ps = ev.value.parts  # type: ignore[union-attr]
        # a FAIL needs a template the analysis resolved completely; anything else raises (declined)
        why = _range_template_problem(ps, start, length, ev.given, list(ev.deferred), f'{where}: {what}')
        if why is not None:
            val_bad.append((f'{what}: {why}', ev.call.lineno, ev.file))
    ctx.need(seen_first[True] and seen_first[False] or sent_bad or val_bad, f'{where}: not every case (with / without length) reaches a request')
    if sent_bad:
        ctx.bad('R1', cons + '::sent', sent_bad[0][0] + (f' (+{len(sent_bad) - 1} more)' if len(sent_bad) > 1 else ''), sent_bad[0][2], sent_bad[0][1], extra=[x[0] for x in sent_bad[:6]])
    else:
        ctx.ok('R1', cons + '::sent', {'events': len(events)})
    if val_bad:
        ctx.bad('R1', cons + '::value', val_bad[0][0] + (f' (+{len(val_bad) - 1} more)' if len(val_bad) > 1 else ''), val_bad[0][2], val_bad[0][1], extra=[x[0] for x in val_bad[:6]])
    else:
        ctx.ok('R1', cons + '::value', {'events': len(events), 're-requests': sum(1 for e in events if e.deferred)})


def _gcs_pred(c: ast.Call) -> bool:
    return isinstance(c.func, ast.Attribute) and c.func.attr == 'get_object'


def _gcs_carrier(c: ast.Call) -> Optional[ast.AST]:
    for k in c.keywords:
        if k.arg == 'headers' and isinstance(k.value, ast.Dict):
            for kk, vv in zip(k.value.keys, k.value.values):
                if kk is not None and pf.const_str(kk) == 'Range':
                    return vv
    return None


def _s3_pred(c: ast.Call) -> bool:
    return any(isinstance(a, ast.Attribute) and a.attr == 'get_object' for a in c.args) or (isinstance(c.func, ast.Attribute) and c.func.attr == 'get_object')


def _s3_carrier(c: ast.Call) -> Optional[ast.AST]:
    for k in c.keywords:
        if k.arg == 'Range':
            return k.value
    return None


# ------------------------------------------------------------------------------------------------
# R2 SDK / stream back ends
# ------------------------------------------------------------------------------------------------

def _unchanged(fn: pf.FuncDef, e: Optional[ast.AST], param: str) -> Optional[bool]:
    """Is the argument `e` the parameter `param` of fn, unchanged?  True / False (a DIFFERENT value the analysis resolved completely: an
    expression over the parameters and constants only) / None (not resolved: a call result, an attribute, a rebound name ...)."""
    if e is None:
        return None
    params = {a.arg for a in fn.args.posonlyargs + fn.args.args + fn.args.kwonlyargs}
    x = pf.expand_locals(fn, e)
    names = pf.names_in(x)
    # a parameter that is assigned to inside the function no longer stands for the caller's value
    if any(nm in params and len(pf.assignments(fn).get(nm, [])) != 1 for nm in names):
        return None
    if isinstance(x, ast.Name) and x.id == param:
        return True
    if names <= params and not any(isinstance(y, (ast.Call, ast.Await, ast.Attribute, ast.Subscript, ast.Lambda, ast.IfExp, ast.BoolOp, ast.NamedExpr, ast.Starred)) for y in ast.walk(x)):
        return False
    return None


def _bind_args(c: ast.Call, params: List[str]) -> Optional[Dict[str, ast.AST]]:
    """Arguments of the call by parameter name (positional ones through `params`); None with star arguments."""
    if any(isinstance(a, ast.Starred) for a in c.args) or any(k.arg is None for k in c.keywords) or len(c.args) > len(params):
        return None
    out: Dict[str, ast.AST] = {params[i]: a for i, a in enumerate(c.args)}
    for k in c.keywords:
        out[k.arg] = k.value  # type: ignore[index]
    return out


def _forwarding(ctx: Ctx, fn: pf.FuncDef, c: ast.Call, callee_params: List[str], want: Dict[str, str], optional: Dict[str, str], rule: str, cons: str, where: str,
                path: str) -> None:
    """`c` must hand the parameters of fn on unchanged: want = {callee parameter: our parameter}.  FAIL only for an argument that is a
    different, completely resolved value, or for an optional argument (optional = {callee parameter: what its default means}) that is left
    out; an argument the analysis cannot resolve is declined."""
    bound = _bind_args(c, callee_params)
    ctx.need(bound is not None, f'{where}: `{pf.nsrc(c)}` uses star arguments; not recognised')
    bad: List[str] = []
    unknown: List[str] = []
    for cp, ours in want.items():
        if cp not in bound:  # type: ignore[operator]
            if cp in optional:
                bad.append(f'`{cp}` is not passed ({optional[cp]})')
            else:
                unknown.append(f'`{cp}` is not passed')
            continue
        v = _unchanged(fn, bound[cp], ours)  # type: ignore[index]
        if v is False:
            bad.append(f'{cp}={pf.nsrc(pf.expand_locals(fn, bound[cp]))} instead of {cp}={ours}')  # type: ignore[index]
        elif v is None:
            unknown.append(f'{cp}={pf.nsrc(bound[cp])} is not resolved to a parameter')  # type: ignore[index]
    if bad:
        ctx.bad(rule, cons, f'`{pf.nsrc(c)}` does not forward ({", ".join(want.values())}) unchanged: ' + '; '.join(bad), path, c.lineno)
    else:
        ctx.need(not unknown, f'{where}: `{pf.nsrc(c)}`: ' + '; '.join(unknown))
        ctx.ok(rule, cons, pf.nsrc(c))


def _read_modes(f: pf.FuncDef, call: ast.Call) -> str:
    """Which kind of read reaches `call` inside a `read(self, n=-1)` method: 'read()' (only when n is the read-all sentinel), 'read(k)' (only
    with a count), 'read' (both); '' for other methods.  Tests on n are decided per case, everything else both ways."""
    ps = [a.arg for a in f.args.args]
    if f.name != 'read' or len(ps) != 2:
        return ''
    n = ps[1]
    g = pf.cfg(f)
    cn = g.node_of(call)
    if len(cn) != 1:
        return 'read'
    modes = []
    for case in ('sentinel', 'count'):
        def edge_ok(a: pf.Node, b: pf.Node, lab: str, case=case) -> bool:
            if a.kind != 'test' or a.ast is None or lab not in ('T', 'F') or n not in pf.names_in(a.ast):
                return True
            tv = _sentinel_truth(a.ast, n)
            if tv is None:
                return True
            if case == 'count':
                # decided only for tests that separate -1 from every count k >= 0
                t = a.ast
                while isinstance(t, ast.UnaryOp) and isinstance(t.op, ast.Not):
                    t = t.operand
                sep = isinstance(t, ast.Compare) and len(t.ops) == 1 and (
                    (isinstance(t.ops[0], (ast.Eq, ast.NotEq)) and '-1' in (pf.nsrc(t.left), pf.nsrc(t.comparators[0])))
                    or (isinstance(t.ops[0], (ast.Lt, ast.GtE)) and pf.nsrc(t.left) == n and pf.nsrc(t.comparators[0]) == '0')
                    or (isinstance(t.ops[0], (ast.Gt, ast.LtE)) and pf.nsrc(t.comparators[0]) == n and pf.nsrc(t.left) == '0'))
                if not sep:
                    return True
                tv = not tv
            return (lab == 'T') == tv
        if cn[0].id in g.reachable_from(g.entry, edge_ok=edge_ok):
            modes.append(case)
    return {('sentinel',): 'read()', ('count',): 'read(k)'}.get(tuple(modes), 'read')


def _self_attr(fn: pf.FuncDef, e: Optional[ast.AST]) -> Optional[str]:
    """`self.<attr>` (through single-definition locals) -> attr."""
    if e is None:
        return None
    x = pf.expand_locals(fn, e)
    if isinstance(x, ast.Attribute) and isinstance(x.value, ast.Name) and x.value.id == 'self':
        return x.attr
    return None


def _azure(ctx: Ctx) -> None:
    m = _load(AZ)
    fn = m.func('AzureAsyncFS._open_from')
    where = f'{AZ}::AzureAsyncFS._open_from'
    url, start, length = _sig(ctx, fn, where)
    rets = [st for st in _stmts(fn) if isinstance(st, ast.Return)]
    ctx.need(len(rets) == 1 and rets[0].value is not None, f'{where}: expected one return of a stream constructor')
    c = pf.expand_locals(fn, rets[0].value)
    ctx.need(isinstance(c, ast.Call), f'{where}: expected one return of a stream constructor')
    sname = pf.dotted(c.func)
    ctx.need(sname is not None, f'{where}: stream constructor not recognised')
    m.cls(sname)
    init = m.func(f'{sname}.__init__')
    iparams = [a.arg for a in init.args.args][1:]
    stored: Dict[str, str] = {}  # init parameter -> attribute it is stored in
    for st in _stmts(init):
        tg = st.targets[0] if isinstance(st, ast.Assign) and len(st.targets) == 1 else (st.target if isinstance(st, ast.AnnAssign) else None)
        val = getattr(st, 'value', None)
        if isinstance(tg, ast.Attribute) and pf.nsrc(tg.value) == 'self' and isinstance(val, ast.Name) and val.id in iparams:
            stored[val.id] = tg.attr
    # the roles come from the SDK call, not from names: the attribute passed as download_blob(offset=...) is the stream's offset, the one
    # passed as length=... its length; the constructor parameters stored in them are the (offset, length) of the stream
    dcalls: List[Tuple[str, pf.FuncDef, ast.Call]] = []
    # `read` is analysed with the private helpers of the stream class inlined (a download opened in an extracted helper is a download of read)
    rm, rd_inl, inlined = _inline_private(m, sname, 'read') if m.has_func(f'{sname}.read') else (m, None, [])
    for qual, f in m.functions():
        if qual.startswith(sname + '.') and qual.count('.') == 1:
            if f.name in inlined:
                still_called = any(isinstance(c.func, ast.Attribute) and c.func.attr == f.name for q2, f2 in m.functions() if q2.startswith(sname + '.') and f2.name != 'read'
                                   and f2.name not in inlined for c in pf.calls_in(f2, into_nested_defs=True)) or \
                    any(isinstance(c.func, ast.Attribute) and c.func.attr == f.name and pf.nsrc(c.func.value) == 'self' for c in pf.calls_in(rd_inl, into_nested_defs=True))
                if not still_called:
                    continue
            if f.name == 'read' and rd_inl is not None:
                f = rd_inl
            for dc in pf.calls_in(f):
                if isinstance(dc.func, ast.Attribute) and dc.func.attr == 'download_blob':
                    ctx.need(not dc.args and all(k.arg for k in dc.keywords), f'{AZ}::{qual}: download_blob called with positional/star arguments')
                    dcalls.append((qual, f, dc))
    ctx.need(dcalls, f'{AZ}::{sname}: no download_blob call')

    def role_attr(kwname: str, fallback_param: str) -> str:
        attrs = {_self_attr(f, next((k.value for k in dc.keywords if k.arg == kwname), None)) for _q, f, dc in dcalls}
        attrs.discard(None)
        if len(attrs) == 1:
            return attrs.pop()  # type: ignore[return-value]
        ctx.need(not attrs and fallback_param in stored, f'{AZ}::{sname}: the attribute that holds the {kwname} of the range is not identified ({sorted(a for a in attrs if a)})')
        return stored[fallback_param]

    off_attr, len_attr = role_attr('offset', 'offset'), role_attr('length', 'length')
    by_attr = {v: k for k, v in stored.items()}
    ctx.need(off_attr in by_attr and len_attr in by_attr and off_attr != len_attr, f'{AZ}::{sname}.__init__: no constructor parameter is stored in self.{off_attr} / self.{len_attr}')
    p_off, p_len = by_attr[off_attr], by_attr[len_attr]
    defaults = dict(zip([a.arg for a in init.args.args][len(init.args.args) - len(init.args.defaults):], init.args.defaults))
    opt = {}
    if isinstance(defaults.get(p_len), ast.Constant) and defaults[p_len].value is None:  # type: ignore[union-attr]
        opt[p_len] = 'the stream then has no length: everything up to the end of the blob is returned'
    if isinstance(defaults.get(p_off), ast.Constant) and defaults[p_off].value is None:  # type: ignore[union-attr]
        opt[p_off] = 'the stream then starts at the first byte of the blob'
    _forwarding(ctx, fn, c, iparams, {p_off: start, p_len: length}, opt, 'R2', f'{where}::stream(offset={start}, length={length})', where, m.path)
    f_off, f_len = f'self.{off_attr}', f'self.{len_attr}'
    for qual, f, dc in dcalls:
        kw = {k.arg: k.value for k in dc.keywords}
        mode = _read_modes(f, dc)
        cons = f'{AZ}::{qual}::download_blob' + (f'[{mode}]' if mode else '')
        msg = ''
        a_off, a_len = _self_attr(f, kw.get('offset')), _self_attr(f, kw.get('length'))
        if 'offset' not in kw:
            msg = f'the download is opened without offset={f_off}: it starts at the first byte of the blob, not at the start of the range'
        elif a_off != off_attr:
            ctx.need(a_off is not None, f'{AZ}::{qual}: `{pf.nsrc(dc)}`: the offset passed is not an attribute of the stream; not recognised')
            msg = f'the download starts at `{pf.nsrc(kw["offset"])}`, not at `{f_off}`'
        elif 'length' not in kw:
            msg = (f'the download is opened with offset={f_off} but without length={f_len}: after open_from(url, s, length=L) a `read(n)` with n > L (any n != -1) '
                   f'returns the bytes s .. s+n-1, i.e. data beyond the requested range, while `read()` on the same stream honours the length')
        elif a_len != len_attr:
            ctx.need(a_len is not None, f'{AZ}::{qual}: `{pf.nsrc(dc)}`: the length passed is not an attribute of the stream; not recognised')
            msg = f'the download is opened with length=`{pf.nsrc(kw["length"])}`, not `{f_len}`'
        ctx.check(not msg, 'R2', cons, msg, m.path, dc.lineno)
        # a download (re)opened at the stream's offset INSIDE the loop that fills the read buffer: the buffer already holds bytes past that offset
        # (the offset only advances by what was handed out), so the re-opened stream delivers them a second time
        for lp in [x for x in ast.walk(f) if isinstance(x, (ast.While, ast.For, ast.AsyncFor)) and any(y is dc for y in ast.walk(x))]:
            fills = [y for y in ast.walk(lp) if isinstance(y, ast.Call) and isinstance(y.func, ast.Attribute) and y.func.attr in ('extend', 'append')
                     and isinstance(y.func.value, ast.Attribute) and pf.nsrc(y.func.value.value) == 'self']
            if not fills or a_off != off_attr:
                continue
            buf = pf.nsrc(fills[0].func.value)
            resets = [y for y in ast.walk(lp) if (isinstance(y, ast.Assign) and any(pf.nsrc(t) == buf for t in y.targets))
                      or (isinstance(y, ast.Call) and isinstance(y.func, ast.Attribute) and y.func.attr == 'clear' and pf.nsrc(y.func.value) == buf)]
            ctx.need(not resets, f'{AZ}::{qual}: the buffer {buf} is reset inside the loop that re-opens the download; not analysed')
            ctx.bad('R2', cons + '::re-opened while the buffer holds data',
                    f'`{pf.nsrc(dc)}` re-opens the download at `{f_off}` inside the loop that fills `{buf}`: `{f_off}` counts only the bytes handed to the caller, the '
                    f'bytes already buffered lie behind it and are downloaded and appended AGAIN - e.g. read(10) with 4 bytes buffered when the connection drops returns bytes '
                    f'0..3 followed by 0..5 instead of 0..9', m.path, dc.lineno)
    _offset_length_typestate(ctx, rm, rd_inl, sname, off_attr, len_attr, inlined)
    ctx.unit('functions', 3)


def _offset_length_typestate(ctx: Ctx, m: pf.Module, rd: Optional[pf.FuncDef], sname: str, off_attr: str, len_attr: str, inlined: Sequence[str] = ()) -> None:
    """A stream object that keeps (offset, length) of its range and ADVANCES the offset by the bytes it has handed out must not send the
    pair to the service again with the length of the WHOLE range: the end of the download slides behind the range by the bytes consumed.
    Typestate over the fields `read` tests (None / set, unknown splits both ways) plus one bit "offset advanced, length not reduced in
    step"; the calls read(k) / read() are applied in any order until no new state appears; a `download_blob(offset=self.<offset>,
    length=self.<length>)` that is reachable with the bit set is reported with the call history that reaches it."""
    ctx.need(rd is not None, f'{AZ}::{sname}.read: not defined')
    where = f'{AZ}::{sname}.read'
    ps = [a.arg for a in rd.args.args]
    ctx.need(len(ps) == 2, f'{where}: signature changed')
    nparam = ps[1]
    f_off, f_len = f'self.{off_attr}', f'self.{len_attr}'
    g = pf.cfg(rd)

    def tested_attr(t: ast.AST) -> Optional[Tuple[str, bool]]:
        """(attribute, test is true when the attribute is set/truthy)"""
        neg = False
        while isinstance(t, ast.UnaryOp) and isinstance(t.op, ast.Not):
            neg, t = not neg, t.operand
        if isinstance(t, ast.Compare) and len(t.ops) == 1 and isinstance(t.comparators[0], ast.Constant) and t.comparators[0].value is None and isinstance(t.ops[0], (ast.Is, ast.IsNot)):
            if isinstance(t.ops[0], ast.Is):
                neg = not neg
            t = t.left
        elif isinstance(t, ast.Compare):
            return None
        if isinstance(t, ast.Attribute) and isinstance(t.value, ast.Name) and t.value.id == 'self':
            return t.attr, not neg
        return None

    tracked = sorted({ta[0] for nd in g.nodes if nd.kind == 'test' and nd.ast is not None for ta in [tested_attr(nd.ast)] if ta is not None})
    # other methods must not touch what the typestate tracks
    cls = m.cls(sname)
    for f in cls.body:
        if isinstance(f, (ast.FunctionDef, ast.AsyncFunctionDef)) and f.name not in ('__init__', 'read', '_wait_closed', 'close') and f.name not in inlined:
            for x in ast.walk(f):
                tgt = [x.target] if isinstance(x, (ast.AugAssign, ast.AnnAssign)) else (x.targets if isinstance(x, ast.Assign) else [])
                for t in tgt:
                    ctx.need(not (isinstance(t, ast.Attribute) and pf.nsrc(t.value) == 'self' and t.attr in tracked + [off_attr, len_attr]),
                             f'{AZ}::{sname}.{f.name}: writes self.{getattr(t, "attr", "")}, which the typestate of read() tracks; not analysed')
    init = m.func(f'{sname}.__init__')
    st0: Dict[str, str] = {a: 'U' for a in tracked}
    for st in _stmts(init):
        tgt = st.targets[0] if isinstance(st, ast.Assign) and len(st.targets) == 1 else getattr(st, 'target', None)
        val = getattr(st, 'value', None)
        if isinstance(tgt, ast.Attribute) and pf.nsrc(tgt.value) == 'self' and tgt.attr in tracked and val is not None:
            st0[tgt.attr] = ('N' if not val.value else 'S') if isinstance(val, ast.Constant) else 'U'
    State = Tuple[Tuple[Tuple[str, str], ...], bool]

    def freeze(d: Dict[str, str], slid: bool) -> State:
        return tuple(sorted(d.items())), slid

    def step_len_in_block(aug: ast.AugAssign) -> bool:
        """`self.<length> -= <same amount>` next to the advance (same statement list), possibly under `if self.<length> is not None`."""
        par = m.parents()
        blk = par.get(aug)
        for fld in ('body', 'orelse', 'finalbody'):
            lst = getattr(blk, fld, None)
            if isinstance(lst, list) and aug in lst:
                for sib in lst:
                    for x in ast.walk(sib):
                        if isinstance(x, ast.AugAssign) and isinstance(x.op, ast.Sub) and pf.nsrc(x.target) == f_len and pf.nsrc(x.value) == pf.nsrc(aug.value):
                            return True
        return False

    hits: Dict[int, Tuple[ast.Call, List[str]]] = {}
    history: Dict[State, List[str]] = {freeze(st0, False): []}
    work: List[State] = [freeze(st0, False)]
    n_states = 0
    while work:
        s0 = work.pop(0)
        n_states += 1
        ctx.need(n_states < 400, f'{where}: typestate does not converge')
        for case in ('sentinel', 'count'):
            label = 'read()' if case == 'sentinel' else 'read(k)'
            seen = set()
            stack: List[Tuple[pf.Node, State, bool]] = [(g.entry, s0, True)]  # (node, state, n still the argument)
            while stack:
                nd, stt, n_arg = stack.pop()
                key = (nd.id, stt, n_arg)
                if key in seen:
                    continue
                seen.add(key)
                d, slid = dict(stt[0]), stt[1]
                a = nd.ast
                if nd.kind == 'return' or nd is g.exit:
                    fs = freeze(d, slid)
                    if fs not in history:
                        history[fs] = history[s0] + [label]
                        work.append(fs)
                    continue
                for c in pf.node_calls(nd):
                    if isinstance(c.func, ast.Attribute) and c.func.attr == 'download_blob':
                        kw = {k.arg: k.value for k in c.keywords if k.arg}
                        if slid and _self_attr(rd, kw.get('offset')) == off_attr and _self_attr(rd, kw.get('length')) == len_attr and id(c) not in hits:
                            hits[id(c)] = (c, history[s0] + [label])
                branch: Optional[bool] = None
                split_attr: Optional[Tuple[str, bool]] = None
                if nd.kind == 'test' and a is not None:
                    if nparam in pf.names_in(a) and n_arg:
                        if case == 'sentinel':
                            branch = _sentinel_truth(a, nparam)
                        elif isinstance(a, ast.Compare) and len(a.ops) == 1 and pf.nsrc(a.left) == nparam and pf.nsrc(a.comparators[0]) == '-1' and isinstance(a.ops[0], (ast.Eq, ast.NotEq)):
                            branch = isinstance(a.ops[0], ast.NotEq)
                    else:
                        ta = tested_attr(a)
                        if ta is not None and ta[0] in d:
                            if d[ta[0]] == 'U':
                                split_attr = ta
                            else:
                                branch = (d[ta[0]] == 'S') == ta[1]
                elif nd.kind == 'stmt' and a is not None:
                    for x in ([a] if isinstance(a, (ast.Assign, ast.AugAssign, ast.AnnAssign)) else []):
                        tgts = x.targets if isinstance(x, ast.Assign) else [x.target]
                        for t in tgts:
                            if isinstance(t, ast.Name) and t.id == nparam:
                                n_arg = False
                            if isinstance(t, ast.Attribute) and pf.nsrc(t.value) == 'self':
                                if t.attr in d and not isinstance(x, ast.AugAssign):
                                    v = x.value
                                    d[t.attr] = ('N' if not v.value else 'S') if isinstance(v, ast.Constant) else 'S'
                                if t.attr == off_attr and isinstance(x, ast.AugAssign) and isinstance(x.op, ast.Add) and not step_len_in_block(x):
                                    slid = True
                                if t.attr == off_attr and isinstance(x, ast.Assign) and off_attr in d and not isinstance(x.value, ast.Constant):
                                    ctx.need(False, f'{where}: `{pf.nsrc(x)}` not recognised')
                                if t.attr == len_attr and not (isinstance(x, ast.AugAssign) and isinstance(x.op, ast.Sub)):
                                    ctx.need(False, f'{where}: `{pf.nsrc(x)}` not recognised')
                for nxt, lab in nd.succ:
                    if lab == 'exc' or nxt is g.raise_exit or nxt.kind == 'raise':
                        continue
                    if branch is not None and lab in ('T', 'F') and (lab == 'T') != branch:
                        continue
                    d2 = d
                    if split_attr is not None and lab in ('T', 'F'):
                        d2 = dict(d)
                        d2[split_attr[0]] = 'S' if (lab == 'T') == split_attr[1] else 'N'
                    stack.append((nxt, freeze(d2, slid), n_arg))
    ctx.unit('typestates', len(history))
    cons0 = f'{where}::download_blob(offset, length) after the offset advanced'
    if not hits:
        ctx.ok('R2', cons0, {'tracked': tracked, 'states': len(history)})
    for c, hist in hits.values():
        mode = _read_modes(rd, c)
        ctx.bad('R2', f'{where}::download_blob[{mode}]::length follows the advancing offset',
                f'`{pf.nsrc(c)}` is reachable after `{f_off} += ...` (history: {"; ".join(hist)}): the offset has moved forward by the bytes handed out but `{f_len}` is still the '
                f'length of the WHOLE range, so the download ends that many bytes behind the range - open_from(url, 10, length=5), read(2), read() returns the bytes 12..16, two of them '
                f'beyond the range 10..14', m.path, c.lineno)


def _local(ctx: Ctx) -> None:
    """LocalAsyncFS._open_from, path by path (abstract values: F = the file opened, T(limit) = TruncatedReadableBinaryIO around F, ? = anything else):
    every returned stream holds F positioned by exactly one `F.seek(start[, SEEK_SET])`; with a length it is T(length), without one F itself."""
    m = _load(LOC)
    fn = m.func('LocalAsyncFS._open_from')
    where = f'{LOC}::LocalAsyncFS._open_from'
    url, start, length = _sig(ctx, fn, where)
    g = pf.cfg(fn)
    tests = {n.id: _given_label(n.ast, length) for n in g.nodes if n.kind == 'test' and n.ast is not None and length in pf.names_in(n.ast)}
    for nid, lab in tests.items():
        ctx.need(lab is not None, f'{where}: test on `{length}` not recognised')
    wrapper = 'TruncatedReadableBinaryIO'
    winit = m.func(f'{wrapper}.__init__')
    wparams = [a.arg for a in winit.args.args][1:]
    ctx.need(len(wparams) == 2, f'{LOC}::{wrapper}.__init__: signature changed')

    def val(e: ast.AST, env: Dict[str, object]) -> object:
        if isinstance(e, ast.Await):
            return val(e.value, env)
        if isinstance(e, ast.Name):
            return env.get(e.id, '?')
        if isinstance(e, ast.Call):
            name = (pf.dotted(e.func) or '').split('.')[-1]
            if name == 'cast' and len(e.args) == 2 and not e.keywords:
                return val(e.args[1], env)
            if name == 'open' and pf.dotted(e.func) in ('open', 'io.open', 'builtins.open'):
                return 'F'
            if name == 'blocking_to_async' and len(e.args) >= 2 and pf.dotted(e.args[1]) in ('open', 'io.open', 'builtins.open'):
                return 'F'
            if name == wrapper:
                b = _bind_args(e, wparams)
                if b is not None and set(b) == set(wparams) and val(b[wparams[0]], env) == 'F':
                    return ('T', b[wparams[1]])
        return '?'

    results: List[Tuple[Optional[bool], object, List[ast.Call], ast.Return]] = []

    def walk(n: pf.Node, env: Dict[str, object], seeks: List[ast.Call], given: Optional[bool], seen: Tuple[int, ...]) -> None:
        ctx.need(len(seen) < 200 and len(results) < 64, f'{where}: too many paths')
        a = n.ast
        if n.kind == 'return':
            ctx.need(isinstance(a, ast.Return) and a.value is not None, f'{where}: returns nothing')
            rv = a.value.value if isinstance(a.value, ast.Await) else a.value  # type: ignore[union-attr]
            ctx.need(isinstance(rv, ast.Call), f'{where}: `{n.text()}` is not `<adapter>(pool, <stream>)`')
            streams = [v for v in (val(x, env) for x in list(rv.args) + [k.value for k in rv.keywords]) if v == 'F' or isinstance(v, tuple)]  # type: ignore[union-attr]
            ctx.need(len(streams) == 1, f'{where}: `{n.text()}` does not hand exactly one stream over the opened file to the adapter; not recognised')
            results.append((given, streams[0], seeks, a))  # type: ignore[arg-type]
            return
        env2, seeks2 = env, seeks
        if n.kind == 'stmt' and a is not None:
            if isinstance(a, (ast.Assign, ast.AnnAssign)) and getattr(a, 'value', None) is not None:
                v = val(a.value, env)  # type: ignore[arg-type]
                for t in (a.targets if isinstance(a, ast.Assign) else [a.target]):
                    if isinstance(t, ast.Name):
                        env2 = {**env2, t.id: v}
                    else:
                        for x in ast.walk(t):
                            if isinstance(x, ast.Name) and isinstance(x.ctx, ast.Store):
                                env2 = {**env2, x.id: '?'}
            elif isinstance(a, ast.AugAssign) and isinstance(a.target, ast.Name):
                env2 = {**env2, a.target.id: '?'}
            for c in pf.node_calls(n):
                if isinstance(c.func, ast.Attribute) and c.func.attr == 'seek':
                    recv = val(c.func.value, env)
                    ctx.need(recv == 'F', f'{where}: `{pf.nsrc(c)}` seeks something that is not the file just opened; not recognised')
                    seeks2 = seeks2 + [c]
        elif n.kind in ('loop', 'with') and a is not None:
            hdr = [a.target] if isinstance(a, (ast.For, ast.AsyncFor)) else [it.optional_vars for it in getattr(a, 'items', []) if it.optional_vars is not None]
            for h in hdr:
                for x in ast.walk(h):
                    if isinstance(x, ast.Name):
                        env2 = {**env2, x.id: '?'}
        for nxt, lab in n.succ:
            if lab == 'exc' or nxt is g.raise_exit or nxt.id in seen or nxt.kind == 'raise':
                continue
            g2 = given
            if n.id in tests and lab in ('T', 'F'):
                v2 = (lab == tests[n.id])
                if given is not None and given != v2:
                    continue
                g2 = v2
            walk(nxt, env2, seeks2, g2, seen + (n.id,))

    walk(g.entry, {}, [], None, ())
    ctx.need(results, f'{where}: no path returns a stream')
    ctx.unit('local_open_paths', len(results))
    scons = f'{where}::seek({start})'
    tcons = f'{where}::{wrapper}(limit={length})'
    seek_bad: List[Tuple[str, int]] = []
    trunc_bad: List[Tuple[str, int]] = []
    seen_case = {True: False, False: False}
    for given, stream, seeks, ret in results:
        # --- positioned at `start`, from the beginning, exactly once
        if not seeks:
            seek_bad.append((f'on the path to `{pf.nsrc(ret)[:70]}` the file is never positioned at `{start}`: the stream starts at byte 0', ret.lineno))
        else:
            ctx.need(len(seeks) == 1, f'{where}: several seeks on one path')
            sk = seeks[0]
            ctx.need(not sk.keywords and len(sk.args) in (1, 2) and not any(isinstance(x, ast.Starred) for x in sk.args), f'{where}: seek call `{pf.nsrc(sk)}` not recognised')
            whence = pf.nsrc(pf.expand_locals(fn, sk.args[1])) if len(sk.args) == 2 else '0'
            ctx.need(whence in ('io.SEEK_SET', 'os.SEEK_SET', 'SEEK_SET', '0', 'io.SEEK_CUR', 'os.SEEK_CUR', 'SEEK_CUR', '1', 'io.SEEK_END', 'os.SEEK_END', 'SEEK_END', '2'),
                     f'{where}: whence of `{pf.nsrc(sk)}` not recognised')
            pos = _unchanged(fn, sk.args[0], start)
            if whence in ('io.SEEK_END', 'os.SEEK_END', 'SEEK_END', '2'):
                seek_bad.append((f'`{pf.nsrc(sk)}` positions the file relative to its END, not at `{start}` from the beginning', sk.lineno))
            elif pos is False:
                seek_bad.append((f'`{pf.nsrc(sk)}` does not position the file at `{start}` from the beginning', sk.lineno))
            else:
                # a freshly opened file is at 0: SEEK_CUR and SEEK_SET agree
                ctx.need(pos is True, f'{where}: position of `{pf.nsrc(sk)}` not resolved to `{start}`')
        # --- truncated to `length` exactly when a length is given
        for case in ([given] if given is not None else [False, True]):
            seen_case[case] = True
            if case and stream == 'F':
                trunc_bad.append((f'with a length `{pf.nsrc(ret)[:70]}` returns the file itself, not wrapped in {wrapper}: a read with a length returns everything up to the end of '
                                  f'the file', ret.lineno))
            elif case:
                lim = _unchanged(fn, stream[1], length)  # type: ignore[index]
                if lim is False:
                    trunc_bad.append((f'the limit is `{pf.nsrc(stream[1])}`, not `{length}`', ret.lineno))  # type: ignore[index]
                else:
                    ctx.need(lim is True, f'{where}: limit `{pf.nsrc(stream[1])}` of the truncating wrapper not resolved to `{length}`')  # type: ignore[index]
            elif stream != 'F':
                trunc_bad.append((f'the stream is truncated (`{pf.nsrc(stream[1])}`) although no length was given', ret.lineno))  # type: ignore[index]
    ctx.need(seen_case[True] and seen_case[False], f'{where}: not both cases (with / without a length) return a stream')
    ctx.check(not seek_bad, 'R2', scons, seek_bad[0][0] if seek_bad else '', m.path, seek_bad[0][1] if seek_bad else fn.lineno)
    ctx.check(not trunc_bad, 'R2', tcons, trunc_bad[0][0] if trunc_bad else '', m.path, trunc_bad[0][1] if trunc_bad else fn.lineno)
    _truncating_wrapper(ctx, m)
    ctx.unit('functions', 3)


# sync readers of a file object: the first argument is a byte count (at most that many bytes are returned) ...
_SIZE_READERS = ('read', 'read1', 'readline', 'peek')
# ... or a destination buffer (at most len(buffer) bytes are stored, the count is returned)
_INTO_READERS = ('readinto', 'readinto1')
# ... or there is no bound at all
_UNBOUNDED_READERS = ('readall', 'readlines', '__next__', '__iter__')


def _with_bindings(fn: pf.FuncDef) -> Dict[str, ast.AST]:
    """`with <expr> as name` bindings of a function (name -> context expression)."""
    out: Dict[str, ast.AST] = {}
    for n in pf.walk_shallow(fn):
        if isinstance(n, (ast.With, ast.AsyncWith)):
            for it in n.items:
                if isinstance(it.optional_vars, ast.Name):
                    out[it.optional_vars.id] = it.context_expr
    return out


def _is_memoryview_of(fn: pf.FuncDef, e: ast.AST, depth: int = 3) -> Optional[ast.AST]:
    """The object `e` is a memoryview of (through `with memoryview(b) as v` / `v = memoryview(b)`), else None."""
    if depth <= 0:
        return None
    if isinstance(e, ast.Call) and pf.dotted(e.func) == 'memoryview' and len(e.args) == 1 and not e.keywords:
        return e.args[0]
    if isinstance(e, ast.Name):
        d = pf.single_def(fn, e.id)
        if isinstance(d, ast.withitem):
            return _is_memoryview_of(fn, d.context_expr, depth - 1)
        if isinstance(d, ast.expr):
            return _is_memoryview_of(fn, d, depth - 1)
    return None


def _cap_verdict(e: ast.AST, remaining: 'linform.Lin', env: Dict[str, ast.AST], known: Optional[Sequence[str]] = None) -> Tuple[Optional[bool], str]:
    """Is the byte count `e` at most `remaining` for every state?  (True, '') / (False, why) / (None, why not decided).
    `min(a, b)` is capped when one operand is; anything else must equal `remaining` in linear normal form.  `known` = the symbols whose meaning
    the caller knows (parameters, the fields of `remaining`): a count that depends on anything else is not decided - a FAIL needs a count the
    analysis resolved completely."""
    if isinstance(e, ast.Call) and pf.dotted(e.func) == 'min' and e.args and not e.keywords and not any(isinstance(a, ast.Starred) for a in e.args):
        sub = [_cap_verdict(a, remaining, env, known) for a in e.args]
        if any(v is True for v, _ in sub):
            return True, ''
        if all(v is False for v, _ in sub):
            return False, f'no operand of `{pf.nsrc(e)}` is `{remaining!r}`'
        return None, f'`{pf.nsrc(e)}` not decided'
    if isinstance(e, ast.IfExp):
        sub = [_cap_verdict(a, remaining, env, known) for a in (e.body, e.orelse)]
        if all(v is True for v, _ in sub):
            return True, ''
        if any(v is False for v, _ in sub):
            return False, [w for v, w in sub if v is False][0]
        return None, f'`{pf.nsrc(e)}` not decided'
    try:
        d = linform.lin(e, env) - remaining
    except AnalysisError as ex:
        return None, f'`{pf.nsrc(e)}` is not linear ({ex})'
    if d == linform.const(0):
        return True, ''
    if d.is_const() and d.const < 0:
        return True, ''
    if known is not None:
        foreign = [x for x in d.symbols() if x not in known and x not in remaining.symbols()]
        if foreign:
            return None, f'`{pf.nsrc(e)}` depends on {foreign}, which the analysis did not resolve'
    return False, f'`{pf.nsrc(e)}` = {remaining!r} + ({d!r})'


def _truncating_wrapper(ctx: Ctx, m: pf.Module) -> None:
    """TruncatedReadableBinaryIO(bio, limit): EVERY method that takes bytes out of the wrapped file asks for at most limit - offset bytes
    (what is LEFT of the range, not the length of the whole range) and advances `offset` by what it obtained.  The blocking stream
    adapter picks the reader method by name (read, and readinto when the file object has one), so a second reader method is a second way
    out of the range.  The three fields are identified by what the constructor stores in them (1st parameter: the wrapped file, 2nd: the
    limit, the integer constant: the offset), not by their names."""
    cname = 'TruncatedReadableBinaryIO'
    twhere = f'{LOC}::{cname}'
    cls = m.cls(cname)
    init = m.func(f'{cname}.__init__')
    iparams = [a.arg for a in init.args.args][1:]
    ctx.need(len(iparams) == 2 and not init.args.kwonlyargs and not init.args.vararg and not init.args.kwarg, f'{twhere}.__init__: signature changed: {iparams}')
    ia: Dict[str, ast.AST] = {}
    for st in _stmts(init):
        tg = st.targets[0] if isinstance(st, ast.Assign) and len(st.targets) == 1 else (st.target if isinstance(st, ast.AnnAssign) else None)
        if isinstance(tg, ast.Attribute) and pf.nsrc(tg.value) == 'self' and getattr(st, 'value', None) is not None:
            ctx.need(tg.attr not in ia, f'{twhere}.__init__: self.{tg.attr} assigned twice')
            ia[tg.attr] = st.value  # type: ignore[union-attr]
    bio_attrs = [k for k, v in ia.items() if isinstance(v, ast.Name) and v.id == iparams[0]]
    ctx.need(len(bio_attrs) == 1, f'{twhere}.__init__: the wrapped file is not stored in exactly one field')
    lim_attrs = [k for k, v in ia.items() if iparams[1] in pf.names_in(v)]
    off_attrs = [k for k, v in ia.items() if isinstance(v, ast.Constant) and isinstance(v.value, int) and not isinstance(v.value, bool)]
    ctx.need(len(lim_attrs) == 1 and len(off_attrs) == 1, f'{twhere}.__init__: the fields holding the limit / the offset are not identified ({lim_attrs} / {off_attrs})')
    A_bio, A_lim, A_off = f'self.{bio_attrs[0]}', f'self.{lim_attrs[0]}', f'self.{off_attrs[0]}'
    lim_ok = _unchanged(init, ia[lim_attrs[0]], iparams[1])
    ctx.need(lim_ok is not None, f'{twhere}.__init__: `{A_lim} = {pf.nsrc(ia[lim_attrs[0]])}` not resolved')
    off0 = ia[off_attrs[0]].value  # type: ignore[attr-defined]
    ctx.check(off0 == 0 and lim_ok, 'R2', f'{twhere}.__init__', f'starts with {A_off}={off0}, {A_lim}={pf.nsrc(ia[lim_attrs[0]])}; expected 0 and the given limit', m.path, init.lineno)
    methods = [st for st in cls.body if isinstance(st, (ast.FunctionDef, ast.AsyncFunctionDef))]
    for f in methods:
        ctx.need(f.name not in ('__getattr__', '__getattribute__'), f'{twhere}.{f.name}: attribute forwarding makes every reader method of the wrapped file reachable; not analysed')
    for st in cls.body:
        if isinstance(st, (ast.Assign, ast.AnnAssign)):
            v = st.value
            ctx.need(v is None or not any(isinstance(x, ast.Attribute) and x.attr in _SIZE_READERS + _INTO_READERS + _UNBOUNDED_READERS for x in ast.walk(v)),
                     f'{twhere}: class-level alias of a reader method `{pf.nsrc(st)}` not analysed')
    remaining = linform.sym(A_lim) - linform.sym(A_off)
    n_readers = 0
    for rd0 in methods:
        if rd0.name == '__init__':
            continue

        def is_bio(e: ast.AST, f: pf.FuncDef) -> bool:
            return pf.nsrc(pf.expand_locals(f, e)) == A_bio

        if not any(isinstance(x, ast.Attribute) and x.attr in _SIZE_READERS + _INTO_READERS + _UNBOUNDED_READERS for x in ast.walk(rd0)) \
                and not any(isinstance(c.func, ast.Attribute) and pf.nsrc(c.func.value) == 'self' for c in pf.calls_in(rd0, into_nested_defs=True)):
            continue
        # private helpers of the wrapper are analysed inlined
        rd = _inline_private(m, cname, rd0.name)[1]
        calls = [c for c in pf.calls_in(rd, into_nested_defs=True) if isinstance(c.func, ast.Attribute) and is_bio(c.func.value, rd)
                 and c.func.attr in _SIZE_READERS + _INTO_READERS + _UNBOUNDED_READERS]
        # a bound reader taken as a value (`f = self.bio.readinto`) is called out of sight
        taken = [x for x in ast.walk(rd) if isinstance(x, ast.Attribute) and is_bio(x.value, rd) and x.attr in _SIZE_READERS + _INTO_READERS + _UNBOUNDED_READERS
                 and not any(c.func is x for c in calls)]
        ctx.need(not taken, f'{twhere}.{rd.name}: `{pf.nsrc(taken[0]) if taken else ""}` is used as a value; not analysed')
        if not calls:
            continue
        n_readers += 1
        mwhere = f'{twhere}.{rd.name}'
        ctx.need(len(calls) == 1, f'{mwhere}: expected one read from {A_bio}, found {len(calls)}')
        call = calls[0]
        kind = call.func.attr  # type: ignore[attr-defined]
        rg = pf.cfg(rd)
        cn = rg.node_of(call)
        ctx.need(len(cn) == 1, f'{mwhere}: read node')
        RD = cn[0]
        ctx.need(not call.keywords and not any(isinstance(a, ast.Starred) for a in call.args), f'{mwhere}: `{pf.nsrc(call)}` keyword/star arguments')
        params = [a.arg for a in rd.args.args][1:]
        known = params + [f'len({x})' for x in params]
        cap_cons = f'{mwhere}::capped by limit - offset'
        beyond = ('after k bytes of the range have been handed out (offset = k > 0) a call can return up to k bytes of the file that lie beyond the range, '
                  'e.g. open_from(url, s, length=L): readexactly(4) then readexactly(L) yields L bytes, the last 4 from behind the range, instead of UnexpectedEOFError')
        if kind in _UNBOUNDED_READERS:
            ctx.bad('R2', cap_cons, f'`{pf.nsrc(call)}` reads to the end of the FILE: the limit is not applied at all', m.path, call.lineno)
        elif kind in _SIZE_READERS:
            nparam = params[0] if params else None
            if not call.args or (isinstance(call.args[0], ast.Constant) and call.args[0].value in (-1, None)) or \
                    (isinstance(call.args[0], ast.UnaryOp) and pf.nsrc(call.args[0]) == '-1'):
                ctx.bad('R2', cap_cons, f'`{pf.nsrc(call)}` asks for everything up to the end of the FILE: the limit is not applied', m.path, call.lineno)
            elif isinstance(call.args[0], ast.Name):
                av = call.args[0].id
                defs = [st for st in _stmts(rd) if isinstance(st, ast.Assign) and len(st.targets) == 1 and isinstance(st.targets[0], ast.Name) and st.targets[0].id == av]
                other = [v for v in pf.assignments(rd).get(av, []) if not isinstance(v, ast.arg) and not any(v is d.value for d in defs)]
                ctx.need(not other, f'{mwhere}: `{av}` is bound in a way that is not recognised')
                # path by path: the count at the read is its last definition on the path, or the caller's argument constrained by the tests passed
                stores = [x for x in rg.nodes if x.ast is not None and x.kind == 'stmt' and isinstance(x.ast, (ast.Assign, ast.AugAssign, ast.AnnAssign))
                          and any(pf.nsrc(t) in (A_lim, A_off) for t in (x.ast.targets if isinstance(x.ast, ast.Assign) else [x.ast.target]))]
                ctx.need(not any(RD.id in rg.reachable_from(x) for x in stores), f'{mwhere}: {A_lim} / {A_off} change before `{pf.nsrc(call)}`; not analysed')
                verdicts: List[Tuple[Optional[bool], str, int]] = []

                def facts(t: ast.AST, truth: bool) -> List['linform.Lin']:
                    """integer facts `L <= 0` implied by the test having this truth value"""
                    if isinstance(t, ast.UnaryOp) and isinstance(t.op, ast.Not):
                        return facts(t.operand, not truth)
                    if isinstance(t, ast.BoolOp):
                        if isinstance(t.op, ast.And) == truth:
                            return [x for v in t.values for x in facts(v, truth)]
                        return []
                    if isinstance(t, ast.Compare) and len(t.ops) == 1 and isinstance(t.ops[0], (ast.Lt, ast.LtE, ast.Gt, ast.GtE)):
                        try:
                            tt = _expand_except(rd, t, av)
                            return [linform.cmp_le0(tt if truth else ast.UnaryOp(op=ast.Not(), operand=tt))]
                        except AnalysisError:
                            return []
                    return []

                def count_walk(x: pf.Node, cur: Optional[ast.Assign], known_facts: Tuple['linform.Lin', ...], tested: bool, seen: Tuple[int, ...]) -> None:
                    ctx.need(len(seen) < 200 and len(verdicts) < 64, f'{mwhere}: too many paths')
                    if x is RD:
                        if cur is not None:
                            # the count being defined may mention its own previous value (`n = min(remaining, n)`): only OTHER locals are expanded
                            v, why = _cap_verdict(_expand_except(rd, cur.value, av), remaining, {}, known)
                            verdicts.append((v, f'`{pf.nsrc(cur)}` is not `{A_lim} - {A_off}` or `min({A_lim} - {A_off}, {nparam})` ({why})', cur.lineno))
                            return
                        if av not in params:
                            verdicts.append((None, f'`{av}` is not defined on every path to `{pf.nsrc(call)}`', rd.lineno))
                            return
                        gap = linform.sym(av) - remaining
                        if any((gap - L).is_const() and (gap - L).const <= 0 for L in known_facts):
                            verdicts.append((True, '', rd.lineno))
                        elif tested:
                            verdicts.append((None, f'on a path without a definition `{av}` is compared with another quantity; whether that caps it is not analysed', rd.lineno))
                        else:
                            verdicts.append((False, f'there is a path to `{pf.nsrc(call)}` on which `{av}` is the caller\'s argument, not capped by the remaining bytes', rd.lineno))
                        return
                    cur2 = cur
                    if any(x.ast is d for d in defs):
                        cur2 = x.ast  # type: ignore[assignment]
                    for nxt, lab in x.succ:
                        if lab == 'exc' or nxt is rg.raise_exit or nxt.id in seen:
                            continue
                        f2, t2 = known_facts, tested
                        if x.kind == 'test' and x.ast is not None and lab in ('T', 'F') and cur2 is None and av in pf.names_in(x.ast):
                            f2 = known_facts + tuple(facts(x.ast, lab == 'T'))
                            t2 = tested or any(isinstance(c, ast.Compare) and av in pf.names_in(c) and not all(isinstance(o, ast.Constant) or pf.nsrc(o) in (av, '-1')
                                                                                                           for o in [c.left] + c.comparators) for c in ast.walk(x.ast))
                        count_walk(nxt, cur2, f2, t2, seen + (x.id,))

                count_walk(rg.entry, None, (), False, ())
                ctx.need(verdicts, f'{mwhere}: no path to `{pf.nsrc(call)}`')
                wrong = [v for v in verdicts if v[0] is False]
                if wrong:
                    ctx.bad('R2', cap_cons, f'{wrong[0][1]}: the read can pass the end of the range - {beyond}', m.path, wrong[0][2])
                else:
                    open_ = [v for v in verdicts if v[0] is None]
                    ctx.need(not open_, f'{mwhere}: {open_[0][1] if open_ else ""}')
                    ctx.ok('R2', cap_cons, {'count': av, 'definitions': [pf.nsrc(d) for d in defs], 'paths': len(verdicts)})
            else:
                v, why = _cap_verdict(pf.expand_locals(rd, call.args[0]), remaining, {}, known)
                ctx.need(v is not None, f'{mwhere}: {why}')
                ctx.check(bool(v), 'R2', cap_cons, f'`{pf.nsrc(call)}`: the count is not capped by `{A_lim} - {A_off}` ({why}): {beyond}', m.path, call.lineno)
        else:
            ctx.need(len(call.args) == 1, f'{mwhere}: `{pf.nsrc(call)}` not recognised')
            a0 = call.args[0]
            if isinstance(a0, ast.Name):
                d0 = pf.single_def(rd, a0.id)
                if isinstance(d0, ast.expr) and isinstance(d0, ast.Subscript):
                    a0 = d0
            if isinstance(a0, ast.Subscript) and isinstance(a0.slice, ast.Slice):
                base = _is_memoryview_of(rd, a0.value)
                ctx.need(base is not None, f'{mwhere}: `{pf.nsrc(a0)}` slices something that is not a memoryview (a copy would be filled); not analysed')
                sl = a0.slice
                ctx.need(sl.step is None and (sl.lower is None or pf.nsrc(sl.lower) == '0'), f'{mwhere}: slice `{pf.nsrc(a0)}` not recognised')
                if sl.upper is None:
                    ctx.bad('R2', cap_cons, f'`{pf.nsrc(call)}` fills the whole destination buffer: the limit is not applied - {beyond}', m.path, call.lineno)
                else:
                    up = pf.expand_locals(rd, sl.upper)
                    v, why = _cap_verdict(up, remaining, {}, known)
                    ctx.need(v is not None, f'{mwhere}: {why}')
                    ctx.check(bool(v), 'R2', cap_cons,
                              f'`{pf.nsrc(call)}` clips the destination buffer to `{pf.nsrc(sl.upper)}` bytes, not to what is LEFT of the range, `{A_lim} - {A_off}` ({why}): {beyond}',
                              m.path, call.lineno, detail={'clip': pf.nsrc(up)})
            else:
                is_param = isinstance(a0, ast.Name) and isinstance(pf.single_def(rd, a0.id), ast.arg)
                whole = is_param or (_is_memoryview_of(rd, a0) is not None)
                ctx.need(whole, f'{mwhere}: destination `{pf.nsrc(a0)}` not recognised')
                ctx.bad('R2', cap_cons, f'`{pf.nsrc(call)}` fills the whole destination buffer, however long: the limit is not applied - {beyond}', m.path, call.lineno)
        # offset advances by what was obtained, before every normal exit after the read
        adv_cons = f'{mwhere}::offset advances by the bytes returned'
        res = [st for st in _stmts(rd) if isinstance(st, ast.Assign) and st.value is call and len(st.targets) == 1 and isinstance(st.targets[0], ast.Name)]
        ctx.need(len(res) == 1, f'{mwhere}: result of the read is not bound to a name')
        bv = res[0].targets[0].id  # type: ignore[attr-defined]
        ctx.need(len(pf.assignments(rd).get(bv, [])) == 1, f'{mwhere}: `{bv}` is rebound')
        amount = bv if kind in _INTO_READERS else f'len({bv})'
        adv = [st for st in _stmts(rd) if isinstance(st, ast.AugAssign) and pf.nsrc(st.target) == A_off and isinstance(st.op, ast.Add)]
        sets = [st for st in _stmts(rd) if (isinstance(st, ast.Assign) and any(pf.nsrc(t) == A_off for t in st.targets))
                or (isinstance(st, ast.AugAssign) and pf.nsrc(st.target) == A_off and st not in adv)]
        ctx.need(not sets, f'{mwhere}: `{pf.nsrc(sets[0]) if sets else ""}` not recognised')
        rrets = [n for n in rg.nodes if n.kind == 'return' and n.id in rg.reachable_from(RD)]
        ctx.need(rrets, f'{mwhere}: no return after the read')
        # what is returned is what was read (anything else is a different method contract: not analysed)
        for r in rrets:
            rv = getattr(r.ast, 'value', None)
            ctx.need(rv is None or _names(rd, rv, bv), f'{mwhere}: `{r.text()}` does not return the block read; not recognised')
        out_of_sight = [c for c in pf.calls_in(rd, into_nested_defs=True) if isinstance(c.func, ast.Attribute) and pf.nsrc(c.func.value) == 'self']
        msg = ''
        if not adv:
            ctx.need(not out_of_sight, f'{mwhere}: `{A_off}` is not advanced here and `{pf.nsrc(out_of_sight[0]) if out_of_sight else ""}` may do it; not analysed')
            msg = f'`{A_off}` is never advanced by {amount}'
        else:
            ctx.need(len(adv) == 1, f'{mwhere}: several advances of `{A_off}`')
            try:
                dd = linform.lin(_expand_except(rd, adv[0].value, bv)) - linform.sym(amount)
            except AnalysisError as ex:
                raise AnalysisError(f'{mwhere}: `{pf.nsrc(adv[0])}` not linear ({ex})')
            if dd != linform.const(0):
                foreign = [x for x in dd.symbols() if x not in known and x != amount]
                ctx.need(not foreign, f'{mwhere}: `{pf.nsrc(adv[0])}` depends on {foreign}, which the analysis did not resolve')
                msg = f'`{pf.nsrc(adv[0])}` advances by `{pf.nsrc(adv[0].value)}`, not by the {amount} bytes obtained'
            elif not all(rg.dominated_by(r, lambda n: n.ast is adv[0]) for r in rrets):
                msg = f'there is a path from the read to `{rrets[0].text()}` that skips `{pf.nsrc(adv[0])}`'
        ctx.check(not msg, 'R2', adv_cons, f'{msg}: later reads pass the limit', m.path, rd.lineno)
    ctx.need(n_readers >= 1, f'{twhere}: no method reads from {A_bio}')


def _names(fn: pf.FuncDef, e: ast.AST, name: str, depth: int = 4) -> bool:
    """`e` is the local `name` (through plain renamings `x = name` and `bytes(name)`)."""
    if depth <= 0:
        return False
    if isinstance(e, ast.Call) and pf.dotted(e.func) == 'bytes' and len(e.args) == 1 and not e.keywords:
        return _names(fn, e.args[0], name, depth - 1)
    if isinstance(e, ast.Name):
        if e.id == name:
            return True
        d = pf.single_def(fn, e.id)
        return isinstance(d, ast.expr) and _names(fn, d, name, depth - 1)
    return False


def _expand_except(fn: pf.FuncDef, e: ast.AST, keep: str, depth: int = 4) -> ast.AST:
    """pf.expand_locals (single-definition locals replaced by their defining expression), but the name `keep` stays as it is - at every depth."""
    import copy
    params = {a.arg for a in fn.args.posonlyargs + fn.args.args + fn.args.kwonlyargs}

    class S(ast.NodeTransformer):
        def __init__(self, d: int):
            self.d = d

        def visit_Name(self, node: ast.Name):
            if node.id == keep or node.id in params or not isinstance(node.ctx, ast.Load) or self.d <= 0:
                return node
            dd = pf.single_def(fn, node.id)
            if dd is not None and isinstance(dd, ast.expr) and not isinstance(dd, (ast.Await, ast.Yield, ast.YieldFrom)):
                return S(self.d - 1).visit(copy.deepcopy(dd))
            return node

        def visit_Lambda(self, node):
            return node
    return S(depth).visit(copy.deepcopy(e))


def _router(ctx: Ctx) -> None:
    m = _load(RT)
    fn = m.func('RouterAsyncFS._open_from')
    where = f'{RT}::RouterAsyncFS._open_from'
    url, start, length = _sig(ctx, fn, where)
    rets = [st for st in _stmts(fn) if isinstance(st, ast.Return)]
    ctx.need(len(rets) == 1 and rets[0].value is not None, f'{where}: expected one return')
    c = pf.resolve_expr(fn, rets[0].value)
    c = c.value if isinstance(c, ast.Await) else c
    ctx.need(isinstance(c, ast.Call) and isinstance(c.func, ast.Attribute) and c.func.attr in ('open_from', '_open_from'), f'{where}: does not delegate to open_from')
    decl = _load(FS).func('AsyncFS.open_from')
    dparams = [a.arg for a in decl.args.args][1:] + [a.arg for a in decl.args.kwonlyargs]
    ctx.need(len(dparams) == 3, f'{FS}::AsyncFS.open_from: signature changed')
    ctx.need(len(c.args) <= 2, f'{where}: `{pf.nsrc(c)}` passes the keyword-only length positionally; not recognised')
    _forwarding(ctx, fn, c, dparams, dict(zip(dparams, (url, start, length))), {dparams[2]: 'the back end then reads to the end of the object'}, 'R2',
                f'{where}::delegates unchanged', where, m.path)


# ------------------------------------------------------------------------------------------------
# R3 front end
# ------------------------------------------------------------------------------------------------

def _with_call(fn: pf.FuncDef, attr: str) -> Optional[Tuple[ast.Call, Optional[str], ast.AST]]:
    """`async with await X.<attr>(...) as f` - also with the awaited call bound to a local first (`s = await X.<attr>(...)`, `async with s as f`)."""
    for st in _stmts(fn):
        if isinstance(st, ast.AsyncWith) and len(st.items) == 1:
            e = st.items[0].context_expr
            if isinstance(e, ast.Name):
                d = pf.single_def(fn, e.id)
                if isinstance(d, ast.expr):
                    e = d
            if isinstance(e, ast.Await):
                e = e.value
            if isinstance(e, ast.Call) and isinstance(e.func, ast.Attribute) and e.func.attr == attr:
                v = st.items[0].optional_vars
                return e, (v.id if isinstance(v, ast.Name) else None), st
    return None


def _with_returns(fn: pf.FuncDef, wst: ast.AST) -> List[ast.Return]:
    """The returns of a with block - or, when the block only binds its result (`data = await f.read()`) and the function returns that local
    afterwards, a synthetic `return <the bound expression>`."""
    rets = [st for st in ast.walk(wst) if isinstance(st, ast.Return)]
    if rets:
        return rets
    out: List[ast.Return] = []
    for st in _stmts(fn):
        if isinstance(st, ast.Return) and isinstance(st.value, ast.Name):
            d = pf.single_def(fn, st.value.id)
            if isinstance(d, ast.expr) and any(d is x for x in ast.walk(wst)):
                out.append(ast.copy_location(ast.Return(value=d), st))
    return out


def _flag_paths(ctx: Ctx, fn: pf.FuncDef, where: str, flag: str, goal: ast.AST, exprs: List[Optional[ast.AST]], params: List[str]
                ) -> List[Tuple[Optional[bool], List[Optional['linform.Lin']], str]]:
    """Integer locals along every CFG path from the entry of `fn` to the statement holding `goal`, as linear forms over the parameters and the
    0/1 indicator INCL of the boolean `flag` (abstract case split: a test of the flag's truthiness fixes INCL on that branch; `bool(flag)`,
    `int(flag)`, `flag` as a summand and `1 if flag else 0` are INCL).  Returns per path (value of the flag or None, the linear forms of
    `exprs` there, the tests passed)."""
    g = pf.cfg(fn)
    gn = g.node_of(goal)
    ctx.need(len(gn) == 1, f'{where}: statement of `{pf.nsrc(goal)[:60]}` not found')
    GOAL = gn[0]
    out: List[Tuple[Optional[bool], List[Optional[linform.Lin]], str]] = []

    class _Incl(ast.NodeTransformer):
        def visit_IfExp(self, node):  # noqa: N802
            self.generic_visit(node)
            tv = c23norm.truth_of_name(node.test, flag)
            if tv is not None and {pf.nsrc(node.body), pf.nsrc(node.orelse)} == {'1', '0'}:
                one_when_true = pf.nsrc(node.body) == '1'
                if one_when_true == tv:
                    return ast.Name('INCL', ast.Load())
                return ast.BinOp(left=ast.Constant(1), op=ast.Sub(), right=ast.Name('INCL', ast.Load()))
            return node

    def lin_of(e: ast.AST, env: Dict[str, object], incl: Optional[bool]) -> linform.Lin:
        ind = linform.sym('INCL') if incl is None else linform.const(int(incl))
        env2 = {**env, f'bool({flag})': ind, f'int({flag})': ind, flag: ind, 'INCL': ind}
        x = _Incl().visit(ast.parse(pf.nsrc(e), mode='eval').body)
        l = linform.lin(x, env2)  # type: ignore[arg-type]
        unresolved = [t for t in l.symbols() if t not in params and t != 'INCL']
        if unresolved:
            raise AnalysisError(f'depends on {unresolved}, which the analysis did not resolve to the parameters')
        return l

    def walk(n: pf.Node, env: Dict[str, object], incl: Optional[bool], seen: Tuple[int, ...]) -> None:
        ctx.need(len(seen) < 200 and len(out) < 64, f'{where}: too many paths')
        if n is GOAL:
            vals: List[Optional[linform.Lin]] = []
            for e in exprs:
                if e is None:
                    vals.append(None)
                    continue
                try:
                    vals.append(lin_of(e, env, incl))
                except AnalysisError as ex:
                    raise AnalysisError(f'{where}: `{pf.nsrc(e)}` {ex}')
            out.append((incl, vals, ' / '.join(g.nodes[i].text() for i in seen if g.nodes[i].kind == 'test')))
            return
        a = n.ast
        env2 = env
        if n.kind == 'stmt' and a is not None:
            tgts: List[ast.AST] = a.targets if isinstance(a, ast.Assign) else ([a.target] if isinstance(a, (ast.AnnAssign, ast.AugAssign)) else [])  # type: ignore[assignment]
            for t in tgts:
                val = getattr(a, 'value', None)
                if isinstance(t, ast.Name) and val is not None:
                    try:
                        if isinstance(a, ast.AugAssign):
                            ctx.need(isinstance(a.op, (ast.Add, ast.Sub)), f'{where}: `{pf.nsrc(a)}` not recognised')
                            cur = lin_of(ast.Name(t.id, ast.Load()), env, incl)
                            rhs = lin_of(val, env, incl)
                            new = cur + rhs if isinstance(a.op, ast.Add) else cur - rhs
                        else:
                            new = lin_of(val, env, incl)
                        env2 = {**env2, t.id: new}
                    except AnalysisError:
                        env2 = {**env2, t.id: ast.Name(f'{t.id}?', ast.Load())}
                else:
                    for x in ast.walk(t):
                        if isinstance(x, ast.Name) and isinstance(x.ctx, ast.Store):
                            env2 = {**env2, x.id: ast.Name(f'{x.id}?', ast.Load())}
        elif n.kind in ('loop', 'with') and a is not None:
            hdr = [a.target] if isinstance(a, (ast.For, ast.AsyncFor)) else [it.optional_vars for it in getattr(a, 'items', []) if it.optional_vars is not None]
            for h in hdr:
                for x in ast.walk(h):
                    if isinstance(x, ast.Name):
                        env2 = {**env2, x.id: ast.Name(f'{x.id}?', ast.Load())}
        tv: Optional[bool] = None
        if n.kind == 'test' and a is not None and flag in pf.names_in(a):
            tv = c23norm.truth_of_name(a, flag)
            ctx.need(tv is not None, f'{where}: test `{pf.nsrc(a)}` on `{flag}` not recognised')
        for nxt, lab in n.succ:
            if lab == 'exc' or nxt is g.raise_exit or nxt.id in seen:
                continue
            incl2 = incl
            if tv is not None and lab in ('T', 'F'):
                v = (lab == 'T') == tv
                if incl is not None and incl != v:
                    continue
                incl2 = v
            walk(nxt, env2, incl2, seen + (n.id,))

    walk(g.entry, {}, None, ())
    ctx.need(out, f'{where}: no path reaches `{pf.nsrc(goal)[:60]}`')
    return out


_READ_METHODS = _SIZE_READERS + _INTO_READERS


def _reader_of(f: pf.FuncDef, call: ast.Call) -> Optional[str]:
    """The file-object reader method a call goes to: `X.read(..)`, `X.readinto(..)`, or a local bound to `X.readinto` /
    `getattr(X, 'readinto'[, default])`."""
    fn = call.func
    if isinstance(fn, ast.Attribute) and fn.attr in _READ_METHODS:
        return fn.attr
    if isinstance(fn, ast.Name):
        d = pf.single_def(f, fn.id)
        if isinstance(d, ast.Attribute) and d.attr in _READ_METHODS:
            return d.attr
        if isinstance(d, ast.Call) and pf.dotted(d.func) == 'getattr' and len(d.args) in (2, 3) and not d.keywords and pf.const_str(d.args[1]) in _READ_METHODS:
            return pf.const_str(d.args[1])
    return None


def _is_eof_raise(st: ast.stmt) -> bool:
    return isinstance(st, ast.Raise) and st.exc is not None and (pf.dotted(st.exc.func if isinstance(st.exc, ast.Call) else st.exc) or '').split('.')[-1] == 'UnexpectedEOFError'


def _exact_read_loops(ctx: Ctx, mm: pf.Module, qual: str, f: Optional[pf.FuncDef] = None) -> None:
    """A blocking `readexactly(n)` built from loops over an at-most reader: every value-returning exit lies behind ONE loop that
      * continues exactly while bytes are outstanding (O > 0; O = the count-down variable, or n - <count-up variable>),
      * asks the file for at most O bytes (`read(k)`: k <= O; `readinto(view[a:b])`: capacity <= O and a = the bytes already stored),
      * counts what it obtained (len(block) / the count readinto returns) into O,
      * raises UnexpectedEOFError when the file returns nothing, and is left in no other way.
    Decided per loop in linear normal form; unrecognised loop shapes are declined."""
    f = f if f is not None else mm.func(qual)
    where = f'{mm.rel}::{qual}'
    ctx.need(len(f.args.args) == 2, f'{where}: signature changed')
    nparam = f.args.args[1].arg
    g = pf.cfg(f)
    loops = [st for st in pf.walk_shallow(f) if isinstance(st, ast.While)]
    ctx.need(loops and not any(isinstance(st, (ast.For, ast.AsyncFor)) for st in pf.walk_shallow(f)), f'{where}: expected while loop(s) over the file reader, found {len(loops)}')
    heads: Dict[int, pf.Node] = {}
    accs: Dict[int, Tuple[str, str]] = {}  # loop -> (reader kind, what holds the data)
    for lp in loops:
        ctx.need(not lp.orelse, f'{where}: while/else not recognised')
        hn = [n for n in g.nodes if n.kind == 'test' and n.ast is lp.test]
        ctx.need(len(hn) == 1, f'{where}: loop head node')
        heads[id(lp)] = hn[0]
        cons = f'{where}::while {pf.nsrc(lp.test)}::reads until n bytes'
        inner = [st for st in ast.walk(lp) if isinstance(st, (ast.While, ast.For, ast.AsyncFor)) and st is not lp]
        ctx.need(not inner, f'{where}: nested loops not recognised')
        calls = [(c, _reader_of(f, c)) for c in pf.calls_in(lp)]
        calls = [(c, k) for c, k in calls if k is not None]
        ctx.need(len(calls) == 1, f'{where}: expected one read in the loop `while {pf.nsrc(lp.test)}`, found {len(calls)}')
        call, kind = calls[0]
        ctx.need(not call.keywords and not any(isinstance(a, ast.Starred) for a in call.args), f'{where}: `{pf.nsrc(call)}` keyword/star arguments')
        res = [st for st in lp.body if isinstance(st, ast.Assign) and (st.value is call or isinstance(st.value, ast.Await) and st.value.value is call)
               and len(st.targets) == 1 and isinstance(st.targets[0], ast.Name)]
        ctx.need(len(res) == 1, f'{where}: the result of `{pf.nsrc(call)}` is not bound to a name at the top of the loop body')
        rv = res[0].targets[0].id  # type: ignore[attr-defined]
        ctx.need(len(pf.assignments(f).get(rv, [])) == 1, f'{where}: `{rv}` is bound more than once')
        amount = rv if kind in _INTO_READERS else f'len({rv})'
        # --- progress: the outstanding count O
        augs = [st for st in lp.body if isinstance(st, ast.AugAssign) and isinstance(st.target, ast.Name) and isinstance(st.op, (ast.Add, ast.Sub))]
        def counts_amount(st: ast.AugAssign) -> bool:
            try:
                return linform.lin(_expand_except(f, st.value, rv)) == linform.sym(amount)
            except AnalysisError:
                return False
        prog = [st for st in augs if counts_amount(st)]
        problems: List[str] = []
        line = lp.lineno
        if len(prog) != 1:
            other = [st for st in ast.walk(lp) if isinstance(st, (ast.AugAssign, ast.Assign)) and st not in prog and st is not res[0]
                     and any(isinstance(t, ast.Name) and t.id in pf.names_in(lp.test) for t in ([st.target] if isinstance(st, ast.AugAssign) else st.targets))]
            ctx.need(not prog and augs and not [o for o in other if o not in augs], f'{where}: progress statement of the loop `while {pf.nsrc(lp.test)}` not recognised')
            # evidence: the loop counts something the analysis resolved completely (a constant, the request size, the parameter) that is not the block length
            try:
                pv = linform.lin(_expand_except(f, augs[0].value, rv))
            except AnalysisError as ex:
                raise AnalysisError(f'{where}: progress statement `{pf.nsrc(augs[0])}` not linear ({ex})')
            fparams = [a.arg for a in f.args.args]
            foreign = [x for x in pv.symbols() if x not in fparams and x != amount and x != f'len({rv})']
            ctx.need(not foreign and len(augs) == 1, f'{where}: progress statement `{pf.nsrc(augs[0])}` depends on {foreign}; not recognised')
            ctx.bad('R3', cons, f'the loop counts `{pf.nsrc(augs[0])}` per iteration, not the {amount} bytes it obtained from `{pf.nsrc(call)}`: it stops before / after {nparam} bytes have been read',
                    mm.path, augs[0].lineno)
            continue
        st_p = prog[0]
        X = st_p.target.id  # type: ignore[attr-defined]
        others = [v for v in pf.assignments(f).get(X, []) if v is not st_p]
        if isinstance(st_p.op, ast.Sub):
            if X == nparam:
                ctx.need(all(isinstance(v, ast.arg) for v in others), f'{where}: `{X}` is rebound')
            else:
                ctx.need(len(others) == 1 and isinstance(others[0], ast.Name) and others[0].id == nparam, f'{where}: count-down variable `{X}` does not start at `{nparam}`')
            O = linform.sym(X)
            stored = linform.sym(nparam + '@entry') - O  # bytes obtained so far (only used for readinto positions)
            total = None
        else:
            ctx.need(len(others) == 1 and isinstance(others[0], ast.Constant) and others[0].value == 0 and not isinstance(others[0].value, bool)
                     and not any(others[0] is getattr(x, 'value', None) for x in ast.walk(lp)), f'{where}: count-up variable `{X}` does not start at 0 before the loop')
            # n itself must be constant for this loop: no assignment to it reaches the loop head
            for v in pf.assignments(f).get(nparam, []):
                if isinstance(v, ast.arg):
                    continue
                vn = g.node_of(v)
                ctx.need(vn and all(hn[0].id not in g.reachable_from(x) for x in vn), f'{where}: `{nparam}` is modified on a path into the loop `while {pf.nsrc(lp.test)}`')
            O = linform.sym(nparam) - linform.sym(X)
            stored = linform.sym(X)
            total = linform.sym(nparam)
        # --- loop condition: O > 0
        try:
            cond = linform.cmp_le0(lp.test)
        except AnalysisError:
            cond = None
        ctx.need(cond is not None, f'{where}: loop condition `{pf.nsrc(lp.test)}` not recognised')
        dc = cond - (linform.const(1) - O)
        ctx.need(dc.is_const(), f'{where}: loop condition `{pf.nsrc(lp.test)}` is not a test of the outstanding bytes `{O!r}`')
        if dc.const < 0:
            problems.append(f'`while {pf.nsrc(lp.test)}` still iterates when {O!r} = {-dc.const - 1 if dc.const < -1 else 0}: the read of 0 outstanding bytes returns nothing and a COMPLETE read raises UnexpectedEOFError')
        elif dc.const > 0:
            problems.append(f'`while {pf.nsrc(lp.test)}` stops while {dc.const} byte(s) are still outstanding: {dc.const} byte(s) fewer than {nparam} are returned, silently')
        # --- request size
        if kind in _SIZE_READERS:
            if not call.args:
                problems.append(f'`{pf.nsrc(call)}` asks for everything up to the end of the file: more than {nparam} bytes are returned')
            else:
                v, why = _cap_verdict(pf.expand_locals(f, call.args[0]), O, {})
                ctx.need(v is not None, f'{where}: {why}')
                if not v:
                    problems.append(f'`{pf.nsrc(call)}` asks for more than the outstanding bytes ({why}): after a short first block more than {nparam} bytes are returned')
            data = None
        else:
            ctx.need(len(call.args) == 1, f'{where}: `{pf.nsrc(call)}` not recognised')
            a0 = call.args[0]
            sl = a0.slice if isinstance(a0, ast.Subscript) and isinstance(a0.slice, ast.Slice) else None
            base = _is_memoryview_of(f, a0.value if sl is not None else a0)
            ctx.need(base is not None and isinstance(base, ast.Name), f'{where}: destination `{pf.nsrc(a0)}` is not (a slice of) a memoryview of a local buffer')
            bdef = pf.single_def(f, base.id)  # type: ignore[union-attr]
            ctx.need(isinstance(bdef, ast.Call) and pf.dotted(bdef.func) == 'bytearray' and len(bdef.args) == 1 and not bdef.keywords, f'{where}: buffer `{base.id}` is not `bytearray(<size>)`')  # type: ignore[union-attr]
            try:
                N = linform.lin(pf.expand_locals(f, bdef.args[0]))  # type: ignore[union-attr]
                lo = linform.lin(pf.expand_locals(f, sl.lower)) if sl is not None and sl.lower is not None else linform.const(0)
                hi = linform.lin(pf.expand_locals(f, sl.upper)) if sl is not None and sl.upper is not None else N
            except AnalysisError as e:
                raise AnalysisError(f'{where}: destination `{pf.nsrc(a0)}` not linear ({e})')
            ctx.need(sl is None or sl.step is None, f'{where}: strided destination')
            ctx.need(total is not None, f'{where}: readinto with a count-down variable not recognised')
            ctx.need(N == total, f'{where}: the buffer holds {N!r} bytes, not `{nparam}`')
            dpos = lo - stored
            if dpos != linform.const(0):
                problems.append(f'`{pf.nsrc(call)}` stores each block at offset `{lo!r}`, not behind the `{stored!r}` bytes already read: earlier blocks are overwritten / gaps stay zero, the bytes returned are not the bytes of the file')
            dcap = (hi - lo) - O
            ctx.need(dcap.is_const() or dpos != linform.const(0), f'{where}: capacity of `{pf.nsrc(a0)}` not comparable with the outstanding bytes')
            if dcap.is_const() and dcap.const > 0:
                problems.append(f'`{pf.nsrc(call)}` offers {dcap.const} byte(s) more than are outstanding')
            data = base.id  # type: ignore[union-attr]
        # --- end of file inside the loop
        def empties(t: ast.AST) -> bool:
            e = t
            if kind in _SIZE_READERS and c23norm.emptiness(e, rv) is True:
                return True
            if kind in _INTO_READERS and c23norm.truth_of_name(e, rv) is False:
                return True
            if isinstance(e, ast.UnaryOp) and isinstance(e.op, ast.Not):
                return pf.nsrc(e.operand) in (rv, f'len({rv})')
            if isinstance(e, ast.Compare) and len(e.ops) == 1:
                l, r = pf.nsrc(e.left), pf.nsrc(e.comparators[0])
                if isinstance(e.ops[0], ast.Eq) and {l, r} in ({amount, '0'}, {rv, "b''"}):
                    return True
                if isinstance(e.ops[0], (ast.Lt, ast.LtE, ast.Gt, ast.GtE)):
                    try:
                        return linform.cmp_le0(e) == linform.sym(amount)
                    except AnalysisError:
                        return False
            if isinstance(e, ast.BoolOp) and isinstance(e.op, ast.Or):
                return any(empties(x) for x in e.values) and all(empties(x) or (isinstance(x, ast.Compare) and pf.nsrc(x.left) == rv and isinstance(x.comparators[0], ast.Constant)
                                                                             and x.comparators[0].value is None) for x in e.values)
            return False
        ztests = [st for st in lp.body if isinstance(st, ast.If) and empties(st.test)]
        exits = [st for st in ast.walk(lp) if isinstance(st, (ast.Break, ast.Return))]
        raises_in = [st for st in ast.walk(lp) if _is_eof_raise(st)]
        if len(ztests) == 1 and not ztests[0].orelse and ztests[0].body and _is_eof_raise(ztests[0].body[-1]) and lp.body.index(ztests[0]) > lp.body.index(res[0]) \
                and lp.body.index(ztests[0]) < lp.body.index(st_p):
            ctx.need(not exits, f'{where}: the loop `while {pf.nsrc(lp.test)}` is also left by `{pf.nsrc(exits[0]) if exits else ""}`; not recognised')
        elif len(ztests) == 1 and ztests[0].body and isinstance(ztests[0].body[-1], (ast.Break, ast.Return)) and not raises_in:
            problems.append(f'when `{pf.nsrc(call)}` returns nothing (end of file) the loop is left by `{pf.nsrc(ztests[0].body[-1])}` and the bytes read so far are returned as if complete: '
                            f'no UnexpectedEOFError for a range that ends early')
            line = ztests[0].lineno
        elif not ztests and not raises_in and not exits:
            hidden = [c for c in pf.calls_in(lp) if c is not call and ((isinstance(c.func, ast.Attribute) and pf.nsrc(c.func.value) == 'self')
                                                                        or (isinstance(c.func, ast.Name) and mm.has_func(c.func.id)))]
            ctx.need(not hidden and not any(isinstance(x, ast.If) for x in ast.walk(lp)), f'{where}: the loop `while {pf.nsrc(lp.test)}` has no end-of-file test the analysis recognises '
                     f'(`{pf.nsrc(hidden[0])[:50] if hidden else "a test of another shape"}` may be one)')
            problems.append(f'end of file is not detected: when `{pf.nsrc(call)}` returns nothing the loop neither raises UnexpectedEOFError nor ends')
        else:
            raise AnalysisError(f'{where}: end-of-file handling of the loop `while {pf.nsrc(lp.test)}` not recognised')
        if problems:
            ctx.bad('R3', cons, problems[0] + (f' (+{len(problems) - 1} more)' if len(problems) > 1 else ''), mm.path, line, extra=problems)
        else:
            ctx.ok('R3', cons, {'outstanding': repr(O), 'reader': kind, 'request': pf.nsrc(call)})
        # what holds the data
        if kind in _SIZE_READERS:
            apps = [st for st in lp.body if isinstance(st, ast.Expr) and isinstance(st.value, ast.Call) and isinstance(st.value.func, ast.Attribute)
                    and st.value.func.attr in ('append', 'extend') and isinstance(st.value.func.value, ast.Name) and [pf.nsrc(a) for a in st.value.args] == [rv]]
            apps += [st for st in lp.body if isinstance(st, ast.AugAssign) and isinstance(st.op, ast.Add) and isinstance(st.target, ast.Name) and pf.nsrc(st.value) == rv]
            ctx.need(len(apps) == 1, f'{where}: the blocks read in `while {pf.nsrc(lp.test)}` are not collected in a recognised way')
            data = apps[0].value.func.value.id if isinstance(apps[0], ast.Expr) else apps[0].target.id  # type: ignore[union-attr]
        accs[id(lp)] = (kind, data)  # type: ignore[assignment]
    # every value-returning exit lies behind exactly one of the loops and returns what that loop collected
    rets = [n for n in g.nodes if n.kind == 'return' and n.ast is not None and getattr(n.ast, 'value', None) is not None]
    ctx.need(rets, f'{where}: no value is returned')
    for r in rets:
        behind = [lp for lp in loops if g.dominated_by(r, lambda n, h=heads[id(lp)]: n is h)]
        ctx.need(len(behind) == 1, f'{where}: `{r.text()}` lies behind {len(behind)} of the read loops; not recognised')
        kind, data = accs.get(id(behind[0]), (None, None))
        if data is None:
            continue  # the loop itself was reported
        v = r.ast.value  # type: ignore[union-attr]
        names = pf.names_in(v) | pf.names_in(pf.expand_locals(f, v))
        ctx.need(data in names or any(_is_memoryview_of(f, ast.Name(id=x, ctx=ast.Load())) is not None and pf.nsrc(_is_memoryview_of(f, ast.Name(id=x, ctx=ast.Load()))) == data for x in names),
                 f'{where}: `{r.text()}` does not return the data collected in `{data}`')


def _truth_when_zero(t: ast.AST, name: str) -> Optional[bool]:
    """Truth of a test for the abstract case `name == 0` (an int); None when the test does not only depend on that."""
    if isinstance(t, ast.UnaryOp) and isinstance(t.op, ast.Not):
        v = _truth_when_zero(t.operand, name)
        return None if v is None else not v
    if isinstance(t, ast.BoolOp):
        vs = [_truth_when_zero(x, name) for x in t.values]
        if isinstance(t.op, ast.And):
            return False if any(v is False for v in vs) else (True if all(v is True for v in vs) else None)
        return True if any(v is True for v in vs) else (False if all(v is False for v in vs) else None)
    if isinstance(t, ast.Name) and t.id == name:
        return False
    if isinstance(t, ast.Compare) and len(t.ops) == 1:
        l, r, op = t.left, t.comparators[0], t.ops[0]
        if isinstance(l, ast.Name) and l.id == name and isinstance(r, ast.Constant) and r.value is None and isinstance(op, (ast.Is, ast.IsNot, ast.Eq, ast.NotEq)):
            return isinstance(op, (ast.IsNot, ast.NotEq))

        def ival(x: ast.AST) -> Optional[int]:
            if isinstance(x, ast.Name) and x.id == name:
                return 0
            if isinstance(x, ast.Constant) and isinstance(x.value, int) and not isinstance(x.value, bool):
                return x.value
            if isinstance(x, ast.UnaryOp) and isinstance(x.op, ast.USub):
                v = ival(x.operand)
                return None if v is None else -v
            return None
        a, b = ival(l), ival(r)
        if a is None or b is None or pf.names_in(t) != {name}:
            return None
        table = {ast.Eq: a == b, ast.NotEq: a != b, ast.Lt: a < b, ast.LtE: a <= b, ast.Gt: a > b, ast.GtE: a >= b}
        return table.get(type(op))
    return None


def _reaches_without_zero(g: pf.CFG, n: pf.Node, ztests: Dict[int, Optional[bool]]) -> bool:
    """Is `n` reachable on a path that takes, at some test of the length, the edge the empty case does NOT take?"""
    for zid, tv in ztests.items():
        Z = g.nodes[zid]
        for nxt, lab in Z.succ:
            if lab in ('T', 'F') and (lab == 'T') != tv:
                if nxt is n or n.id in g.reachable_from(nxt):
                    return True
    return False


def _inline_private(m: pf.Module, cls_name: str, target: str) -> Tuple[pf.Module, pf.FuncDef, List[str]]:
    """Method `target` of `cls_name` with the calls to private, concrete helper methods of the same class inlined (engines/inline), provided
    no class under hailtop redefines the helper (then the call is not dynamic dispatch in disguise).  Everything else stays a call.
    Returns (module holding the function, the function, names of the helpers that were inlined at least once)."""
    cls = m.cls(cls_name)
    own = {f.name: f for f in cls.body if isinstance(f, (ast.FunctionDef, ast.AsyncFunctionDef))}
    if target not in own:
        return m, m.func(f'{cls_name}.{target}'), []
    cand: set = set()
    work = [target]
    while work:
        cur = work.pop()
        for c in pf.calls_in(own[cur], into_nested_defs=True):
            if not (isinstance(c.func, ast.Attribute) and pf.nsrc(c.func.value) == 'self'):
                continue
            name = c.func.attr
            f = own.get(name)
            if f is None or name in cand or name == target or not name.startswith('_') or name.startswith('__') or f.decorator_list:
                continue
            body = [st for st in f.body if not (isinstance(st, ast.Expr) and isinstance(st.value, ast.Constant))]
            if all(isinstance(st, (ast.Pass, ast.Raise)) for st in body):
                continue
            cand.add(name)
            work.append(name)
    if cand:
        for rel in pf.walk_py(SCAN_DIRS):
            for c in pf.load(rel).classes():
                if c.name == cls_name and rel == m.rel:
                    continue
                cand -= {f.name for f in c.body if isinstance(f, (ast.FunctionDef, ast.AsyncFunctionDef))}
    if not cand:
        return m, m.func(f'{cls_name}.{target}'), []
    m2, il = inline.inline_methods(m, cls_name, target, exclude=tuple(n for n in own if n not in cand))
    return m2, m2.func(f'{cls_name}.{target}'), sorted({n for n, _line in il.inlined})


def _with_private_helpers_inlined(m: pf.Module, cls_name: str, target: str) -> pf.FuncDef:
    return _inline_private(m, cls_name, target)[1]


def _front(ctx: Ctx, stream_verdicts: Optional[Dict[str, bool]] = None) -> None:
    m = _load(FS)
    # read_range
    fn = m.func('AsyncFS.read_range')
    where = f'{FS}::AsyncFS.read_range'
    a = [x.arg for x in fn.args.args]
    kw = [x.arg for x in fn.args.kwonlyargs]
    ctx.need(len(a) == 4 and kw == ['end_inclusive'], f'{where}: signature changed')
    url, start, end = a[1:]
    wc = _with_call(fn, 'open_from')
    ctx.need(wc is not None and wc[1] is not None, f'{where}: `async with await self.open_from(...) as f` not found')
    oc, fv, wst = wc  # type: ignore[misc]
    odecl = m.func('AsyncFS.open_from')
    oparams0 = [x.arg for x in odecl.args.args][1:] + [x.arg for x in odecl.args.kwonlyargs]
    ob0 = _bind_args(oc, oparams0[:2])
    ctx.need(len(oparams0) == 3 and ob0 is not None and set(ob0) == set(oparams0), f'{where}: `{pf.nsrc(oc)}` is not open_from({url}, {start}, length=…)')
    lk = [ob0[oparams0[2]]]  # type: ignore[index]
    ctx.need(_unchanged(fn, ob0[oparams0[0]], url) is True and _unchanged(fn, ob0[oparams0[1]], start) is True,  # type: ignore[index]
             f'{where}: `{pf.nsrc(oc)}` is not open_from({url}, {start}, length=…)')
    rets = _with_returns(fn, wst)
    ctx.need(len(rets) == 1, f'{where}: expected one return inside the with block')
    rc = rets[0].value.value if isinstance(rets[0].value, ast.Await) else rets[0].value
    ctx.need(isinstance(rc, ast.Call) and isinstance(rc.func, ast.Attribute) and pf.nsrc(rc.func.value) == fv, f'{where}: return is not a read on `{fv}`')
    # the span, on every path to the open_from call (the inclusive flag may be folded in arithmetically or by an if-statement)
    paths = _flag_paths(ctx, fn, where, kw[0], oc, [lk[0], rc.args[0] if rc.args else None], [start, end])
    span_bad: List[str] = []
    read_bad: List[str] = []
    for incl, (n_len, n_read), via in paths:
        ind = linform.sym('INCL') if incl is None else linform.const(int(incl))
        want = linform.sym(end) - linform.sym(start) + ind
        case = {None: '', True: f' when {kw[0]} is true', False: f' when {kw[0]} is false'}[incl]
        d = n_len - want  # type: ignore[operator]
        if d != linform.const(0):
            span_bad.append(f'the length requested{case} is `{n_len!r}`, expected `{want!r}`: ' +
                            ('an inclusive range loses its last byte / an exclusive one is read as inclusive' if d.symbols() == ['INCL'] or (d.is_const() and abs(d.const) == 1)
                             else 'the wrong span is read'))
        if n_read is not None and n_read != n_len:
            read_bad.append(f'{n_read!r} bytes are read{case} from a stream opened with length {n_len!r}')
    ctx.check(not span_bad, 'R3', f'{where}::n = end - start + inclusive', span_bad[0] if span_bad else '', m.path, oc.lineno, detail={'paths': len(paths)})
    rattr = rc.func.attr
    # evidence for "not exact": an at-most reader (`read(k)`), or readexactly with a different count; any other method is not understood
    ctx.need(rattr in ('readexactly', 'read'), f'{where}: `{pf.nsrc(rets[0])}` uses `{rattr}`, which the analysis does not know')
    ctx.need(not rc.keywords and len(rc.args) <= 1, f'{where}: `{pf.nsrc(rc)}` not recognised')
    ctx.check(rattr == 'readexactly' and rc.args and not read_bad, 'R3', f'{where}::readexactly(n)',
              f'`{pf.nsrc(rets[0])}` does not read exactly the requested span' + (f' ({read_bad[0]})' if read_bad else '') +
              ': a short read is returned silently instead of signalling an unexpected end of file', m.path, rets[0].lineno)
    # read_from
    fn = m.func('AsyncFS.read_from')
    where = f'{FS}::AsyncFS.read_from'
    a = [x.arg for x in fn.args.args]
    wc = _with_call(fn, 'open_from')
    ctx.need(wc is not None and len(a) == 3, f'{where}: shape changed')
    oc, fv, wst = wc  # type: ignore[misc]
    rets = _with_returns(fn, wst)
    ctx.need(len(rets) == 1, f'{where}: expected one return')
    rc = rets[0].value.value if isinstance(rets[0].value, ast.Await) else rets[0].value
    ctx.need(isinstance(rc, ast.Call) and isinstance(rc.func, ast.Attribute) and pf.nsrc(rc.func.value) == fv and not rc.keywords
             and not any(isinstance(x, ast.Starred) for x in rc.args), f'{where}: `{pf.nsrc(rets[0])}` is not a read on `{fv}`')
    decl_of = m.func('AsyncFS.open_from')
    oparams = [x.arg for x in decl_of.args.args][1:] + [x.arg for x in decl_of.args.kwonlyargs]
    ctx.need(len(oparams) == 3, f'{FS}::AsyncFS.open_from: signature changed')
    ob = _bind_args(oc, oparams[:2])
    ctx.need(ob is not None, f'{where}: `{pf.nsrc(oc)}` not recognised')
    problems: List[str] = []
    for cp, ours in zip(oparams[:2], a[1:]):
        v = _unchanged(fn, ob.get(cp), ours)  # type: ignore[union-attr]
        ctx.need(v is not None, f'{where}: argument `{cp}` of `{pf.nsrc(oc)}` not resolved')
        if not v:
            problems.append(f'`{pf.nsrc(oc)}` passes {cp}={pf.nsrc(ob[cp])}, not `{ours}`')  # type: ignore[index]
    if oparams[2] in ob:  # type: ignore[operator]
        lv = pf.expand_locals(fn, ob[oparams[2]])  # type: ignore[index]
        if not (isinstance(lv, ast.Constant) and lv.value is None):
            ctx.need(isinstance(lv, ast.Constant) or _unchanged(fn, lv, '') is False, f'{where}: length of `{pf.nsrc(oc)}` not resolved')
            problems.append(f'`{pf.nsrc(oc)}` bounds the read by length={pf.nsrc(lv)}')
    # read() / read(-1) read everything; read(k) is an at-most read, readexactly(k) a bounded one; anything else is not understood
    ctx.need(rc.func.attr in ('read', 'readexactly', 'readall'), f'{where}: `{pf.nsrc(rc)}` not recognised')
    if not (rc.func.attr in ('read', 'readall') and (not rc.args or pf.nsrc(rc.args[0]) == '-1')):
        problems.append(f'`{pf.nsrc(rets[0])}` reads a bounded number of bytes')
    ctx.check(not problems, 'R3', f'{where}::open_from(url, start) + read()', (problems[0] if problems else '') + f': not everything from `{a[2]}` to the end is read', m.path, oc.lineno)
    # open_from (private helpers of AsyncFS that no other class overrides are analysed inlined: `return await self._open_empty_range(url)`)
    fn = _with_private_helpers_inlined(m, 'AsyncFS', 'open_from')
    where = f'{FS}::AsyncFS.open_from'
    url, start, length = _sig(ctx, fn, where)
    g = pf.cfg(fn)
    dels = [c for c in pf.calls_in(fn) if pf.dotted(c.func) == 'self._open_from']
    ctx.need(len(dels) == 1, f'{where}: expected one delegation to self._open_from')
    dc = dels[0]
    DN = g.node_of(dc)[0]
    bdecl = m.func('AsyncFS._open_from')
    bparams = [x.arg for x in bdecl.args.args][1:] + [x.arg for x in bdecl.args.kwonlyargs]
    ctx.need(len(bparams) == 3 and len(dc.args) <= 2, f'{where}: `{pf.nsrc(dc)}` / the declaration of _open_from not recognised')
    _forwarding(ctx, fn, dc, bparams, dict(zip(bparams, (url, start, length))), {bparams[2]: 'the back end then reads to the end of the object'}, 'R3',
                f'{where}::forwards unchanged', where, m.path)
    # what open_from hands to the caller is the back end's stream itself; a wrapper put around it is a new ReadableStream implementation
    # in the path of every ranged read: its read-all contract is decided by R6, its bounded-read accounting is not analysed (declined)
    rcons = f'{where}::returns the stream of _open_from'
    if DN.kind == 'return':
        v = DN.ast.value  # type: ignore[union-attr]
        ctx.need((v.value if isinstance(v, ast.Await) else v) is dc, f'{where}: `{DN.text()}` post-processes the stream; not recognised')
        ctx.ok('R3', rcons, DN.text())
    else:
        a = DN.ast
        ctx.need(isinstance(a, (ast.Assign, ast.AnnAssign)) and isinstance(a.targets[0] if isinstance(a, ast.Assign) else a.target, ast.Name)
                 and (a.value.value if isinstance(a.value, ast.Await) else a.value) is dc, f'{where}: `{DN.text()}` is not `<name> = await self._open_from(...)`')
        sv = (a.targets[0] if isinstance(a, ast.Assign) else a.target).id  # type: ignore[union-attr]
        after = g.reachable_from(DN)
        rets2 = [n for n in g.nodes if n.kind == 'return' and n.id in after]
        ctx.need(rets2 and all(isinstance(getattr(n.ast, 'value', None), ast.Name) and n.ast.value.id == sv for n in rets2), f'{where}: a return after `{DN.text()}` does not return `{sv}`')  # type: ignore[union-attr]
        wrappers: List[str] = []
        for v in pf.assignments(fn).get(sv, []):
            if v is a.value:
                continue
            ctx.need(isinstance(v, ast.Call) and isinstance(v.func, ast.Name) and v.args and isinstance(v.args[0], ast.Name) and v.args[0].id == sv,
                     f'{where}: `{sv}` is rebound by something that is not `<Wrapper>({sv}, ...)`')
            wrappers.append(v.func.id)  # type: ignore[union-attr]
        if not wrappers:
            ctx.ok('R3', rcons, f'{sv} = {pf.nsrc(a.value)}; return {sv}')
        else:
            sv_ = stream_verdicts or {}
            unknown = [w for w in wrappers if w not in sv_]
            ctx.need(not unknown, f'{where}: the back end stream is wrapped in {unknown}, which is not a ReadableStream implementation found under hailtop')
            if all(sv_[w] for w in wrappers):
                raise AnalysisError(f'{where}: the stream of every back end is wrapped in {wrappers}; read(-1) of the wrapper was decided (R6), its bounded-read / readexactly accounting is not analysed')
            ctx.ok('R3', rcons, f'wrapped in {wrappers}: see R6', nontrivial=False)
    # the abstract case "length == 0": every test that mentions the length is decided for it (declined when it cannot be); what is reachable
    # along the consistent edges is what an empty range executes
    ztests = {n.id: _truth_when_zero(n.ast, length) for n in g.nodes if n.kind == 'test' and n.ast is not None and length in pf.names_in(n.ast)}
    for nid, tv in ztests.items():
        ctx.need(tv is not None, f'{where}: test `{g.nodes[nid].text()}` not decided for {length} == 0')
    ctx.need(len(pf.assignments(fn).get(length, [])) == 1, f'{where}: `{length}` is rebound; not recognised')

    def zero_edge(a0: pf.Node, b0: pf.Node, lab: str) -> bool:
        return not (a0.id in ztests and lab in ('T', 'F') and (lab == 'T') != ztests[a0.id])

    zreach = g.reachable_from(g.entry, edge_ok=zero_edge)
    zcons = f'{where}::length == 0 never reaches _open_from'
    if not ztests:
        ctx.bad('R3', zcons, f'no `{length} == 0` short-circuit: an empty range is sent to the back ends, which build `bytes={{{start}}}-{{{start} - 1}}` / a zero-length '
                f'truncated stream', m.path, fn.lineno)
    else:
        Z = g.nodes[sorted(ztests)[0]]
        ctx.check(DN.id not in zreach, 'R3', zcons, f'with `{length} == 0` the call `{pf.nsrc(dc)}` is still reachable', m.path, Z.lineno)
        # the empty case returns an empty stream for an existing file
        zrets = [n for n in g.nodes if n.kind == 'return' and n.id in zreach and n is not DN]
        # returns that only the empty case can reach, unless every return is shared (then they are judged together)
        zonly = [n for n in zrets if not _reaches_without_zero(g, n, ztests)]
        zrets = zonly or zrets
        zvals = [pf.expand_locals(fn, n.ast.value) if getattr(n.ast, 'value', None) is not None else None for n in zrets]  # type: ignore[union-attr]
        zvals = [v.value if isinstance(v, ast.Await) else v for v in zvals]
        econs = f'{where}::empty range yields an empty stream'
        if any(isinstance(v, ast.Call) and (pf.dotted(v.func) or '').split('.')[-1] == 'EmptyReadableStream' for v in zvals):
            ctx.ok('R3', econs, {'returns': [pf.nsrc(v) for v in zvals if v is not None]})
        else:
            # evidence: the branch only raises / returns nothing; a value the analysis cannot name (a helper's result) is not evidence
            ctx.need(all(v is None or isinstance(v, ast.Constant) for v in zvals), f'{where}: what the `{length} == 0` branch returns ({[pf.nsrc(v) for v in zvals if v is not None]}) is not recognised')
            ctx.bad('R3', econs, f'the `{length} == 0` branch never returns EmptyReadableStream(): ' + ('it only raises' if not zvals else 'it returns no stream'), m.path, Z.lineno)
    ctx.unit('functions', 3)

    # readexactly implementations signal a short read
    # (closure: every ReadableStream implementation under hailtop; a readexactly that only hands the request to a blocking helper method of
    # its class is checked at that method, one that hands it to the wrapped stream's readexactly inherits that stream's behaviour)
    sites: List[Tuple[str, str]] = []
    for rel, mm, cls in _stream_classes():
        f0 = next((st for st in cls.body if isinstance(st, (ast.FunctionDef, ast.AsyncFunctionDef)) and st.name == 'readexactly'), None)
        if f0 is None:
            continue
        body0 = [st for st in f0.body if not (isinstance(st, ast.Expr) and isinstance(st.value, ast.Constant))]
        if all(isinstance(st, (ast.Pass, ast.Raise)) for st in body0) and cls.name == 'ReadableStream':
            continue  # abstract declaration
        qual = f'{cls.name}.readexactly'
        np0 = f0.args.args[1].arg if len(f0.args.args) > 1 else None
        last = body0[-1] if body0 else None
        c0 = last.value if isinstance(last, ast.Return) else None
        c0 = c0.value if isinstance(c0, ast.Await) else c0
        if isinstance(c0, ast.Call) and all(isinstance(st, ast.Assert) for st in body0[:-1]) and not any(isinstance(x, ast.Raise) for x in ast.walk(f0)):
            if (pf.dotted(c0.func) or '').split('.')[-1] == 'blocking_to_async' and len(c0.args) == 3 and isinstance(c0.args[1], ast.Attribute) and pf.nsrc(c0.args[1].value) == 'self' \
                    and pf.nsrc(c0.args[2]) == np0 and mm.has_func(f'{cls.name}.{c0.args[1].attr}'):
                qual = f'{cls.name}.{c0.args[1].attr}'
            elif isinstance(c0.func, ast.Attribute) and c0.func.attr == 'readexactly' and [pf.nsrc(a) for a in c0.args] == [np0] and not c0.keywords and pf.nsrc(c0.func.value).startswith('self.'):
                ctx.ok('R3', f'{rel}::{qual}::short read raises UnexpectedEOFError', f'delegates to `{pf.nsrc(c0)}`', nontrivial=False)
                continue
        sites.append((rel, qual))
    for rel, qual in sites:
        mm = _load(rel)
        # private helpers of the class (a short-read check that was extracted) are analysed inlined
        mm, f, _inl = _inline_private(mm, qual.split('.')[0], qual.split('.')[1])
        if any(isinstance(x, ast.While) for x in pf.walk_shallow(f)):
            # built from a loop over an at-most reader (the blocking adapter; a stream that re-implements readexactly on top of its read)
            _exact_read_loops(ctx, mm, qual, f)
        raises = [st for st in _stmts(f) if _is_eof_raise(st)]
        gg = pf.cfg(f)
        reach = gg.reachable_from(gg.entry)
        live = [r for r in raises if any(n.ast is r and n.id in reach for n in gg.nodes)]
        if not live:
            # "nothing here raises UnexpectedEOFError" is evidence only when nothing is out of sight: a call of another method of the object / of a
            # function of the module (other than the at-most read it is built on) may be the one that raises
            hidden = [c for c in pf.calls_in(f, into_nested_defs=True)
                      if (isinstance(c.func, ast.Attribute) and pf.nsrc(c.func.value) in ('self', 'super()') and c.func.attr != 'read') or (isinstance(c.func, ast.Name) and mm.has_func(c.func.id))]
            ctx.need(not hidden, f'{rel}::{qual}: no `raise UnexpectedEOFError` here; `{pf.nsrc(hidden[0])[:60] if hidden else ""}` may raise it; not analysed')
        ctx.check(bool(live), 'R3', f'{rel}::{qual}::short read raises UnexpectedEOFError', 'no reachable `raise UnexpectedEOFError`: a range that ends early is returned as if complete',
                  mm.path, f.lineno)
        # `data = await self.read(n)` followed by a length test: the test must reject every short read and no complete one
        nparam = f.args.args[1].arg if len(f.args.args) > 1 else None
        got = [(k, v[0]) for k, v in pf.assignments(f).items() if len(v) == 1 and isinstance(v[0], ast.expr)]
        for name, v in got:
            vv = v.value if isinstance(v, ast.Await) else v
            if not (isinstance(vv, ast.Call) and pf.dotted(vv.func) == 'self.read' and [pf.nsrc(a) for a in vv.args] == [nparam] and not vv.keywords):
                continue
            guards = [x for x in ast.walk(f) if isinstance(x, ast.If) and any(r in x.body for r in raises)]
            negate = False
            if not guards:
                # guard clause the other way round: `if <complete>: return data` directly followed by the raise
                for blk in [f.body] + [getattr(x, fld) for x in ast.walk(f) for fld in ('body', 'orelse') if isinstance(getattr(x, fld, None), list) and x is not f]:
                    for i, st0 in enumerate(blk[:-1]):
                        if isinstance(st0, ast.If) and not st0.orelse and st0.body and isinstance(st0.body[-1], ast.Return) and blk[i + 1] in raises:
                            guards.append(st0)
                            negate = True
            if len(guards) != 1 or any(isinstance(x, ast.While) for x in pf.walk_shallow(f)):
                continue
            t = _expand_except(f, guards[0].test, name)
            if negate:
                flip = {ast.Eq: ast.NotEq, ast.NotEq: ast.Eq, ast.Lt: ast.GtE, ast.GtE: ast.Lt, ast.Gt: ast.LtE, ast.LtE: ast.Gt}
                if isinstance(t, ast.UnaryOp) and isinstance(t.op, ast.Not):
                    t = t.operand
                elif isinstance(t, ast.Compare) and len(t.ops) == 1 and type(t.ops[0]) in flip:
                    t = ast.Compare(left=t.left, ops=[flip[type(t.ops[0])]()], comparators=t.comparators)
                else:
                    continue
            cons = f'{rel}::{qual}::short read test'
            want = linform.sym(f'len({name})') - linform.sym(nparam)
            ctx.need(isinstance(t, ast.Compare) and len(t.ops) == 1, f'{rel}::{qual}: short-read test `{pf.nsrc(t)}` not recognised')
            try:
                if isinstance(t.ops[0], ast.NotEq):
                    d0 = linform.lin(t.left) - linform.lin(t.comparators[0])
                    ctx.need(d0 == want or d0 == -want, f'{rel}::{qual}: short-read test `{pf.nsrc(t)}` not recognised')
                    ctx.ok('R3', cons, pf.nsrc(t))
                else:
                    le0 = linform.cmp_le0(t)
                    if (le0 + want).is_const():  # the test holds when len(data) - n >= c: never for a short read only
                        ctx.bad('R3', cons, f'`if {pf.nsrc(t)}: raise UnexpectedEOFError` does not hold for a short read (len({name}) < {nparam}): a range that ends early is '
                                f'returned as if complete', mm.path, guards[0].lineno)
                        continue
                    dd = le0 - (want + linform.const(1))
                    ctx.need(dd.is_const(), f'{rel}::{qual}: short-read test `{pf.nsrc(t)}` not recognised')
                    ctx.check(dd == linform.const(0), 'R3', cons,
                              f'`if {pf.nsrc(t)}: raise UnexpectedEOFError` is not `len({name}) < {nparam}`: ' +
                              (f'a read that is up to {dd.const} byte(s) short is returned as complete' if dd.const > 0 else 'a complete read raises UnexpectedEOFError'),
                              mm.path, guards[0].lineno, detail=pf.nsrc(t))
            except AnalysisError as e:
                raise AnalysisError(f'{rel}::{qual}: short-read test `{pf.nsrc(t)}` not linear ({e})')
    ctx.unit('functions', 5)


# ------------------------------------------------------------------------------------------------
# R6 read() == everything up to the end, for every ReadableStream implementation
# ------------------------------------------------------------------------------------------------

def _sentinel_truth(t: ast.AST, n: str) -> Optional[bool]:
    """Truth of a test for the abstract case `n is the read-all sentinel (-1)`; None when the test does not only depend on that."""
    if isinstance(t, ast.UnaryOp) and isinstance(t.op, ast.Not):
        v = _sentinel_truth(t.operand, n)
        return None if v is None else not v
    if isinstance(t, ast.BoolOp):
        vs = [_sentinel_truth(x, n) for x in t.values]
        if isinstance(t.op, ast.And):
            return False if any(v is False for v in vs) else (True if all(v is True for v in vs) else None)
        return True if any(v is True for v in vs) else (False if all(v is False for v in vs) else None)
    if isinstance(t, ast.Name) and t.id == n:
        return True
    if isinstance(t, ast.Compare) and len(t.ops) == 1:
        l, r, op = t.left, t.comparators[0], t.ops[0]

        def ival(x: ast.AST) -> Optional[int]:
            if isinstance(x, ast.Constant) and isinstance(x.value, int) and not isinstance(x.value, bool):
                return x.value
            if isinstance(x, ast.UnaryOp) and isinstance(x.op, ast.USub):
                v = ival(x.operand)
                return None if v is None else -v
            return None
        if isinstance(l, ast.Name) and l.id == n and isinstance(r, ast.Constant) and r.value is None and isinstance(op, (ast.Is, ast.IsNot, ast.Eq, ast.NotEq)):
            return isinstance(op, (ast.IsNot, ast.NotEq))
        a = -1 if isinstance(l, ast.Name) and l.id == n else ival(l)
        b = -1 if isinstance(r, ast.Name) and r.id == n else ival(r)
        if a is None or b is None or not (pf.names_in(t) == {n}):
            return None
        table = {ast.Eq: a == b, ast.NotEq: a != b, ast.Lt: a < b, ast.LtE: a <= b, ast.Gt: a > b, ast.GtE: a >= b}
        return table.get(type(op))
    return None


def _stream_classes() -> List[Tuple[str, pf.Module, ast.ClassDef]]:
    """Classes under hailtop derived (by base name, transitively) from ReadableStream."""
    allc: List[Tuple[str, pf.Module, ast.ClassDef]] = []
    for rel in pf.walk_py(SCAN_DIRS):
        m = _load(rel)
        for cls in m.classes():
            allc.append((rel, m, cls))
    derived = {'ReadableStream'}
    changed = True
    while changed:
        changed = False
        for _rel, _m, cls in allc:
            if cls.name not in derived and any((pf.dotted(b) or '').split('.')[-1] in derived for b in cls.bases):
                derived.add(cls.name)
                changed = True
    return [(rel, m, cls) for rel, m, cls in allc if cls.name in derived]


def _read_all_contract(ctx: Ctx, verdicts: Dict[str, bool]) -> None:
    """`read()` / `read(-1)` means "all bytes up to the end" (the comment on ReadableStream.read; read_from and every
    `open_from(..., length=L)` + `read()` rely on it), `read(k)` means "AT MOST k bytes".  For every ReadableStream implementation
    the paths of `read` are enumerated for the abstract case n = the sentinel: what is returned must be a constant, the result of
    a read-all primitive (`x.read()`, `x.read(-1)`, `x.read(n)` with n still the sentinel, `x.readall()`, a blocking `f.read`
    without a count) or the join of a loop that reads until nothing is left - never the result of one bounded `await x.read(k)`."""
    n_impl = 0
    for rel, m, cls in _stream_classes():
        rd = next((st for st in cls.body if isinstance(st, (ast.FunctionDef, ast.AsyncFunctionDef)) and st.name == 'read'), None)
        where = f'{rel}::{cls.name}.read'
        if rd is None:
            ctx.need(cls.name == 'ReadableStream' or any((pf.dotted(b) or '').split('.')[-1] != 'ReadableStream' for b in cls.bases), f'{where}: not defined')
            continue
        body = [st for st in rd.body if not (isinstance(st, ast.Expr) and isinstance(st.value, ast.Constant))]
        if all(isinstance(st, (ast.Pass, ast.Raise)) for st in body):
            continue  # abstract declaration
        ps = [a.arg for a in rd.args.args]
        ctx.need(len(ps) == 2 and not rd.args.kwonlyargs and not rd.args.vararg and not rd.args.kwarg, f'{where}: signature changed: {ps}')
        n = ps[1]
        n_impl += 1
        g = pf.cfg(rd)
        loops = [st for st in pf.walk_shallow(rd) if isinstance(st, (ast.While, ast.For, ast.AsyncFor))]

        def in_loop(node: ast.AST) -> Optional[ast.AST]:
            for lp in loops:
                if any(x is node for x in ast.walk(lp)):
                    return lp
            return None

        problems: List[Tuple[str, int]] = []
        oks: List[str] = []
        State = Tuple[bool, Optional[ast.AST]]  # (n still holds the caller's argument, its last definition)

        def classify(e: ast.AST, env: Dict[str, Tuple[ast.AST, State]], st: State, depth: int = 0) -> None:
            ctx.need(depth < 6, f'{where}: returned value too indirect')
            awaited = False
            if isinstance(e, ast.Await):
                e, awaited = e.value, True
            if isinstance(e, ast.Name) and e.id in env:
                v, st0 = env[e.id]
                return classify(v, env, st0, depth + 1)
            if isinstance(e, ast.Constant) and isinstance(e.value, bytes):
                oks.append(pf.nsrc(e))
                return
            if isinstance(e, ast.Call) and pf.dotted(e.func) in ('bytes', 'bytearray') and len(e.args) == 1 and not e.keywords:
                return classify(e.args[0], env, st, depth + 1)
            if isinstance(e, ast.Call) and pf.dotted(e.func) in ('bytes', 'bytearray') and not e.args and not e.keywords:
                oks.append(pf.nsrc(e))
                return
            if isinstance(e, ast.BinOp) and isinstance(e.op, ast.Add) and not awaited:
                # <bytes already buffered> + <the rest>: the rest must be a read-all
                ctx.need(not any(isinstance(x, (ast.Call, ast.Await)) for x in ast.walk(e.left)), f'{where}: `{pf.nsrc(e.left)}` in `{pf.nsrc(e)}` not recognised as buffered data')
                return classify(e.right, env, st, depth + 1)
            if isinstance(e, ast.Call):
                f = e.func
                fname = pf.dotted(f) or ''
                recv_call: Optional[ast.Call] = None
                count: Optional[ast.AST] = None
                has_count = False
                if fname.split('.')[-1] == 'blocking_to_async' and len(e.args) >= 2 and isinstance(e.args[1], ast.Attribute) and e.args[1].attr in ('read', 'readall') and not e.keywords:
                    ctx.need(len(e.args) <= 3, f'{where}: `{pf.nsrc(e)}` not recognised')
                    if len(e.args) == 2:
                        oks.append(pf.nsrc(e))
                        return
                    count, has_count, recv_call = e.args[2], True, e
                    awaited = False  # a blocking file read: at-most or exactly-unless-EOF depends on the file object
                elif isinstance(f, ast.Attribute) and f.attr == 'readall' and not e.args and not e.keywords:
                    oks.append(pf.nsrc(e))
                    return
                elif isinstance(f, ast.Attribute) and f.attr == 'read':
                    ctx.need(not e.keywords and len(e.args) <= 1 and not any(isinstance(a, ast.Starred) for a in e.args), f'{where}: `{pf.nsrc(e)}` not recognised')
                    if not e.args:
                        oks.append(pf.nsrc(e))
                        return
                    count, has_count, recv_call = e.args[0], True, e
                elif isinstance(f, ast.Attribute) and f.attr == 'join' and isinstance(f.value, ast.Constant) and f.value.value == b'' and len(e.args) == 1 and isinstance(e.args[0], ast.Name):
                    _accumulating_loop(ctx, rd, where, e.args[0].id, loops)
                    oks.append(pf.nsrc(e))
                    return
                hops = 0
                while has_count and hops < 6:
                    hops += 1
                    if isinstance(count, ast.IfExp) and st[0] and _sentinel_truth(count.test, n) is not None:
                        count = count.body if _sentinel_truth(count.test, n) else count.orelse
                    elif isinstance(count, ast.Name) and count.id != n and count.id in env:
                        count, st = env[count.id]  # a local holding the count: its value, and what n was where it was defined
                    else:
                        break
                if has_count and recv_call is not None and count is not None:
                    if pf.nsrc(count) == '-1' or (isinstance(count, ast.Constant) and count.value is None):
                        oks.append(pf.nsrc(e))
                        return
                    if isinstance(count, ast.Name) and count.id == n and st[0]:
                        oks.append(pf.nsrc(e) + f' ({n} is the caller\'s -1)')
                        return
                    ctx.need(in_loop(recv_call) is None, f'{where}: `{pf.nsrc(e)}` inside a loop on the read-all path; accumulation not recognised')
                    # evidence for "bounded": a count that does not come from the caller's -1 (a constant, a field, a rebound n with a known value)
                    ctx.need(not (n in pf.names_in(count) and (st[0] or st[1] is None)), f'{where}: the count `{pf.nsrc(count)}` of `{pf.nsrc(e)}` depends on `{n}` in a way that is not recognised')
                    ctx.need(not any(isinstance(x, ast.Name) and x.id != n and x.id not in env and len(pf.assignments(rd).get(x.id, [])) > 1 for x in ast.walk(count)),
                             f'{where}: the count `{pf.nsrc(count)}` of `{pf.nsrc(e)}` is a local bound in several places; not recognised')
                    ctx.need(awaited, f'{where}: blocking `{pf.nsrc(e)}` with a count on the read-all path: whether it stops early depends on the file object; not decided')
                    cnt = pf.nsrc(count)
                    if isinstance(count, ast.Name) and count.id == n and st[1] is not None:
                        cnt = f'{n} = {pf.nsrc(st[1])}'
                    problems.append((f'for read() / read(-1) ("all bytes up to the end") the method returns the result of ONE `{pf.nsrc(e)}` with the count {cnt}: ReadableStream.read(k) / '
                                     f'aiohttp StreamReader.read(k) return AT MOST k bytes - as soon as any data has arrived - so open_from(url, s, length=L) followed by read() yields only the '
                                     f'first piece of the range that happens to be buffered (e.g. 1400 of 5000 bytes on GCS), silently; a read-all must loop until nothing is left or use '
                                     f'a read-all primitive', e.lineno))
                    return
            raise AnalysisError(f'{where}: value returned for read(-1), `{pf.nsrc(e)}`, not recognised')

        n_paths = [0]

        def walk(node: pf.Node, env: Dict[str, Tuple[ast.AST, State]], st: State, seen: Tuple[int, ...]) -> None:
            ctx.need(len(seen) < 300 and n_paths[0] < 200, f'{where}: too many paths')
            a = node.ast
            if node.kind == 'return':
                n_paths[0] += 1
                v = getattr(a, 'value', None)
                ctx.need(v is not None, f'{where}: returns None for read(-1)')
                classify(v, env, st)
                return
            env2, st2 = env, st
            if node.kind == 'stmt' and isinstance(a, (ast.Assign, ast.AnnAssign)) and getattr(a, 'value', None) is not None:
                tgts = a.targets if isinstance(a, ast.Assign) else [a.target]
                for t in tgts:
                    if isinstance(t, ast.Name):
                        if t.id == n:
                            st2 = (False, a.value)
                        else:
                            env2 = {**env2, t.id: (a.value, st)}
                    else:
                        for x in ast.walk(t):
                            if isinstance(x, ast.Name) and isinstance(x.ctx, ast.Store):
                                env2 = {k: v for k, v in env2.items() if k != x.id}
                                if x.id == n:
                                    st2 = (False, None)
            elif node.kind == 'stmt' and isinstance(a, ast.AugAssign) and isinstance(a.target, ast.Name):
                if a.target.id == n:
                    st2 = (False, None)
                else:
                    env2 = {k: v for k, v in env2.items() if k != a.target.id}
            elif node.kind in ('loop', 'with') and a is not None:
                bound = set()
                for x in ast.walk(a.target if isinstance(a, (ast.For, ast.AsyncFor)) else ast.Module(body=[], type_ignores=[])):
                    if isinstance(x, ast.Name):
                        bound.add(x.id)
                if isinstance(a, (ast.With, ast.AsyncWith)):
                    for it in a.items:
                        if it.optional_vars is not None:
                            bound |= {x.id for x in ast.walk(it.optional_vars) if isinstance(x, ast.Name)}
                if bound:
                    env2 = {k: v for k, v in env2.items() if k not in bound}
                    if n in bound:
                        st2 = (False, None)
            tv: Optional[bool] = None
            if node.kind == 'test' and a is not None and st[0]:
                tv = _sentinel_truth(a, n)
            for nxt, lab in node.succ:
                if lab == 'exc' or nxt is g.raise_exit or nxt.id in seen or nxt.kind == 'raise':
                    continue
                if tv is not None and lab in ('T', 'F') and (lab == 'T') != tv:
                    continue
                if nxt is g.exit:
                    ctx.need(node.kind == 'return', f'{where}: falls off the end (returns None) for read(-1)')
                    continue
                walk(nxt, env2, st2, seen + (node.id,))

        walk(g.entry, {}, (True, None), ())
        ctx.need(n_paths[0] > 0, f'{where}: no path returns a value for read(-1)')
        ctx.unit('read_all_paths', n_paths[0])
        cons = f'{where}::read(-1) returns everything up to the end'
        if problems:
            uniq = []
            for p_ in problems:
                if p_ not in uniq:
                    uniq.append(p_)
            ctx.bad('R6', cons, uniq[0][0], m.path, uniq[0][1], extra=[x[0] for x in uniq])
        else:
            ctx.ok('R6', cons, {'paths': n_paths[0], 'returns': sorted(set(oks))})
        verdicts[cls.name] = not problems
    ctx.unit('stream_classes', n_impl)


def _accumulating_loop(ctx: Ctx, rd: pf.FuncDef, where: str, acc: str, loops: List[ast.AST]) -> None:
    """`return b''.join(acc)`: acc starts empty and is filled by ONE loop that appends every block it reads and is left only when a read
    returned nothing, or when its own count of outstanding bytes (decremented by every block) reaches zero.  Anything else: declined."""
    d = [v for v in pf.assignments(rd).get(acc, [])]
    ctx.need(len(d) == 1 and isinstance(d[0], ast.List) and not d[0].elts, f'{where}: `{acc}` does not start as an empty list')
    mine = [lp for lp in loops if any(isinstance(x, ast.Call) and isinstance(x.func, ast.Attribute) and x.func.attr == 'append' and pf.nsrc(x.func.value) == acc for x in ast.walk(lp))]
    ctx.need(len(mine) == 1 and isinstance(mine[0], ast.While) and not mine[0].orelse, f'{where}: `{acc}` is not filled by exactly one while loop')
    lp = mine[0]
    reads = [st for st in lp.body if isinstance(st, ast.Assign) and len(st.targets) == 1 and isinstance(st.targets[0], ast.Name) and isinstance(st.value, ast.Await)
             and isinstance(st.value.value, ast.Call) and isinstance(st.value.value.func, ast.Attribute) and st.value.value.func.attr == 'read']
    ctx.need(len(reads) == 1, f'{where}: the loop filling `{acc}` does not bind exactly one awaited read')
    rv = reads[0].targets[0].id  # type: ignore[attr-defined]
    apps = [st for st in lp.body if isinstance(st, ast.Expr) and isinstance(st.value, ast.Call) and pf.nsrc(st.value.func) == f'{acc}.append' and [pf.nsrc(a) for a in st.value.args] == [rv]]
    ctx.need(len(apps) == 1, f'{where}: not every block read is appended to `{acc}`')
    for br in [x for x in ast.walk(lp) if isinstance(x, (ast.Break, ast.Return, ast.Continue))]:
        guard = [st for st in lp.body if isinstance(st, ast.If) and br in st.body and not st.orelse]
        ok = len(guard) == 1 and isinstance(br, ast.Break) and c23norm.emptiness(guard[0].test, rv) is True and lp.body.index(guard[0]) > lp.body.index(reads[0])
        ctx.need(ok, f'{where}: the loop filling `{acc}` is left by `{pf.nsrc(br)}` under a condition that is not "the read returned nothing"')
    if isinstance(lp.test, ast.Constant) and lp.test.value is True:
        return
    try:
        cond = linform.cmp_le0(lp.test)
    except AnalysisError:
        cond = None
    ctx.need(cond is not None and len(cond.symbols()) == 1 and cond == linform.const(1) - linform.sym(cond.symbols()[0]), f'{where}: condition of the loop filling `{acc}` not recognised')
    c = cond.symbols()[0]  # type: ignore[union-attr]
    decs = [st for st in lp.body if isinstance(st, ast.AugAssign) and pf.nsrc(st.target) == c]
    ctx.need(len(decs) == 1 and isinstance(decs[0].op, ast.Sub) and pf.nsrc(decs[0].value) == f'len({rv})', f'{where}: `{c}` is not counted down by every block read')


# ------------------------------------------------------------------------------------------------
# R4 buffer accounting of buffered readers
# ------------------------------------------------------------------------------------------------

def _buffers(ctx: Ctx) -> None:
    n_cls = 0
    for rel in pf.walk_py(SCAN_DIRS):
        m = pf.load(rel)
        for cls in m.classes():
            if not c23facts.read_path(cls):
                continue
            n_cls += 1
            for b in c23facts.buffer_fields(cls):
                r = c23facts.analyse_buffer(rel, cls, b)
                if r is None:
                    continue
                for c in r.checks:
                    cons = f'{rel}::{cls.name}::buffer {b}::{c.role}'
                    if c.ok:
                        ctx.ok('R4', cons, {'representation': r.rep, 'position': r.cursor, 'detail': c.detail})
                    else:
                        ctx.bad('R4', cons, c.message, m.path, c.line)
                if r.declined and all(c.ok for c in r.checks):
                    raise AnalysisError(r.declined[0])
    ctx.unit('reader_classes', n_cls)


# ------------------------------------------------------------------------------------------------
# R5 delivery of the Range (and of alt=media) to the request primitive
# ------------------------------------------------------------------------------------------------

def _deliver(ctx: Ctx, uni: 'c23facts.Universe', rel: str, cls: str, req: Optional[ast.Call], kwname: str, inner: Optional[str], also_origin: Optional[Tuple[str, str]] = None) -> None:
    m = pf.load(rel)
    fn = m.func(f'{cls}._open_from')
    what = f"{kwname}[{inner!r}]" if inner else kwname
    cons = f'{rel}::{cls}._open_from::{what} reaches the request'
    if req is None:
        ctx.ok('R5', cons, 'not evaluated: no Range is built (see R1)', nontrivial=False)
        if also_origin:
            ctx.ok('R5', f'{rel}::{cls}._open_from::{also_origin[0]}[{also_origin[1]!r}] reaches the request', 'not evaluated (see R1)', nontrivial=False)
        return

    def report(d: 'c23facts.Delivery', cons: str) -> None:
        ctx.unit('functions_followed', len(d.chain))
        if d.problems:
            for p in d.problems:
                ctx.bad('R5', f'{p.where}::{d._what()} kept', p.text + '. ' + consequence, p.file, p.line, extra={'chain': d.chain})
        else:
            ctx.need(d.primitives, f'{cons}: no request primitive reached')
            ctx.ok('R5', cons, {'chain': d.chain, 'request primitives': d.primitives, 'set at': d.origins or None})

    consequence = ('The storage service then answers with the whole object: a ranged read returns the bytes from offset 0 (right length through readexactly, wrong bytes) '
                   'or the whole object, e.g. read_range(url, 10, 19) yields object[0:10] instead of object[10:20]')
    try:
        d = c23facts.Delivery(uni, kwname, inner)
        d.start_at_call(rel, m.cls(cls), fn, req, kwname)
        report(d, cons)
        if also_origin:
            k2, i2 = also_origin
            cons2 = f'{rel}::{cls}._open_from::{k2}[{i2!r}] reaches the request'
            consequence = 'Without alt=media the JSON API answers with the object metadata instead of its content: every read returns the wrong bytes'
            fc = c23facts._Fctx(c23facts.FuncRef(rel, m.cls(cls), fn), {})
            targets = [t for t in d.resolve(fc, req.func, c23facts._St()) if isinstance(t, c23facts.FuncRef)]
            ctx.need(len(targets) == 1, f'{cons2}: the callee of `{pf.nsrc(req.func)}` is not a single function of the analysed packages')
            d2 = c23facts.Delivery(uni, k2, i2, origin=True)
            d2.start_in_function(targets[0], [k.arg for k in req.keywords if k.arg])
            report(d2, cons2)
    except c23facts.Decline as e:
        raise AnalysisError(f'{cons}: {e}')


def run(ctx: Ctx) -> None:
    ctx.level = 'other'
    ctx.explanation = ('Every concrete _open_from under hailtop is located (closure scan) and its request construction normalised: Range templates as string parts with the end '
                       'offset in linear normal form on every CFG path, SDK calls for unchanged (offset, length), local truncation and front-end span arithmetic in linear normal form. '
                       'The carrier of the Range (GCS headers dict, S3 keyword) and the GCS alt=media parameter are followed by an abstract execution over alias groups through every '
                       'function that may be called down to the request primitive. Every buffered reader is checked for one consistent representation of its unconsumed bytes; every '
                       'reader method of the truncating wrapper for the cap limit - offset; every ReadableStream.read for the read-all contract on the paths of the sentinel case.')
    ctx.rule('R0', 'the concrete _open_from implementations under hailtop are exactly local, router, GCS, S3, Azure, each naming (url, start) in the declared order', 6)
    ctx.rule('R1', 'HTTP Range = bytes={start}- without length and bytes={start}-{start+length-1} with length on every path, and it is sent', 4)
    ctx.rule('R2', 'Azure passes offset/length unchanged at every download_blob; local seeks to start and truncates to length (every reader method of the wrapper capped by limit-offset, offset advances); router delegates unchanged', 9)
    ctx.rule('R3', 'read_range: n = end-start+inclusive, open_from(length=n), readexactly(n); read_from reads to the end; open_from short-circuits length==0, forwards unchanged and returns '
                   'the back end stream; readexactly raises UnexpectedEOFError on short reads (test `len(data) != n` / `< n` in linear form; blocking loops: outstanding-bytes normal form)', 13)
    ctx.assume('HTTP Range `bytes=a-b` is inclusive on both ends; azure download_blob(offset, length) returns exactly that span; file.read(n) returns at most n bytes')
    ctx.rule('R4', 'buffered stream readers use one representation of their unconsumed bytes (len(buffer), or len(buffer) - position) in refill tests, caps, '
                   'hand-out slices, consumption and reset', 9)
    ctx.rule('R5', 'the Range built by _open_from (GCS headers / S3 keyword) and GCS alt=media reach the request primitive: no function on the may-call chain replaces, '
                   'strips or stops forwarding the carrier', 3)
    ctx.rule('R6', 'every ReadableStream implementation under hailtop returns for read() / read(-1) everything up to the end of its stream: a constant, a read-all '
                   'primitive or a loop that reads until nothing is left - never the result of one bounded (at-most) read', 4)
    ctx.assume('mappings of unknown content merged into the request headers / params (auth headers, default params) do not carry a Range / alt entry; '
               'decorator-free functions of hailtop are called as written; calls on objects constructed by packages outside hailtop are the request primitives')
    errors: List[str] = []
    reqs: Dict[str, Optional[ast.Call]] = {}

    def section(f, *a) -> None:
        # one unrecognised shape must not hide a violation that another section can establish
        try:
            r = f(ctx, *a)
            if f is _range_backend:
                reqs[a[0]] = r
        except AnalysisError as e:
            errors.append(str(e))

    section(_closure)
    section(_range_backend, GCS, 'GoogleStorageAsyncFS', _gcs_pred, _gcs_carrier)
    section(_range_backend, S3, 'S3AsyncFS', _s3_pred, _s3_carrier)
    section(_azure)
    section(_local)
    section(_router)
    verdicts: Dict[str, bool] = {}
    section(_read_all_contract, verdicts)
    section(_front, verdicts)
    section(_buffers)
    uni = c23facts.Universe()
    ctx.unit('modules_in_call_universe', len(uni.mods))
    if GCS in reqs:
        section(_deliver, uni, GCS, 'GoogleStorageAsyncFS', reqs[GCS], 'headers', 'Range', ('params', 'alt'))
    if S3 in reqs:
        section(_deliver, uni, S3, 'S3AsyncFS', reqs[S3], 'Range', None)
    ctx.unit('files', 7)
    if errors:
        raise AnalysisError(errors[0] + (f' (+{len(errors) - 1} more: {"; ".join(errors[1:3])})' if len(errors) > 1 else ''))
