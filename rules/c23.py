"""C23 Ranged reads return exactly the requested bytes.

Decides (from the syntax trees of hailtop/aiotools/fs/{fs,stream}.py, aiotools/{local_fs,router_fs}.py, aiocloud/*/…; nothing is run):
  R1  HTTP back ends (GCS, S3): on every path to the request the Range value is `bytes={start}-` when no length is given and
      `bytes={start}-{E}` with E = start + length - 1 (linear normal form) when one is; the value is what is sent
      (headers={'Range': …} / Range=…)
  R2  SDK / stream back ends pass (start, length) through unchanged: Azure hands offset=start, length=length to its stream and every
      download_blob call of that stream passes offset=self._offset and length=self._length; local seeks to `start` from the beginning
      and wraps the file in TruncatedReadableBinaryIO(limit=length) whose read is capped by limit - offset on every path and whose offset
      advances by the bytes returned; the router delegates open_from(url, start, length=length)
  R3  front end: read_range computes n = end - start + [end_inclusive] and uses open_from(url, start, length=n) + readexactly(n);
      read_from uses open_from(url, start) + read(); open_from never reaches _open_from with length == 0 and otherwise forwards
      (url, start, length=length) unchanged; every readexactly implementation signals UnexpectedEOFError on a short read
  R0  closure: the set of concrete `_open_from` implementations under hailtop is exactly the analysed one, and every override names
      its positional parameters in the order of the abstract declaration (callers pass url, start positionally, length by keyword)
  R4  buffer accounting inside every buffered stream reader under hailtop (engines/c23facts part A): the representation of "unconsumed
      bytes" is derived from the consumption statements of the class (bytes dropped from the buffer: len(buffer); a position advanced:
      len(buffer) - pos) and every use - the counts compared with a requested size in refill tests and caps, the slices handed out, the
      amount consumed, buffer replacement paired with position reset - is compared with that ONE representation in linear normal form;
      a use written in the other representation makes a read that straddles a chunk boundary come back short (taken for EOF)
  R5  delivery (engines/c23facts part B): the Range built by `_open_from` (GCS: headers={'Range': ...}; S3: Range=...) and the GCS
      `alt=media` parameter reach the request primitive: an abstract execution over alias groups follows the keyword dict through every
      function that may be called (class hierarchy, attribute types from __init__, retry / executor combinators, closures) and reports
      any statement that replaces the carrying mapping (`kwargs['headers'] = {...}`), overwrites / removes the entry, or stops
      passing it on, on a path the presence facts do not exclude
Does not decide: server / SDK behaviour for a well-formed request; seeking inside a truncated stream; transport-level content decoding.
"""
from __future__ import annotations

import ast
from typing import Dict, List, Optional, Tuple

from engines import c23facts, linform, pyfacts as pf, strparts
from engines.common import AnalysisError, Ctx

META = dict(
    category='other',
    text='Sibling agreement across every concrete _open_from: the HTTP Range templates are normalised (string parts + linear normal form of the end offset) on '
         'every CFG path to the request, SDK back ends are checked for passing (offset, length) unchanged at every download call, and the local truncation '
         'arithmetic and the front-end span arithmetic are compared in linear normal form; the Range carrier is followed (abstract execution over alias groups) from '
         '_open_from to the request primitive; buffered readers are checked for one consistent representation of their unconsumed bytes. Necessary conditions only.',
    note='Trusted: CPython ast; engines/pyfacts CFG; engines/linform; engines/c23facts (buffer accounting, delivery); HTTP Range semantics (inclusive end); azure '
         'download_blob(offset, length); file.seek/read; may-call resolution by class hierarchy and __init__ attribute types inside hailtop.aiocloud / aiotools / utils / httpx; '
         'mappings of unknown content merged into headers / params carry no Range / alt entry.',
    technique='static analysis: sibling agreement, string-template normalisation, linear normal forms, CFG path enumeration, representation-invariant '
              'consistency of buffer accounting, abstract execution over alias groups along the may-call chain (def-use of the Range carrier)',
    design_ref='DESIGN.md §3 C23',
)

FS = 'hail/python/hailtop/aiotools/fs/fs.py'
ST = 'hail/python/hailtop/aiotools/fs/stream.py'
LOC = 'hail/python/hailtop/aiotools/local_fs.py'
RT = 'hail/python/hailtop/aiotools/router_fs.py'
GCS = 'hail/python/hailtop/aiocloud/aiogoogle/client/storage_client.py'
S3 = 'hail/python/hailtop/aiocloud/aioaws/fs.py'
AZ = 'hail/python/hailtop/aiocloud/aioazure/fs.py'

IMPLS = {  # file -> class
    LOC: 'LocalAsyncFS', RT: 'RouterAsyncFS', GCS: 'GoogleStorageAsyncFS', S3: 'S3AsyncFS', AZ: 'AzureAsyncFS',
}
SCAN_DIRS = ['hail/python/hailtop/aiotools', 'hail/python/hailtop/aiocloud', 'hail/python/hailtop/fs']


def _stmts(fn: ast.AST) -> List[ast.stmt]:
    return [n for n in pf.walk_shallow(fn) if isinstance(n, ast.stmt) and n is not fn]


def _sig(ctx: Ctx, fn: pf.FuncDef, where: str) -> Tuple[str, str, str]:
    a = [x.arg for x in fn.args.args]
    kw = [x.arg for x in fn.args.kwonlyargs]
    ctx.need(len(a) == 3 and kw == ['length'] or (len(a) == 4 and a[3] == 'length'), f'{where}: signature changed: {a} / {kw}')
    return a[1], a[2], 'length'


def _given_label(t: ast.AST, length: str) -> Optional[str]:
    """Label of the edge on which `length` is known to be given (not None)."""
    if isinstance(t, ast.Compare) and len(t.ops) == 1 and isinstance(t.left, ast.Name) and t.left.id == length \
            and isinstance(t.comparators[0], ast.Constant) and t.comparators[0].value is None:
        if isinstance(t.ops[0], (ast.IsNot, ast.NotEq)):
            return 'T'
        if isinstance(t.ops[0], (ast.Is, ast.Eq)):
            return 'F'
    if isinstance(t, ast.Name) and t.id == length:
        return 'T'
    if isinstance(t, ast.UnaryOp) and isinstance(t.op, ast.Not) and isinstance(t.operand, ast.Name) and t.operand.id == length:
        return 'F'
    return None


# ------------------------------------------------------------------------------------------------
# R0 closure
# ------------------------------------------------------------------------------------------------

def _closure(ctx: Ctx) -> None:
    found: Dict[str, List[str]] = {}
    n_files = 0
    for rel in pf.walk_py(SCAN_DIRS):
        n_files += 1
        m = pf.load(rel)
        for cls in m.classes():
            for st in cls.body:
                if isinstance(st, (ast.FunctionDef, ast.AsyncFunctionDef)) and st.name == '_open_from':
                    body = [s for s in st.body if not (isinstance(s, ast.Expr) and isinstance(s.value, ast.Constant))]
                    if all(isinstance(s, (ast.Pass, ast.Raise)) for s in body):
                        continue  # abstract declaration
                    found.setdefault(rel, []).append(cls.name)
    ctx.unit('files_scanned', n_files)
    want = {k: [v] for k, v in IMPLS.items()}
    extra = {k: v for k, v in found.items() if want.get(k) != v}
    missing = [k for k in want if k not in found]
    ctx.need(not extra and not missing, f'the set of concrete _open_from implementations changed: unexpected {extra}, missing {missing} (analyse the new back end before claiming C23)')
    ctx.ok('R0', 'hailtop::concrete _open_from implementations', {'implementations': found})
    # callers pass (url, start) positionally and length by keyword: every override must name its parameters in the declared order
    decl = pf.load(FS).func('AsyncFS._open_from')
    dnames = [a.arg for a in decl.args.args][1:]
    ctx.need(len(dnames) == 2 and [a.arg for a in decl.args.kwonlyargs] == ['length'], f'{FS}::AsyncFS._open_from: declaration changed')
    for rel, cls in IMPLS.items():
        m = pf.load(rel)
        fn = m.func(f'{cls}._open_from')
        names = [a.arg for a in fn.args.args][1:]
        cons = f'{rel}::{cls}._open_from::parameter order'
        if sorted(names[:2]) == sorted(dnames) and names[:2] != dnames:
            ctx.bad('R0', cons, f'the override takes ({", ".join(names)}) but AsyncFS.open_from / the router call `_open_from(url, start, length=...)` positionally: '
                    f'`{dnames[0]}` receives the offset and `{dnames[1]}` the URL', m.path, fn.lineno)
        else:
            ctx.ok('R0', cons, names)


# ------------------------------------------------------------------------------------------------
# R1 HTTP Range back ends
# ------------------------------------------------------------------------------------------------

def _range_backend(ctx: Ctx, rel: str, cls: str, request_pred, carrier) -> Optional[ast.Call]:
    """Returns the request call when it carries a Range (for the delivery rule R5)."""
    m = pf.load(rel)
    fn = m.func(f'{cls}._open_from')
    where = f'{rel}::{cls}._open_from'
    url, start, length = _sig(ctx, fn, where)
    g = pf.cfg(fn)
    reqs = [c for c in pf.calls_in(fn) if request_pred(c)]
    ctx.need(len(reqs) == 1, f'{where}: expected one storage request, found {len(reqs)}')
    req = reqs[0]
    rn = g.node_of(req)
    ctx.need(len(rn) == 1, f'{where}: request node')
    REQ = rn[0]
    val = carrier(req)
    cons = f'{where}::Range'
    if val is None:
        ctx.bad('R1', cons + '::sent', f'`{pf.nsrc(req)}` carries no Range: the whole object is returned instead of the bytes from `{start}`', m.path, req.lineno)
        ctx.ok('R1', cons + '::value', 'not evaluated: nothing is sent', nontrivial=False)
        return None
    ctx.ok('R1', cons + '::sent', pf.nsrc(val))

    # enumerate the paths entry -> request, evaluating the Range variable symbolically
    tests = {n.id: _given_label(n.ast, length) for n in g.nodes if n.kind == 'test' and n.ast is not None and length in pf.names_in(n.ast)}
    for nid, lab in tests.items():
        ctx.need(lab is not None, f'{where}: test on `{length}` not recognised: `{g.nodes[nid].text()}`')
    results: List[Tuple[Optional[bool], List[strparts.Part], str]] = []

    def ev(e: ast.AST, env: Dict[str, List[strparts.Part]]) -> List[strparts.Part]:
        out: List[strparts.Part] = []
        for kind, txt in strparts.parts(e):
            if kind == 'expr' and txt in env:
                out += env[txt]
            else:
                out.append((kind, txt))
        # merge literals
        merged: List[strparts.Part] = []
        for p in out:
            if p[0] == 'lit' and merged and merged[-1][0] == 'lit':
                merged[-1] = ('lit', merged[-1][1] + p[1])
            else:
                merged.append(p)
        return merged

    def walk(n: pf.Node, env: Dict[str, List[strparts.Part]], given: Optional[bool], seen: Tuple[int, ...], depth: int) -> None:
        ctx.need(depth < 200 and len(results) < 64, f'{where}: too many paths')
        if n is REQ:
            results.append((given, ev(val, env), ' / '.join(g.nodes[i].text() for i in seen if g.nodes[i].kind == 'test')))
            return
        a = n.ast
        env2 = env
        if n.kind == 'stmt' and isinstance(a, ast.Assign) and len(a.targets) == 1 and isinstance(a.targets[0], ast.Name):
            try:
                env2 = {**env, a.targets[0].id: ev(a.value, env)}
            except AnalysisError:
                env2 = {k: v for k, v in env.items() if k != a.targets[0].id}
        elif n.kind == 'stmt' and isinstance(a, ast.AugAssign) and isinstance(a.target, ast.Name) and isinstance(a.op, ast.Add) and a.target.id in env:
            env2 = {**env, a.target.id: ev(ast.BinOp(left=ast.Name(a.target.id, ast.Load()), op=ast.Add(), right=a.value), env)}
        for nxt, lab in n.succ:
            if lab == 'exc' or nxt is g.raise_exit or nxt.id in seen:
                continue
            g2 = given
            if n.id in tests and lab in ('T', 'F'):
                v = (lab == tests[n.id])
                if given is not None and given != v:
                    continue
                g2 = v
            walk(nxt, env2, g2, seen + (n.id,), depth + 1)

    walk(g.entry, {}, None, (), 0)
    ctx.need(results, f'{where}: no path to the request')
    ctx.unit('range_paths', len(results))
    open_ok, closed_ok = [], []
    problems: List[str] = []
    for given, ps, via in results:
        head_ok = len(ps) >= 3 and ps[0] == ('lit', 'bytes=') and ps[1] == ('expr', start) and ps[2] == ('lit', '-')
        if not head_ok:
            problems.append(f'the Range value is {ps} (path: {via or "straight"}); it must begin with bytes={{{start}}}-')
            continue
        tail = ps[3:]
        for case in ([given] if given is not None else [False, True]):
            if not case:
                if tail:
                    problems.append(f'without a length the Range value is {ps}; expected the open range bytes={{{start}}}-')
                else:
                    open_ok.append(via)
            else:
                if len(tail) != 1 or tail[0][0] != 'expr':
                    problems.append(f'with a length the Range value is {ps} (path: {via or "straight"}): '
                                    + ('the range is open-ended, so everything up to the end of the object is returned' if not tail else 'the end offset is not a single expression'))
                    continue
                try:
                    d = linform.lin(strparts.expr_of(tail[0][1])) - (linform.sym(start) + linform.sym(length) - linform.const(1))
                except AnalysisError as e:
                    raise AnalysisError(f'{where}: end offset `{tail[0][1]}` not linear ({e})')
                if d == linform.const(0):
                    closed_ok.append(via)
                else:
                    problems.append(f'with a length the last byte requested is `{tail[0][1]}` = {start} + {length} - 1 + ({d!r}): HTTP ranges are inclusive, so '
                                    f'{"one byte too many is" if d == linform.const(1) else "the wrong span is"} returned (e.g. start=0, length=1 asks for bytes=0-{0 + 1 - 1 + (d.const if d.is_const() else 0)})')
    if problems:
        ctx.bad('R1', cons + '::value', problems[0] + (f' (+{len(problems) - 1} more)' if len(problems) > 1 else ''), m.path, req.lineno, extra=problems[:6])
    else:
        ctx.need(open_ok and closed_ok, f'{where}: open/closed range cases not both observed')
        ctx.ok('R1', cons + '::value', {'paths': len(results)})
    return req


def _gcs_pred(c: ast.Call) -> bool:
    return isinstance(c.func, ast.Attribute) and c.func.attr == 'get_object'


def _gcs_carrier(c: ast.Call) -> Optional[ast.AST]:
    for k in c.keywords:
        if k.arg == 'headers' and isinstance(k.value, ast.Dict):
            for kk, vv in zip(k.value.keys, k.value.values):
                if kk is not None and pf.const_str(kk) == 'Range':
                    return vv
    return None


def _s3_pred(c: ast.Call) -> bool:
    return any(isinstance(a, ast.Attribute) and a.attr == 'get_object' for a in c.args) or (isinstance(c.func, ast.Attribute) and c.func.attr == 'get_object')


def _s3_carrier(c: ast.Call) -> Optional[ast.AST]:
    for k in c.keywords:
        if k.arg == 'Range':
            return k.value
    return None


# ------------------------------------------------------------------------------------------------
# R2 SDK / stream back ends
# ------------------------------------------------------------------------------------------------

def _azure(ctx: Ctx) -> None:
    m = pf.load(AZ)
    fn = m.func('AzureAsyncFS._open_from')
    where = f'{AZ}::AzureAsyncFS._open_from'
    url, start, length = _sig(ctx, fn, where)
    rets = [st for st in _stmts(fn) if isinstance(st, ast.Return)]
    ctx.need(len(rets) == 1 and isinstance(rets[0].value, ast.Call), f'{where}: expected one return of a stream constructor')
    c = rets[0].value
    sname = pf.dotted(c.func)
    ctx.need(sname is not None, f'{where}: stream constructor not recognised')
    scls = m.cls(sname)
    init = m.func(f'{sname}.__init__')
    iparams = [a.arg for a in init.args.args][1:]
    bound: Dict[str, str] = {}
    for i, a in enumerate(c.args):
        if i < len(iparams):
            bound[iparams[i]] = pf.nsrc(a)
    for k in c.keywords:
        if k.arg:
            bound[k.arg] = pf.nsrc(k.value)
    ctx.need('offset' in iparams and 'length' in iparams, f'{AZ}::{sname}.__init__: offset/length parameters renamed')
    ctx.check(bound.get('offset') == start and bound.get('length') == length, 'R2', f'{where}::stream(offset={start}, length={length})',
              f'`{pf.nsrc(c)}` binds offset={bound.get("offset")}, length={bound.get("length")}; expected offset={start}, length={length} unchanged', m.path, c.lineno)
    stored = {}
    for st in _stmts(init):
        if isinstance(st, ast.Assign) and len(st.targets) == 1 and isinstance(st.targets[0], ast.Attribute) and pf.nsrc(st.targets[0].value) == 'self' and isinstance(st.value, ast.Name):
            stored[st.value.id] = st.targets[0].attr
    ctx.need('offset' in stored and 'length' in stored, f'{AZ}::{sname}.__init__: offset/length are not stored on self')
    f_off, f_len = f'self.{stored["offset"]}', f'self.{stored["length"]}'
    n = 0
    for qual, f in m.functions():
        if not qual.startswith(sname + '.'):
            continue
        for dc in pf.calls_in(f):
            if isinstance(dc.func, ast.Attribute) and dc.func.attr == 'download_blob':
                n += 1
                kw = {k.arg: pf.nsrc(k.value) for k in dc.keywords if k.arg}
                ctx.need(not dc.args and all(k.arg for k in dc.keywords), f'{AZ}::{qual}: download_blob called with positional/star arguments')
                # which read mode is this call in?
                guards = [x for x in ast.walk(f) if isinstance(x, ast.If) and any(y is dc for b in x.body for y in ast.walk(b))]
                guard = pf.nsrc(guards[-1].test) if guards else 'unconditional'
                cons = f'{AZ}::{qual}::download_blob under `if {guard}`'
                ok_off = kw.get('offset') == f_off
                ok_len = kw.get('length') == f_len
                msg = ''
                if not ok_off:
                    msg = f'the download starts at `{kw.get("offset")}`, not at `{f_off}`'
                elif not ok_len:
                    msg = (f'the download is opened with offset={f_off} but without length={f_len}: after open_from(url, s, length=L) a `read(n)` with n > L (any n != -1) '
                           f'returns the bytes s .. s+n-1, i.e. data beyond the requested range, while `read()` on the same stream honours the length')
                ctx.check(ok_off and ok_len, 'R2', cons, msg, m.path, dc.lineno)
    ctx.need(n >= 1, f'{AZ}::{sname}: no download_blob call')
    ctx.unit('functions', 3)


def _local(ctx: Ctx) -> None:
    m = pf.load(LOC)
    fn = m.func('LocalAsyncFS._open_from')
    where = f'{LOC}::LocalAsyncFS._open_from'
    url, start, length = _sig(ctx, fn, where)
    g = pf.cfg(fn)
    rets = [st for st in _stmts(fn) if isinstance(st, ast.Return)]
    ctx.need(len(rets) == 1 and isinstance(rets[0].value, ast.Call) and len(rets[0].value.args) >= 2 and isinstance(rets[0].value.args[1], ast.Name),
             f'{where}: expected `return <wrap>(pool, <stream>)`')
    RET = [n for n in g.nodes if n.ast is rets[0]][0]
    sv = rets[0].value.args[1].id
    # seek
    seeks = [c for c in pf.calls_in(fn) if isinstance(c.func, ast.Attribute) and c.func.attr == 'seek']
    scons = f'{where}::seek({start})'
    if not seeks:
        ctx.bad('R2', scons, f'the file is never positioned at `{start}`: the stream starts at byte 0', m.path, fn.lineno)
    else:
        ctx.need(len(seeks) == 1, f'{where}: several seeks')
        s = seeks[0]
        args = [pf.nsrc(a) for a in s.args]
        whence_ok = len(args) == 1 or (len(args) == 2 and args[1] in ('io.SEEK_SET', 'os.SEEK_SET', '0'))
        ctx.need(len(args) in (1, 2) and not s.keywords and whence_ok, f'{where}: seek call `{pf.nsrc(s)}` not recognised')
        SN = g.node_of(s)
        ok = args[0] == start and whence_ok and len(SN) == 1 and g.dominated_by(RET, lambda n: n is SN[0])
        ctx.check(ok, 'R2', scons, f'`{pf.nsrc(s)}` does not position the file at `{start}` from the beginning on every path', m.path, s.lineno)
    # truncation on the "length given" paths
    tests = {n.id: _given_label(n.ast, length) for n in g.nodes if n.kind == 'test' and n.ast is not None and length in pf.names_in(n.ast)}
    for nid, lab in tests.items():
        ctx.need(lab is not None, f'{where}: test on `{length}` not recognised')
    wraps = [st for st in _stmts(fn) if isinstance(st, ast.Assign) and len(st.targets) == 1 and isinstance(st.targets[0], ast.Name) and st.targets[0].id == sv
             and isinstance(st.value, ast.Call) and pf.dotted(st.value.func) == 'TruncatedReadableBinaryIO']
    tcons = f'{where}::TruncatedReadableBinaryIO(limit={length})'
    if not wraps:
        ctx.bad('R2', tcons, f'the returned stream `{sv}` is never wrapped in TruncatedReadableBinaryIO: a read with a length returns everything up to the end of the file',
                m.path, fn.lineno)
    else:
        ctx.need(len(wraps) == 1, f'{where}: several truncating wrappers')
        w = wraps[0]
        wc = w.value
        lim = [pf.nsrc(k.value) for k in wc.keywords if k.arg == 'limit'] + [pf.nsrc(a) for a in wc.args[1:2]]  # type: ignore[attr-defined]
        W = [n for n in g.nodes if n.ast is w][0]

        def e_ok(val: bool):
            return lambda a, b, lab: not (a.id in tests and lab in ('T', 'F') and (lab == tests[a.id]) != val)

        miss = g.path_avoiding(g.entry, lambda n: n is RET, lambda n: n is W, edge_ok=e_ok(True))
        extra = g.path_avoiding(g.entry, lambda n: n is W, lambda n: False, edge_ok=e_ok(False))
        ctx.check(lim == [length] and miss is None and extra is None, 'R2', tcons,
                  (f'the limit is `{lim}`, not `{length}`' if lim != [length] else
                   f'with a length there is a path to the return that skips the wrapper' if miss is not None else f'the stream is truncated although no length was given'), m.path, w.lineno)
    # the wrapper itself
    twhere = f'{LOC}::TruncatedReadableBinaryIO'
    init = m.func('TruncatedReadableBinaryIO.__init__')
    ia = {}
    for st in _stmts(init):
        if isinstance(st, ast.Assign) and len(st.targets) == 1 and isinstance(st.targets[0], ast.Attribute) and pf.nsrc(st.targets[0].value) == 'self':
            ia[st.targets[0].attr] = pf.nsrc(st.value)
    ctx.check(ia.get('offset') == '0' and ia.get('limit') == 'limit', 'R2', f'{twhere}.__init__', f'starts with offset={ia.get("offset")}, limit={ia.get("limit")}; expected 0 and the given limit',
              m.path, init.lineno)
    rd = m.func('TruncatedReadableBinaryIO.read')
    rg = pf.cfg(rd)
    nparam = rd.args.args[1].arg
    reads = [c for c in pf.calls_in(rd) if pf.dotted(c.func) == 'self.bio.read']
    ctx.need(len(reads) == 1 and len(reads[0].args) == 1 and isinstance(reads[0].args[0], ast.Name), f'{twhere}.read: expected one self.bio.read(<name>)')
    av = reads[0].args[0].id
    RD = rg.node_of(reads[0])[0]
    remaining = linform.sym('self.limit') - linform.sym('self.offset')
    defs = [st for st in _stmts(rd) if isinstance(st, ast.Assign) and len(st.targets) == 1 and isinstance(st.targets[0], ast.Name) and st.targets[0].id == av]
    bad_defs = []
    for d in defs:
        v = d.value
        ok = False
        try:
            if isinstance(v, ast.Call) and pf.dotted(v.func) == 'min' and len(v.args) == 2 and not v.keywords:
                ls = [linform.lin(a) for a in v.args]
                ok = any(x == remaining for x in ls)
            else:
                ok = linform.lin(v) == remaining
        except AnalysisError:
            ok = False
        if not ok:
            bad_defs.append(pf.nsrc(d))
    capped = bool(defs) and rg.dominated_by(RD, lambda n: any(n.ast is d for d in defs))
    ctx.check(capped and not bad_defs, 'R2', f'{twhere}.read::capped by limit - offset',
              (f'`{bad_defs[0]}` is not `self.limit - self.offset` or `min(self.limit - self.offset, {nparam})`: the read can pass the end of the range' if bad_defs else
               f'there is a path to `{pf.nsrc(reads[0])}` on which `{av}` is not capped by the remaining bytes'), m.path, rd.lineno)
    res = [st for st in _stmts(rd) if isinstance(st, ast.Assign) and st.value is reads[0] and isinstance(st.targets[0], ast.Name)]
    ctx.need(len(res) == 1, f'{twhere}.read: result of the read is not bound')
    bv = res[0].targets[0].id
    adv = [st for st in _stmts(rd) if isinstance(st, ast.AugAssign) and pf.nsrc(st.target) == 'self.offset' and isinstance(st.op, ast.Add)]
    rret = [st for st in _stmts(rd) if isinstance(st, ast.Return)]
    ctx.need(len(rret) == 1, f'{twhere}.read: expected one return')
    RR = [n for n in rg.nodes if n.ast is rret[0]][0]
    ok = len(adv) == 1 and pf.nsrc(adv[0].value) == f'len({bv})' and rg.dominated_by(RR, lambda n: n.ast is adv[0]) and pf.nsrc(rret[0].value) == bv
    ctx.check(ok, 'R2', f'{twhere}.read::offset advances by the bytes returned', f'`self.offset` is not advanced by len({bv}) before `{pf.nsrc(rret[0])}`: later reads pass the limit', m.path, rd.lineno)
    ctx.unit('functions', 3)


def _router(ctx: Ctx) -> None:
    m = pf.load(RT)
    fn = m.func('RouterAsyncFS._open_from')
    where = f'{RT}::RouterAsyncFS._open_from'
    url, start, length = _sig(ctx, fn, where)
    rets = [st for st in _stmts(fn) if isinstance(st, ast.Return)]
    ctx.need(len(rets) == 1, f'{where}: expected one return')
    c = rets[0].value.value if isinstance(rets[0].value, ast.Await) else rets[0].value
    ctx.need(isinstance(c, ast.Call) and isinstance(c.func, ast.Attribute) and c.func.attr in ('open_from', '_open_from'), f'{where}: does not delegate to open_from')
    args = [pf.nsrc(a) for a in c.args]
    kw = {k.arg: pf.nsrc(k.value) for k in c.keywords}
    ctx.check(args == [url, start] and kw == {'length': length}, 'R2', f'{where}::delegates unchanged', f'`{pf.nsrc(c)}` does not forward ({url}, {start}, length={length}) unchanged',
              m.path, c.lineno)


# ------------------------------------------------------------------------------------------------
# R3 front end
# ------------------------------------------------------------------------------------------------

def _with_call(fn: pf.FuncDef, attr: str) -> Optional[Tuple[ast.Call, Optional[str], ast.AST]]:
    for st in _stmts(fn):
        if isinstance(st, ast.AsyncWith) and len(st.items) == 1:
            e = st.items[0].context_expr
            if isinstance(e, ast.Await):
                e = e.value
            if isinstance(e, ast.Call) and isinstance(e.func, ast.Attribute) and e.func.attr == attr:
                v = st.items[0].optional_vars
                return e, (v.id if isinstance(v, ast.Name) else None), st
    return None


def _front(ctx: Ctx) -> None:
    m = pf.load(FS)
    # read_range
    fn = m.func('AsyncFS.read_range')
    where = f'{FS}::AsyncFS.read_range'
    a = [x.arg for x in fn.args.args]
    kw = [x.arg for x in fn.args.kwonlyargs]
    ctx.need(len(a) == 4 and kw == ['end_inclusive'], f'{where}: signature changed')
    url, start, end = a[1:]
    wc = _with_call(fn, 'open_from')
    ctx.need(wc is not None and wc[1] is not None, f'{where}: `async with await self.open_from(...) as f` not found')
    oc, fv, wst = wc  # type: ignore[misc]
    lk = [k.value for k in oc.keywords if k.arg == 'length']
    ctx.need(len(lk) == 1 and [pf.nsrc(x) for x in oc.args] == [url, start], f'{where}: `{pf.nsrc(oc)}` is not open_from({url}, {start}, length=…)')
    rets = [st for st in ast.walk(wst) if isinstance(st, ast.Return)]
    ctx.need(len(rets) == 1, f'{where}: expected one return inside the with block')
    rc = rets[0].value.value if isinstance(rets[0].value, ast.Await) else rets[0].value
    ctx.need(isinstance(rc, ast.Call) and isinstance(rc.func, ast.Attribute) and pf.nsrc(rc.func.value) == fv, f'{where}: return is not a read on `{fv}`')
    env = {k: v[0] for k, v in pf.assignments(fn).items() if len(v) == 1 and isinstance(v[0], ast.expr)}

    class _Incl(ast.NodeTransformer):
        """`1 if end_inclusive else 0` -> end_inclusive (both are the 0/1 indicator)."""
        def visit_IfExp(self, node):  # noqa: N802
            if pf.nsrc(node.test) == kw[0] and pf.nsrc(node.body) == '1' and pf.nsrc(node.orelse) == '0':
                return ast.Name(kw[0], ast.Load())
            return node

    def norm_incl(x: ast.AST) -> ast.AST:
        return _Incl().visit(ast.parse(pf.nsrc(x), mode='eval').body)

    def span(e: ast.AST) -> linform.Lin:
        incl = {f'bool({kw[0]})': linform.sym('INCL'), f'int({kw[0]})': linform.sym('INCL'), kw[0]: linform.sym('INCL')}
        return linform.lin(norm_incl(e), {**{k: norm_incl(v) for k, v in env.items()}, **incl})

    want = linform.sym(end) - linform.sym(start) + linform.sym('INCL')
    try:
        n_len = span(lk[0])
        n_read = span(rc.args[0]) if rc.args else None
    except AnalysisError as e:
        raise AnalysisError(f'{where}: span expression not linear ({e})')
    d = n_len - want
    ctx.check(d == linform.const(0), 'R3', f'{where}::n = end - start + inclusive',
              f'the length requested is `{n_len!r}`, expected `{want!r}`: ' +
              ('an inclusive range loses its last byte / an exclusive one is read as inclusive' if d.symbols() == ['INCL'] or (d.is_const() and abs(d.const) == 1) else 'the wrong span is read'),
              m.path, oc.lineno)
    ctx.check(rc.func.attr == 'readexactly' and n_read is not None and n_read == n_len, 'R3', f'{where}::readexactly(n)',
              f'`{pf.nsrc(rets[0])}` does not read exactly the requested span ({n_len!r}): a short read is returned silently instead of signalling an unexpected end of file',
              m.path, rets[0].lineno)
    # read_from
    fn = m.func('AsyncFS.read_from')
    where = f'{FS}::AsyncFS.read_from'
    a = [x.arg for x in fn.args.args]
    wc = _with_call(fn, 'open_from')
    ctx.need(wc is not None and len(a) == 3, f'{where}: shape changed')
    oc, fv, wst = wc  # type: ignore[misc]
    rets = [st for st in ast.walk(wst) if isinstance(st, ast.Return)]
    ctx.need(len(rets) == 1, f'{where}: expected one return')
    rc = rets[0].value.value if isinstance(rets[0].value, ast.Await) else rets[0].value
    ok = [pf.nsrc(x) for x in oc.args] == a[1:] and not oc.keywords and isinstance(rc, ast.Call) and pf.nsrc(rc.func) == f'{fv}.read' and not rc.args and not rc.keywords
    ctx.check(ok, 'R3', f'{where}::open_from(url, start) + read()', f'`{pf.nsrc(oc)}` / `{pf.nsrc(rets[0])}` do not read everything from `{a[2]}` to the end', m.path, oc.lineno)
    # open_from
    fn = m.func('AsyncFS.open_from')
    where = f'{FS}::AsyncFS.open_from'
    url, start, length = _sig(ctx, fn, where)
    g = pf.cfg(fn)
    dels = [c for c in pf.calls_in(fn) if pf.dotted(c.func) == 'self._open_from']
    ctx.need(len(dels) == 1, f'{where}: expected one delegation to self._open_from')
    dc = dels[0]
    DN = g.node_of(dc)[0]
    args = [pf.nsrc(x) for x in dc.args]
    kwd = {k.arg: pf.nsrc(k.value) for k in dc.keywords}
    ctx.check(args == [url, start] and kwd == {'length': length}, 'R3', f'{where}::forwards unchanged', f'`{pf.nsrc(dc)}` does not forward ({url}, {start}, length={length})', m.path, dc.lineno)
    zero = [n for n in g.nodes if n.kind == 'test' and isinstance(n.ast, ast.Compare) and len(n.ast.ops) == 1 and pf.nsrc(n.ast.left) == length
            and isinstance(n.ast.comparators[0], ast.Constant) and n.ast.comparators[0].value == 0 and not isinstance(n.ast.comparators[0].value, bool)
            and isinstance(n.ast.ops[0], (ast.Eq, ast.NotEq))]
    zcons = f'{where}::length == 0 never reaches _open_from'
    if not zero:
        ctx.bad('R3', zcons, f'no `{length} == 0` short-circuit: an empty range is sent to the back ends, which build `bytes={{{start}}}-{{{start} - 1}}` / a zero-length '
                f'truncated stream', m.path, fn.lineno)
    else:
        ctx.need(len(zero) == 1, f'{where}: several zero tests')
        Z = zero[0]
        zl = 'T' if isinstance(Z.ast.ops[0], ast.Eq) else 'F'  # type: ignore[attr-defined]
        p = g.path_avoiding(Z, lambda n: n is DN, lambda n: False, edge_ok=lambda a, b, lab: a is not Z or lab == zl)
        dom = g.dominated_by(DN, lambda n: n is Z)
        ctx.check(p is None and dom, 'R3', zcons, f'with `{length} == 0` the call `{pf.nsrc(dc)}` is still reachable', m.path, Z.lineno)
        # the empty case returns an empty stream for an existing file
        empt = [st for st in _stmts(fn) if isinstance(st, ast.Return) and isinstance(st.value, ast.Call) and pf.dotted(st.value.func) == 'EmptyReadableStream']
        ctx.check(len(empt) >= 1, 'R3', f'{where}::empty range yields an empty stream', 'the length == 0 branch never returns EmptyReadableStream()', m.path, Z.lineno)
    ctx.unit('functions', 3)

    # readexactly implementations signal a short read
    sites = [(ST, '_ReadableStreamFromBlocking._readexactly'), (ST, 'EmptyReadableStream.readexactly'), (GCS, 'GetObjectStream.readexactly'), (AZ, 'AzureReadableStream.readexactly')]
    for rel, qual in sites:
        mm = pf.load(rel)
        f = mm.func(qual)
        raises = [st for st in _stmts(f) if isinstance(st, ast.Raise) and st.exc is not None and (pf.dotted(st.exc.func if isinstance(st.exc, ast.Call) else st.exc) or '') == 'UnexpectedEOFError']
        gg = pf.cfg(f)
        reach = gg.reachable_from(gg.entry)
        live = [r for r in raises if any(n.ast is r and n.id in reach for n in gg.nodes)]
        ctx.check(bool(live), 'R3', f'{rel}::{qual}::short read raises UnexpectedEOFError', 'no reachable `raise UnexpectedEOFError`: a range that ends early is returned as if complete',
                  mm.path, f.lineno)
        # `data = await self.read(n)` followed by a length test: the test must reject every short read and no complete one
        nparam = f.args.args[1].arg if len(f.args.args) > 1 else None
        got = [(k, v[0]) for k, v in pf.assignments(f).items() if len(v) == 1 and isinstance(v[0], ast.expr)]
        for name, v in got:
            vv = v.value if isinstance(v, ast.Await) else v
            if not (isinstance(vv, ast.Call) and pf.dotted(vv.func) == 'self.read' and [pf.nsrc(a) for a in vv.args] == [nparam] and not vv.keywords):
                continue
            guards = [x for x in ast.walk(f) if isinstance(x, ast.If) and any(r in x.body for r in raises)]
            if len(guards) != 1:
                continue
            t = guards[0].test
            cons = f'{rel}::{qual}::short read test'
            want = linform.sym(f'len({name})') - linform.sym(nparam)
            ctx.need(isinstance(t, ast.Compare) and len(t.ops) == 1, f'{rel}::{qual}: short-read test `{pf.nsrc(t)}` not recognised')
            try:
                if isinstance(t.ops[0], ast.NotEq):
                    d0 = linform.lin(t.left) - linform.lin(t.comparators[0])
                    ctx.need(d0 == want or d0 == -want, f'{rel}::{qual}: short-read test `{pf.nsrc(t)}` not recognised')
                    ctx.ok('R3', cons, pf.nsrc(t))
                else:
                    le0 = linform.cmp_le0(t)
                    if (le0 + want).is_const():  # the test holds when len(data) - n >= c: never for a short read only
                        ctx.bad('R3', cons, f'`if {pf.nsrc(t)}: raise UnexpectedEOFError` does not hold for a short read (len({name}) < {nparam}): a range that ends early is '
                                f'returned as if complete', mm.path, guards[0].lineno)
                        continue
                    dd = le0 - (want + linform.const(1))
                    ctx.need(dd.is_const(), f'{rel}::{qual}: short-read test `{pf.nsrc(t)}` not recognised')
                    ctx.check(dd == linform.const(0), 'R3', cons,
                              f'`if {pf.nsrc(t)}: raise UnexpectedEOFError` is not `len({name}) < {nparam}`: ' +
                              (f'a read that is up to {dd.const} byte(s) short is returned as complete' if dd.const > 0 else 'a complete read raises UnexpectedEOFError'),
                              mm.path, guards[0].lineno, detail=pf.nsrc(t))
            except AnalysisError as e:
                raise AnalysisError(f'{rel}::{qual}: short-read test `{pf.nsrc(t)}` not linear ({e})')
    # the blocking implementation loops until n bytes are read
    mm = pf.load(ST)
    f = mm.func('_ReadableStreamFromBlocking._readexactly')
    where = f'{ST}::_ReadableStreamFromBlocking._readexactly'
    nparam = f.args.args[1].arg
    loops = [st for st in f.body if isinstance(st, ast.While)]
    ctx.need(len(loops) == 1, f'{where}: expected one while loop')
    lp = loops[0]
    try:
        cond = linform.cmp_le0(lp.test)
    except AnalysisError:
        cond = None
    ctx.need(cond is not None, f'{where}: loop condition not recognised')
    rd = [c for c in pf.calls_in(lp) if isinstance(c.func, ast.Attribute) and c.func.attr == 'read']
    decs = [st for st in lp.body if isinstance(st, ast.AugAssign) and isinstance(st.target, ast.Name) and st.target.id == nparam and isinstance(st.op, ast.Sub)]
    ctx.need(len(rd) == 1, f'{where}: expected one read in the loop')
    blk = [st.targets[0].id for st in lp.body if isinstance(st, ast.Assign) and st.value is rd[0] and isinstance(st.targets[0], ast.Name)]
    ok = cond == linform.const(1) - linform.sym(nparam) and [pf.nsrc(x) for x in rd[0].args] == [nparam] and len(blk) == 1 and len(decs) == 1 \
        and pf.nsrc(decs[0].value) == f'len({blk[0]})'
    ctx.check(ok, 'R3', f'{where}::reads until n bytes', f'the loop `while {pf.nsrc(lp.test)}` with `{pf.nsrc(rd[0])}` / {[pf.nsrc(x) for x in decs]} does not read at most the outstanding '
              f'`{nparam}` bytes and count them down', mm.path, lp.lineno)
    ctx.unit('functions', 5)


# ------------------------------------------------------------------------------------------------
# R4 buffer accounting of buffered readers
# ------------------------------------------------------------------------------------------------

def _buffers(ctx: Ctx) -> None:
    n_cls = 0
    for rel in pf.walk_py(SCAN_DIRS):
        m = pf.load(rel)
        for cls in m.classes():
            if not c23facts.read_path(cls):
                continue
            n_cls += 1
            for b in c23facts.buffer_fields(cls):
                r = c23facts.analyse_buffer(rel, cls, b)
                if r is None:
                    continue
                for c in r.checks:
                    cons = f'{rel}::{cls.name}::buffer {b}::{c.role}'
                    if c.ok:
                        ctx.ok('R4', cons, {'representation': r.rep, 'position': r.cursor, 'detail': c.detail})
                    else:
                        ctx.bad('R4', cons, c.message, m.path, c.line)
                if r.declined and all(c.ok for c in r.checks):
                    raise AnalysisError(r.declined[0])
    ctx.unit('reader_classes', n_cls)


# ------------------------------------------------------------------------------------------------
# R5 delivery of the Range (and of alt=media) to the request primitive
# ------------------------------------------------------------------------------------------------

def _deliver(ctx: Ctx, uni: 'c23facts.Universe', rel: str, cls: str, req: Optional[ast.Call], kwname: str, inner: Optional[str], also_origin: Optional[Tuple[str, str]] = None) -> None:
    m = pf.load(rel)
    fn = m.func(f'{cls}._open_from')
    what = f"{kwname}[{inner!r}]" if inner else kwname
    cons = f'{rel}::{cls}._open_from::{what} reaches the request'
    if req is None:
        ctx.ok('R5', cons, 'not evaluated: no Range is built (see R1)', nontrivial=False)
        if also_origin:
            ctx.ok('R5', f'{rel}::{cls}._open_from::{also_origin[0]}[{also_origin[1]!r}] reaches the request', 'not evaluated (see R1)', nontrivial=False)
        return

    def report(d: 'c23facts.Delivery', cons: str) -> None:
        ctx.unit('functions_followed', len(d.chain))
        if d.problems:
            for p in d.problems:
                ctx.bad('R5', f'{p.where}::{d._what()} kept', p.text + '. ' + consequence, p.file, p.line, extra={'chain': d.chain})
        else:
            ctx.need(d.primitives, f'{cons}: no request primitive reached')
            ctx.ok('R5', cons, {'chain': d.chain, 'request primitives': d.primitives, 'set at': d.origins or None})

    consequence = ('The storage service then answers with the whole object: a ranged read returns the bytes from offset 0 (right length through readexactly, wrong bytes) '
                   'or the whole object, e.g. read_range(url, 10, 19) yields object[0:10] instead of object[10:20]')
    try:
        d = c23facts.Delivery(uni, kwname, inner)
        d.start_at_call(rel, m.cls(cls), fn, req, kwname)
        report(d, cons)
        if also_origin:
            k2, i2 = also_origin
            cons2 = f'{rel}::{cls}._open_from::{k2}[{i2!r}] reaches the request'
            consequence = 'Without alt=media the JSON API answers with the object metadata instead of its content: every read returns the wrong bytes'
            fc = c23facts._Fctx(c23facts.FuncRef(rel, m.cls(cls), fn), {})
            targets = [t for t in d.resolve(fc, req.func, c23facts._St()) if isinstance(t, c23facts.FuncRef)]
            ctx.need(len(targets) == 1, f'{cons2}: the callee of `{pf.nsrc(req.func)}` is not a single function of the analysed packages')
            d2 = c23facts.Delivery(uni, k2, i2, origin=True)
            d2.start_in_function(targets[0], [k.arg for k in req.keywords if k.arg])
            report(d2, cons2)
    except c23facts.Decline as e:
        raise AnalysisError(f'{cons}: {e}')


def run(ctx: Ctx) -> None:
    ctx.level = 'other'
    ctx.explanation = ('Every concrete _open_from under hailtop is located (closure scan) and its request construction normalised: Range templates as string parts with the end '
                       'offset in linear normal form on every CFG path, SDK calls for unchanged (offset, length), local truncation and front-end span arithmetic in linear normal form. '
                       'The carrier of the Range (GCS headers dict, S3 keyword) and the GCS alt=media parameter are followed by an abstract execution over alias groups through every '
                       'function that may be called down to the request primitive. Every buffered reader is checked for one consistent representation of its unconsumed bytes.')
    ctx.rule('R0', 'the concrete _open_from implementations under hailtop are exactly local, router, GCS, S3, Azure, each naming (url, start) in the declared order', 6)
    ctx.rule('R1', 'HTTP Range = bytes={start}- without length and bytes={start}-{start+length-1} with length on every path, and it is sent', 4)
    ctx.rule('R2', 'Azure passes offset/length unchanged at every download_blob; local seeks to start and truncates to length (read capped by limit-offset, offset advances); router delegates unchanged', 9)
    ctx.rule('R3', 'read_range: n = end-start+inclusive, open_from(length=n), readexactly(n); read_from reads to the end; open_from short-circuits length==0 and forwards unchanged; '
                   'readexactly raises UnexpectedEOFError on short reads (test `len(data) != n` / `< n` in linear form)', 12)
    ctx.assume('HTTP Range `bytes=a-b` is inclusive on both ends; azure download_blob(offset, length) returns exactly that span; file.read(n) returns at most n bytes')
    ctx.rule('R4', 'buffered stream readers use one representation of their unconsumed bytes (len(buffer), or len(buffer) - position) in refill tests, caps, '
                   'hand-out slices, consumption and reset', 9)
    ctx.rule('R5', 'the Range built by _open_from (GCS headers / S3 keyword) and GCS alt=media reach the request primitive: no function on the may-call chain replaces, '
                   'strips or stops forwarding the carrier', 3)
    ctx.assume('mappings of unknown content merged into the request headers / params (auth headers, default params) do not carry a Range / alt entry; '
               'decorator-free functions of hailtop are called as written; calls on objects constructed by packages outside hailtop are the request primitives')
    errors: List[str] = []
    reqs: Dict[str, Optional[ast.Call]] = {}

    def section(f, *a) -> None:
        # one unrecognised shape must not hide a violation that another section can establish
        try:
            r = f(ctx, *a)
            if f is _range_backend:
                reqs[a[0]] = r
        except AnalysisError as e:
            errors.append(str(e))

    section(_closure)
    section(_range_backend, GCS, 'GoogleStorageAsyncFS', _gcs_pred, _gcs_carrier)
    section(_range_backend, S3, 'S3AsyncFS', _s3_pred, _s3_carrier)
    section(_azure)
    section(_local)
    section(_router)
    section(_front)
    section(_buffers)
    uni = c23facts.Universe()
    ctx.unit('modules_in_call_universe', len(uni.mods))
    if GCS in reqs:
        section(_deliver, uni, GCS, 'GoogleStorageAsyncFS', reqs[GCS], 'headers', 'Range', ('params', 'alt'))
    if S3 in reqs:
        section(_deliver, uni, S3, 'S3AsyncFS', reqs[S3], 'Range', None)
    ctx.unit('files', 7)
    if errors:
        raise AnalysisError(errors[0] + (f' (+{len(errors) - 1} more: {"; ".join(errors[1:3])})' if len(errors) > 1 else ''))
