"""C24 Rate limiter never exceeds its rate (and admits as soon as possible).

Decides from the syntax tree / CFG of hailtop/utils/rate_limiter.py (nothing is run):
  R1 admission  EVERY statement that records an entry (`self._items.append(x)`, in any method) is reached only through a test edge taken
                exactly when len(self._items) < self._count (table over {<,==,>}), atomically (no await in between): the deque never
                holds more than `count` entries of one window.  Every return of __aenter__ passes exactly one such append.
  R2 timestamp  the recorded value is the clock value (`now = time.time()`), read with no suspension point between the read and the
                append, and the entry is admitted (return) with no suspension after the append.  A time computed from other entries
                (`head + window`, a reservation, a "slot free at") is not the admission time: a stale or future timestamp leaves the
                window early / lets several waiters share one instant, and more than `count` entries fall into one window.
                All appends use the same clock.
  R3 eviction   between the clock read and the admission test the loop pops from the *left* while the deque is non-empty and
                head <= now - window (linear form head - now + window <= 0, non-strict: an entry exactly one window old is outside
                the half-open window), measured with the clock the entries were recorded with; the deque is only appended on the
                right / read at [0] / popleft'ed, and popleft only happens as the body of such a loop (never unconditionally, e.g. by a
                waiter after its sleep: the head it finds then need not be the entry it waited for).  The position rule is stated for
                the LAST clock read, so several reads / several (inlined) copies of the loop are fine: from the entry and from every
                suspension point the admission test is only reached through a clock read, and from every clock read only through an
                eviction loop
  R4 waiting    the only wait is `asyncio.sleep(head - (now - window))` (linear form head - now + window: the time until the head
                leaves the window), reached only by refused entries; the sleep STARTS at the clock read (no other suspension point -
                queueing on a lock / semaphore that another waiter holds across its sleep - between reading `now` and sleeping, else
                the amount is stale by the time spent queueing and the waiter oversleeps); after every suspension the clock is re-read
                before anything is admitted
  R5 parameters `_count` / `_window_seconds` come from RateLimit.count / .window_seconds and are never reassigned
Does not decide: clock behaviour (monotonicity of time.time), fairness among waiters.

Spelling independence: the class is first brought into one spelling by engines/c2440norm.py (helpers inlined - also when called in an `if` test
or inside the sleep amount -, pure locals moved to their uses, aliases of the deque removed, guard-clause loops folded into a loop condition,
flag idioms threaded, `del q[0]` read as popleft); the private field names are taken from what __init__ binds them to.  A violation is reported
only on positive evidence: a recognised construct that breaks the obligation.  A guard behind a local that could not be resolved, a helper
that could not be inlined, a CFG path through a flag variable (feasibility unknown) make the rule DECLINE (exit 2), not alarm.
"""
from __future__ import annotations

import ast
from fractions import Fraction
from typing import Dict, List, Optional, Set, Tuple

from engines import asyncfacts as af
from engines import c2426facts as cf
from engines import c2440norm as nm
from engines import pyfacts as pf
from engines.common import AnalysisError, Ctx

META = dict(
    category='other',
    text='Structural necessary conditions of the sliding-window invariant decided on the CFG of RateLimiter.__aenter__: guard dominance of every '
         'recording statement with await-atomicity, exhaustive table of the admission test over the order relation, reaching-definition '
         'classification of the recorded value (clock read vs. computed time), linear-form comparison of the eviction condition and of the '
         'sleep amount with the half-open window semantics, closed set of deque operations.  The window invariant itself (at most count '
         'timestamps in (now-window, now]) follows from these by induction over admissions, which is argued, not mechanised.',
    note='Trusted: CPython ast; engines/pyfacts CFG; asyncio switches only at await. Not decided: clock monotonicity, float rounding of the sleep amount.',
    technique='static analysis: CFG guard dominance + await-atomicity + reaching definitions + linear-form normalisation + finite truth table',
    design_ref='DESIGN.md §3 C24',
)

F = 'hail/python/hailtop/utils/rate_limiter.py'
CLS = 'RateLimiter'
ITEMS = 'self._items'
COUNT = 'self._count'
WINDOW = 'self._window_seconds'
CLOCKS = ('time.time', 'time.monotonic')
ENTER = '__aenter__'
PURE = ('max', 'min', 'float', 'int', 'abs', 'round')

DEQUE_OK = {'method:append', 'index:0', 'method:popleft', 'truth', 'len'}
DEQUE_BAD = {'method:appendleft': 'records the newest entry as the oldest', 'method:pop': 'evicts the newest entry instead of the oldest',
             'method:clear': 'forgets entries that are still inside the window', 'method:insert': 'breaks the oldest-leftmost order',
             'method:rotate': 'breaks the oldest-leftmost order', 'method:remove': 'forgets an entry that may still be inside the window',
             'method:reverse': 'breaks the oldest-leftmost order', 'method:extendleft': 'breaks the oldest-leftmost order'}

WANT = {'head': Fraction(1), 'now': Fraction(-1), 'W': Fraction(1)}


# --------------------------------------------------------------------------------------
# helpers
# --------------------------------------------------------------------------------------


def _mentions_self(e: ast.AST) -> bool:
    return any(isinstance(x, ast.Name) and x.id == 'self' for x in ast.walk(e))


def _opaque(fn: pf.FuncDef, test: ast.AST, seen: Tuple[str, ...] = ()) -> Optional[str]:
    """Why the truth of `test` may depend on the limiter's state in a way the test itself does not show: it reads a local whose definition
    (followed through locals, flow-insensitively) reads the object's state or is not a plain expression (the normaliser could not move it to the
    test), it awaits, or it calls a method of the object / passes the object's state to a function that is not a pure builtin.  None when the
    test is transparent (clock locals, parameters and constants are)."""
    asg = pf.assignments(fn)
    for x in ast.walk(test):
        if isinstance(x, ast.Name) and isinstance(x.ctx, ast.Load) and x.id != 'self' and x.id not in seen:
            for d in asg.get(x.id, []):
                if isinstance(d, (ast.Constant, ast.arg)) or _clock_call(d) is not None:
                    continue
                if not isinstance(d, ast.expr) or isinstance(d, (ast.Await, ast.Yield, ast.YieldFrom)):
                    return f'local `{x.id}` (bound by `{pf.nsrc(d)[:60]}`)'
                if _mentions_self(d) or _opaque(fn, d, seen + (x.id,)) is not None:
                    return f'local `{x.id}` (= `{pf.nsrc(d)[:60]}`)'
        if isinstance(x, (ast.Await, ast.NamedExpr, ast.Lambda)):
            return f'`{pf.nsrc(x)[:60]}`'
        if isinstance(x, ast.Call) and pf.dotted(x.func) not in nm.PURE_FUNCS and _mentions_self(x):
            return f'call `{pf.nsrc(x)[:60]}`'
    return None


def _flags(fn: pf.FuncDef) -> List[str]:
    """Tests of fn that read a local bound at two or more places which is not a clock local (a flag / state variable): the branches taken at
    such tests are correlated with where the local was bound, so a CFG path through them need not be executable."""
    asg = pf.assignments(fn)
    cn = _clock_names(fn)
    out: List[str] = []
    for n in pf.walk_shallow(fn):
        if isinstance(n, (ast.If, ast.While, ast.IfExp)):
            for x in ast.walk(n.test):
                if isinstance(x, ast.Name) and isinstance(x.ctx, ast.Load) and x.id not in cn and len(asg.get(x.id, [])) >= 2:
                    out.append(f'`{pf.nsrc(n.test)[:60]}` (local `{x.id}` is bound at {len(asg[x.id])} places)')
                    break
    return out


def _pcheck(ctx: Ctx, fn: pf.FuncDef, cond: bool, rule: str, cons: str, msg: str, file: str = '', line: int = 0, detail=None) -> bool:
    """ctx.check for an obligation whose violation is witnessed by the EXISTENCE OF A CFG PATH: with flag variables in the function the path may
    not be executable (the normaliser removes the common flag idioms; what is left is not decided) - decline instead of alarming."""
    if not cond:
        fl = _flags(fn)
        if fl:
            raise AnalysisError(f'{cons}: the CFG has a violating path, but {fn.name} branches on {fl[0]}: whether that path can be executed is not decided')
    return ctx.check(cond, rule, cons, msg, file, line, detail=detail)


def _uninlined(cls: ast.ClassDef, fn: pf.FuncDef) -> List[str]:
    """Calls of methods of the same class that are still in fn after inlining (their effect on the deque / their suspension points are not
    visible in fn's CFG)."""
    names = {f.name for f in cls.body if isinstance(f, (ast.FunctionDef, ast.AsyncFunctionDef))}
    recv = fn.args.args[0].arg if fn.args.args else 'self'
    return sorted({pf.nsrc(c)[:60] for c in pf.walk_shallow(fn) if isinstance(c, ast.Call) and isinstance(c.func, ast.Attribute)
                   and isinstance(c.func.value, ast.Name) and c.func.value.id == recv and c.func.attr in names})


def _opaque_dominating_test(fn: pf.FuncDef, cfg: pf.CFG, A: pf.Node) -> Optional[str]:
    """A test every path to A goes through (by one fixed edge) whose meaning is not visible in the test itself."""
    for t in cfg.nodes:
        if t.kind != 'test' or t is A:
            continue
        for label in ('T', 'F'):
            if any(lab == label for _, lab in t.succ) and af.every_path_uses_edge(cfg, A, t, label):
                why = _opaque(fn, t.ast)
                if why is not None:
                    return f'`{pf.nsrc(t.ast)}` reads {why}'
    return None


_IMP: Dict[str, str] = {}


def _dot(e: ast.AST) -> Optional[str]:
    """pf.dotted with the head resolved through the module's imports (`from time import time` / `import time as t` / `from asyncio import sleep`)."""
    d = pf.dotted(e)
    if d is None:
        return None
    head, _, rest = d.partition('.')
    o = _IMP.get(head)
    if o is not None and not o.startswith('.'):
        return o + ('.' + rest if rest else '')
    return d


def _clock_call(e: ast.AST) -> Optional[str]:
    if isinstance(e, ast.Call) and not e.args and not e.keywords:
        d = _dot(e.func)
        if d in CLOCKS:
            return d
    return None


def _clock_names(fn: pf.FuncDef) -> Dict[str, Set[str]]:
    """locals all of whose definitions are plain clock reads -> the clock functions read"""
    out: Dict[str, Set[str]] = {}
    for name, defs in pf.assignments(fn).items():
        cs = [_clock_call(d) for d in defs]
        if defs and all(c is not None for c in cs):
            out[name] = set(cs)  # type: ignore[arg-type]
    return out


def _leaves(fn: pf.FuncDef, e: ast.AST, seen: Tuple[str, ...] = ()) -> Set[str]:
    """What a time expression is computed from (flow-insensitive through locals): clock:<f> | entry | param | state | const | unknown:<why>."""
    c = _clock_call(e)
    if c is not None:
        return {'clock:' + c}
    if isinstance(e, ast.Constant):
        return {'const'}
    if isinstance(e, ast.Name):
        if e.id in seen:
            return set()
        defs = pf.assignments(fn).get(e.id, [])
        if not defs:
            return {f'unknown:free name {e.id}'}
        out: Set[str] = set()
        for d in defs:
            if isinstance(d, ast.expr) and not isinstance(d, (ast.Await, ast.Yield, ast.YieldFrom)):
                out |= _leaves(fn, d, seen + (e.id,))
            else:
                out.add(f'unknown:definition of {e.id}')
        return out
    if isinstance(e, ast.Subscript) and pf.nsrc(e.value) == ITEMS:
        return {'entry'}
    if isinstance(e, ast.Attribute):
        s = pf.nsrc(e)
        if s in (WINDOW, COUNT):
            return {'param'}
        if s.startswith('self.') and s.count('.') == 1:
            return {'state'}
        return {f'unknown:{s}'}
    if isinstance(e, ast.BinOp):
        return _leaves(fn, e.left, seen) | _leaves(fn, e.right, seen)
    if isinstance(e, ast.UnaryOp):
        return _leaves(fn, e.operand, seen)
    if isinstance(e, ast.IfExp):
        return _leaves(fn, e.body, seen) | _leaves(fn, e.orelse, seen)
    if isinstance(e, ast.Call) and isinstance(e.func, ast.Name) and e.func.id in PURE and not e.keywords:
        out = set()
        for a in e.args:
            out |= _leaves(fn, a, seen)
        return out
    return {f'unknown:{pf.nsrc(e)[:40]}'}


_def_nodes = cf.def_nodes


def _alternatives(fn: pf.FuncDef, cfg: pf.CFG, A: pf.Node, arg: ast.AST, depth: int = 3) -> List[ast.AST]:
    """The expressions whose value can be the appended one: reaching definitions of a local (flow-sensitive at the first level),
    both arms of a conditional expression."""
    if isinstance(arg, ast.IfExp):
        return _alternatives(fn, cfg, A, arg.body, depth) + _alternatives(fn, cfg, A, arg.orelse, depth)
    if isinstance(arg, ast.Name) and depth > 0:
        dn = _def_nodes(cfg, arg.id)
        if not dn:
            return [arg]
        out: List[ast.AST] = []
        for D in dn:
            reaches = cfg.path_avoiding(D, lambda n: n is A, lambda n: any(n is x for x in dn)) is not None
            if not reaches:
                continue
            a = D.ast
            v = getattr(a, 'value', None)
            if isinstance(a, (ast.Assign, ast.AnnAssign)) and v is not None and (isinstance(a, ast.AnnAssign) or all(isinstance(t, ast.Name) for t in a.targets)):
                if isinstance(v, (ast.Name, ast.IfExp)) and _clock_names(fn).get(getattr(v, 'id', ''), None) is None:
                    out += _alternatives(fn, cfg, D, v, depth - 1)
                else:
                    out.append(v)
            else:
                out.append(a)  # opaque definition (tuple unpacking, +=)
        return out or [arg]
    return [arg]


class Rec:
    """One recording statement and what was decided about it."""

    def __init__(self, node: pf.Node, call: ast.Call):
        self.node = node
        self.call = call
        self.now: Optional[str] = None
        self.clock: Optional[str] = None
        self.guard: Optional[Tuple[pf.Node, str]] = None
        self.inline: Optional[str] = None


def _recordings(ctx: Ctx, m: pf.Module, cls: ast.ClassDef, fn: pf.FuncDef, q: str) -> List[Rec]:
    """R1/R2 for every append in one function."""
    cfg = pf.cfg(fn)
    apps = af.stmt_nodes(cfg, lambda n: af.node_is_call(n, f'{ITEMS}.append') is not None or af.node_is_call(n, f'{ITEMS}.appendleft') is not None)
    recs: List[Rec] = []
    cnames = _clock_names(fn)
    many = len(apps) > 1
    for A in apps:
        acall = af.node_is_call(A, f'{ITEMS}.append') or af.node_is_call(A, f'{ITEMS}.appendleft')
        ctx.need(acall is not None and len(acall.args) == 1 and not acall.keywords, f'{q}: append has no single argument')
        ctx.need(A.kind == 'stmt' and isinstance(A.ast, ast.Expr) and A.ast.value is acall, f'{q}: `{A.text()}` records an entry inside a larger statement (not analysed)')
        r = Rec(A, acall)  # type: ignore[arg-type]
        recs.append(r)
        arg = acall.args[0]  # type: ignore[union-attr]
        cons = f'{F}::{q}::{pf.nsrc(A.ast)}'

        # ---- R2: what is recorded -------------------------------------------------------
        alts = _alternatives(fn, cfg, A, arg)
        computed: List[str] = []
        offset: List[str] = []
        unknown: List[str] = []
        clocks: Set[str] = set()
        for alt in alts:
            if not isinstance(alt, ast.expr):
                unknown.append(f'`{pf.nsrc(alt)}`')
                continue
            c = _clock_call(alt)
            if c is not None:
                clocks.add(c)
                continue
            if isinstance(alt, ast.Name) and alt.id in cnames:
                clocks |= cnames[alt.id]
                continue
            lv = _leaves(fn, alt)
            unk = sorted(x for x in lv if x.startswith('unknown:'))
            clk = sorted(x for x in lv if x.startswith('clock:'))
            if not clk and not unk:
                names = {'entry': 'other entries of the deque', 'param': 'the window / count', 'const': 'constants', 'state': 'stored state'}
                computed.append(f'`{pf.nsrc(alt)}` (built only from: {", ".join(sorted(names.get(x, x) for x in lv))})')
                continue
            if clk and not unk:
                atoms = {f'{c2}()': 'now' for c2 in CLOCKS}
                atoms.update({n2: 'now' for n2 in cnames})
                atoms.update({WINDOW: 'W', f'{ITEMS}[0]': 'head', f'{ITEMS}[-1]': 'last'})
                lin = af.linear(pf.expand_locals(fn, alt), atoms)
                if lin is not None and lin != {'now': Fraction(1)}:
                    offset.append(f'`{pf.nsrc(alt)}` (= {af.lin_str(lin)})')
                    continue
                if lin is not None:
                    clocks |= {x[6:] for x in clk}
                    continue
            unknown.append(f'`{pf.nsrc(alt)}` ({", ".join(unk) or "mixes a clock read with other times"})')
        if computed or offset:
            what = computed[0] if computed else offset[0]
            ctx.bad('R2', cons + '::clock',
                    f'the recorded timestamp `{pf.nsrc(arg)}` can be {what}, a time computed from other entries / the window, not the clock value at admission: '
                    'the deque no longer holds admission times.  A time earlier than the real admission (slot-free time, woken late) leaves the window early; '
                    'a reservation in the future is shared by every waiter queued behind the same oldest entry (count=1, window=10, five entries at t=0: '
                    f'admissions 0,10,10,10,10).  Either way more than {COUNT} entries are admitted in one window', m.path, A.lineno)
        else:
            ctx.need(not unknown, f'{q}: appended value {unknown[0] if unknown else ""} is neither a clock read nor a recognisably computed time')
            ctx.need(len(clocks) >= 1, f'{q}: appended value `{pf.nsrc(arg)}` not classified')
            ctx.check(len(clocks) == 1, 'R2', cons + '::clock', f'`{pf.nsrc(arg)}` is read from different clocks ({sorted(clocks)}): timestamps in the deque are not comparable',
                      m.path, A.lineno, detail={'clock': sorted(clocks)})
            if len(clocks) == 1:
                r.clock = next(iter(clocks))
            if isinstance(arg, ast.Name) and arg.id in cnames:
                r.now = arg.id
                # freshness: the clock is read on every path to the append, and no suspension lies between the (last) read and the append
                Ns = [n for n in _def_nodes(cfg, arg.id)]
                dom = cfg.dominated_by(A, lambda n: any(n is x for x in Ns))
                stale = [x for x in cfg.nodes if pf.node_has_await(x) and x is not A
                         and cfg.path_avoiding(x, lambda n: n is A, lambda n: any(n is y for y in Ns)) is not None] if dom else []
                _pcheck(ctx, fn, dom and not stale, 'R2', cons + '::fresh',
                          (f'`{stale[0].text()}` suspends between the clock read and the append: the entry is recorded with a time older than its admission, leaves the '
                           f'window early, and more than {COUNT} entries fall into one window') if stale else f'`{arg.id}` is not read on every path to the append',
                          m.path, A.lineno)
            else:
                # a clock read, but inline / through a copy: freshness and the R3/R4 position rules are stated for one clock local
                r.inline = pf.nsrc(arg)
        # the caller is let in at the recorded time: nothing suspends between recording and returning
        late = [cfg.nodes[i] for i in sorted(cfg.reachable_from(A)) if cfg.nodes[i] is not A and pf.node_has_await(cfg.nodes[i])]
        _pcheck(ctx, fn, not late, 'R2', cons + '::admitted when recorded',
                  f'`{late[0].text() if late else ""}` suspends after the entry was recorded and before __aenter__ returns: the entry is really admitted later than its '
                  f'recorded time, so it leaves the window early and the next entry is let in less than one window after it (more than {COUNT} per window)',
                  m.path, A.lineno)

        # ---- R1: the admission guard ------------------------------------------------------
        ev = af.TestEval(f'len({ITEMS})', COUNT, [])
        problems: List[str] = []
        pathy: List[str] = []
        undecided: List[str] = []
        for t in cfg.nodes:
            if t.kind != 'test' or not af.mentions(t.ast, COUNT):
                continue
            for label in ('T', 'F'):
                if not any(lab == label for _, lab in t.succ):
                    continue
                if not af.every_path_uses_edge(cfg, A, t, label) or not af.direct(cfg, t, A, label):
                    continue
                why = _opaque(fn, t.ast)
                if why is not None:
                    undecided.append(f'`{pf.nsrc(t.ast)}` reads {why}, whose relation to len({ITEMS}) is not visible in the test')
                    continue
                try:
                    rows = ev.rows(t.ast)
                except AnalysisError as e:
                    undecided.append(str(e))
                    continue
                taken = label == 'T'
                over = [x for x in rows if x[2] == taken and x[0] != '<']
                latex = [x for x in rows if x[2] != taken and x[0] == '<']
                if over:
                    problems.append(f'`{pf.nsrc(t.ast)}` ({label}-edge) lets `{pf.nsrc(A.ast)}` record an entry when len({ITEMS}) {over[0][0]} {COUNT}: the window then holds '
                                    f'more than {COUNT} entries (count=1: a second caller inside the window is recorded next to the first)')
                    continue
                if latex:
                    problems.append(f'`{pf.nsrc(t.ast)}` refuses an entry although len({ITEMS}) < {COUNT} (not admitted as soon as possible)')
                    continue
                aw = [x for x in af.between(cfg, t, A, label) if pf.node_has_await(x)]
                if aw:
                    pathy.append(f'`{aw[0].text()}` suspends between the admission test and the append: concurrent entries all pass the test first')
                    continue
                grow = [x for x in af.between(cfg, t, A, label) if af.node_is_call(x, f'{ITEMS}.append') is not None]
                if grow:
                    pathy.append(f'`{grow[0].text()}` already grows the deque between the admission test and `{pf.nsrc(A.ast)}`')
                    continue
                r.guard = (t, label)
        consg = f'{F}::{q}::admission guard' + (f' of `{pf.nsrc(A.ast)}`' if many else '')
        if r.guard is not None:
            ctx.ok('R1', consg, {'test': pf.nsrc(r.guard[0].ast), 'edge': r.guard[1]})
        elif problems:
            ctx.bad('R1', consg, problems[0], m.path, A.lineno)
        elif pathy:
            _pcheck(ctx, fn, False, 'R1', consg, pathy[0], m.path, A.lineno)
        elif undecided:
            raise AnalysisError(f'{consg}: guard not recognised: {undecided[0]}')
        else:
            # positive evidence only: every test on the way to the append is transparent and none of them relates len(items) to count
            od = _opaque_dominating_test(fn, cfg, A)
            ctx.need(od is None, f'{consg}: the append is guarded by {od}: guard not recognised')
            un = _uninlined(cls, fn)
            ctx.need(not un, f'{consg}: {fn.name} still calls {un[0] if un else ""} (helper not inlined): guard not recognised')
            ctx.bad('R1', consg, f'`{pf.nsrc(A.ast)}` is not dominated by a test of len({ITEMS}) against {COUNT}: entries are recorded without counting the window '
                    f'(more than {COUNT} admissions per window; or, for a timestamp that is not an admission, later entries refused although fewer than {COUNT} were admitted)',
                    m.path, A.lineno)
    # one call records at most one entry
    if apps:
        twice = [(a, b) for a in apps for b in apps if af.direct(cfg, a, b)]
        _pcheck(ctx, fn, not twice, 'R1', f'{F}::{q}::single admission',
                  f'one call of {fn.name} can record more than one entry (`{twice[0][0].text()}` then `{twice[0][1].text()}`)' if twice else '', m.path, apps[0].lineno)
    return recs


# --------------------------------------------------------------------------------------


def _field_names(m0: pf.Module) -> None:
    """The private fields are what __init__ makes them, not what they are called: the deque is the attribute bound to `deque()`, the count /
    window are the attributes bound to `<rate limit>.count` / `.window_seconds`.  (Unresolved: the historical names are kept and the rules
    decline on their own when those are absent.)"""
    global ITEMS, COUNT, WINDOW
    ITEMS, COUNT, WINDOW = 'self._items', 'self._count', 'self._window_seconds'
    cls0 = m0.cls(CLS)
    init = next((f for f in cls0.body if isinstance(f, ast.FunctionDef) and f.name == '__init__'), None)
    if init is None or len(init.args.args) != 2:
        return
    me, rl = init.args.args[0].arg, init.args.args[1].arg
    found: Dict[str, List[str]] = {'items': [], 'count': [], 'window': []}
    for st in init.body:
        tgt = st.targets[0] if isinstance(st, ast.Assign) and len(st.targets) == 1 else st.target if isinstance(st, ast.AnnAssign) and st.value is not None else None
        if not (isinstance(tgt, ast.Attribute) and isinstance(tgt.value, ast.Name) and tgt.value.id == me):
            continue
        v = pf.resolve_expr(init, st.value)  # type: ignore[union-attr]
        if isinstance(v, ast.Call) and (_dot(v.func) or '').split('.')[-1] == 'deque':
            found['items'].append(tgt.attr)
        elif isinstance(v, ast.Attribute) and pf.nsrc(pf.resolve_expr(init, v.value)) == rl and v.attr == 'count':
            found['count'].append(tgt.attr)
        elif isinstance(v, ast.Attribute) and pf.nsrc(pf.resolve_expr(init, v.value)) == rl and v.attr == 'window_seconds':
            found['window'].append(tgt.attr)
    if len(found['items']) == 1:
        ITEMS = f'self.{found["items"][0]}'
    if len(found['count']) == 1:
        COUNT = f'self.{found["count"][0]}'
    if len(found['window']) == 1:
        WINDOW = f'self.{found["window"][0]}'


def run(ctx: Ctx) -> None:
    ctx.explanation = ('Guard dominance and await-atomicity of every recording statement on the CFG of RateLimiter.__aenter__, truth table of the admission test, '
                       'reaching-definition classification of the recorded value, linear forms of the eviction condition and sleep amount compared with '
                       'head - now + window, closed set of deque operations.')
    ctx.rule('R1', 'every append only through an edge taken exactly when len(items) < count, atomically; every return passes one append', 3)
    ctx.rule('R2', 'every recorded timestamp is the clock value read with no await before the append, and nothing suspends between append and return', 3)
    ctx.rule('R3', 'eviction pops the left end while non-empty and head <= now - window (same clock), between clock read and admission test; deque discipline', 11)
    ctx.rule('R4', 'the only wait is sleep(head - (now - window)), started at the clock read (no other suspension in between), only for refused entries, '
                   'and the clock is re-read after every suspension', 4)
    ctx.rule('R5', 'count / window come from the RateLimit and are not reassigned', 4)
    ctx.assume('asyncio runs one coroutine at a time and switches only at await; the clock does not go backwards')
    m0 = pf.load(F)
    ctx.unit('files')
    _IMP.clear()
    _IMP.update(m0.imports())
    _field_names(m0)
    # __aenter__ is analysed with its same-class helpers inlined (an extracted `_expire(now)` / `if self._try_admit(now):` /
    # `sleep(self._wait_time(now))` is seen through) and every method in one spelling (engines/c2440norm.py: locals holding a pure
    # sub-expression moved to their uses, guard clauses folded into the loop condition, `del q[0]` read as `q.popleft()`)
    m, il = nm.prepare(m0, CLS, [ENTER], exclude=('__init__', '__aexit__'), deque_attrs=(ITEMS,))
    cls = m.cls(CLS)
    absorbed = il.absorbed
    ctx.unit('helpers_inlined', len(il.inlined))
    fn = af.method(m, cls, ENTER)
    ctx.need(isinstance(fn, ast.AsyncFunctionDef), '__aenter__ is not a coroutine')
    cfg = pf.cfg(fn)
    q = f'{CLS}.{ENTER}'
    ctx.unit('functions', 3)

    def fname(u_func: str) -> str:
        return u_func.split('.')[-1]

    # ---- deque discipline (R3) ---------------------------------------------------------
    uses = [u for u in af.container_uses(m, cls, ITEMS) if fname(u.func) not in absorbed]
    for u in uses:
        cons = f'{F}::{u.func}::{u.detail}'
        line = getattr(u.node, 'lineno', 0)
        if u.kind == 'assign':
            p = m.parents().get(u.node)
            val = getattr(p, 'value', None)
            ctx.need(u.func.endswith('__init__') and isinstance(val, ast.Call) and pf.dotted(val.func) in ('collections.deque', 'deque') and not val.args,
                     f'{cons}: _items is not initialised once with an empty deque in __init__')
            ctx.ok('R3', cons, 'empty deque')
        elif u.kind in DEQUE_OK:
            ctx.ok('R3', cons, u.kind)
        elif u.kind in DEQUE_BAD:
            ctx.bad('R3', cons, f'`{u.detail}` {DEQUE_BAD[u.kind]}: the window count is wrong and more than `count` entries can be admitted per window',
                    m.path, line)
        elif u.kind in ('delitem:0', 'setitem:0'):
            raise AnalysisError(f'{cons}: `{u.detail}` writes the oldest entry in a way that is not analysed')
        elif u.kind.startswith(('index:', 'setitem:', 'delitem:')):
            ctx.bad('R3', cons, f'`{u.detail}` does not address the oldest entry [0]', m.path, line)
        else:
            raise AnalysisError(f'{cons}: unrecognised use of the timestamp deque ({u.kind})')

    # ---- R1 / R2 for every recording statement of the class -----------------------------
    recs = _recordings(ctx, m, cls, fn, q)
    ctx.need(len(recs) >= 1, f'{q}: no statement records the entry (`{ITEMS}.append(...)`)')
    for st in cls.body:
        if isinstance(st, (ast.FunctionDef, ast.AsyncFunctionDef)) and st is not fn and st.name not in absorbed:
            _recordings(ctx, m, cls, st, f'{CLS}.{st.name}')
    apps = [r.node for r in recs]
    # every (reachable) return passes an append
    p = cfg.path_avoiding(cfg.entry, lambda n: n is cfg.exit, lambda n: any(n is a for a in apps))
    if p is not None:
        un = _uninlined(cls, fn)
        ctx.need(not un, f'{q}: a return is reached without an append in {ENTER} itself, which still calls {un[0] if un else ""} (helper not inlined)')
    _pcheck(ctx, fn, p is None, 'R1', f'{F}::{q}::every return records an entry',
              'a path returns from __aenter__ without recording a timestamp: that entry is not counted against the rate'
              + (f' (via `{p[-2].text()}`)' if p and len(p) >= 2 else ''), m.path, fn.lineno)

    _window(ctx, m, cls, fn, cfg, q, recs, uses)

    # ---- R5 parameters ------------------------------------------------------------------
    _parameters(ctx, m, cls)


def _bound_value(ctx: Ctx, m: pf.Module, owner: ast.ClassDef, init: pf.FuncDef, attr: str, where: str) -> Optional[ast.AST]:
    """The expression `self.<attr>` is bound to: written exactly once in the class, by a plain / annotated assignment at the top level of
    __init__.  A write anywhere else is reported by the caller (returns None after ctx.bad); other shapes decline."""
    par = m.parents()
    writes = [n for n in ast.walk(owner) if isinstance(n, ast.Attribute) and isinstance(n.ctx, (ast.Store, ast.Del)) and pf.nsrc(n) == attr]
    outside = [w for w in writes if m.enclosing_func(w) is not init]
    if outside:
        f = m.enclosing_func(outside[0])
        ctx.bad('R5', where, f'{attr} is written again outside __init__ (`{pf.nsrc(par.get(outside[0]))}` in {f.name if f is not None else "the class body"}): '
                'the limiter no longer enforces the configured rate', m.path, getattr(outside[0], 'lineno', init.lineno))
        return None
    ctx.need(len(writes) == 1, f'{where}: {attr} is assigned {len(writes)} times in __init__ (expected once)')
    st = par.get(writes[0])
    ok = (isinstance(st, ast.Assign) and len(st.targets) == 1 and st.targets[0] is writes[0]) or (isinstance(st, ast.AnnAssign) and st.target is writes[0] and st.value is not None)
    ctx.need(ok and any(st is x for x in init.body), f'{where}: `{pf.nsrc(st)}` is not a plain assignment at the top level of __init__')
    return pf.resolve_expr(init, st.value)  # type: ignore[union-attr]


def _parameters(ctx: Ctx, m: pf.Module, cls: ast.ClassDef) -> None:
    """R5.  A violation needs a value that is recognisably something else (another field, a shifted / constant value, a later write); a
    spelling that is merely not understood declines."""
    init = af.method(m, cls, '__init__')
    params = [a.arg for a in init.args.args]
    ctx.need(len(params) == 2, f'{CLS}.__init__ parameters changed: {params}')
    rl = params[1]
    ctx.need(len(pf.assignments(init).get(rl, [])) == 1, f'{CLS}.__init__: parameter `{rl}` is re-bound')
    fields = {COUNT: 'count', WINDOW: 'window_seconds'}
    atoms = {f'{rl}.count': 'count', f'{rl}.window_seconds': 'window_seconds'}
    for attr, field in fields.items():
        where = f'{F}::{CLS}::{attr}'
        v = _bound_value(ctx, m, cls, init, attr, where)
        if v is None:
            continue
        if pf.nsrc(v) == f'{rl}.{field}':
            ctx.ok('R5', where, f'{rl}.{field}')
            continue
        lin = af.linear(v, atoms)
        ctx.need(lin is not None, f'{where}: bound to `{pf.nsrc(v)}`, which is not recognised as {rl}.{field}')
        ctx.check(lin == {field: Fraction(1)}, 'R5', where, f'{attr} is bound to `{pf.nsrc(v)}` (= {af.lin_str(lin)}), not to the configured `{rl}.{field}`',  # type: ignore[arg-type]
                  m.path, init.lineno)
    rcls = m.cls('RateLimit')
    rinit = af.method(m, rcls, '__init__')
    rp = [a.arg for a in rinit.args.args]
    ctx.need(rp[1:] == ['count', 'window_seconds'], f'RateLimit.__init__ parameters changed: {rp}')
    for name in ('count', 'window_seconds'):
        where = f'{F}::RateLimit.__init__::self.{name}'
        ctx.need(len(pf.assignments(rinit).get(name, [])) == 1, f'{where}: parameter `{name}` is re-bound')
        v = _bound_value(ctx, m, rcls, rinit, f'self.{name}', where)
        if v is None:
            continue
        if isinstance(v, ast.Name) and v.id == name:
            ctx.ok('R5', where, name)
            continue
        lin = af.linear(v, {'count': 'count', 'window_seconds': 'window_seconds'})
        ctx.need(lin is not None, f'{where}: bound to `{pf.nsrc(v)}`, which is not recognised as the constructor argument `{name}`')
        ctx.check(lin == {name: Fraction(1)}, 'R5', where, f'RateLimit.{name} is bound to `{pf.nsrc(v)}` (= {af.lin_str(lin)}), not to the constructor argument `{name}`',  # type: ignore[arg-type]
                  m.path, rinit.lineno)


def _other_clock(fn: pf.FuncDef, e: ast.AST, clock: Optional[str], now: str) -> Optional[str]:
    """a clock other than the recording one read (inline or through a clock-defined local) inside expression e"""
    if clock is None:
        return None
    cn = _clock_names(fn)
    for x in ast.walk(e):
        c = _clock_call(x)
        if c is not None and c != clock:
            return pf.nsrc(x)
        if isinstance(x, ast.Name) and x.id != now and x.id in cn and cn[x.id] != {clock}:
            return f'{x.id} = {sorted(cn[x.id])[0]}()'
    return None


def _attr_const(m: pf.Module, cls: ast.ClassDef, attr: str) -> Optional[Fraction]:
    """Value of `self.<attr>` when it is a numeric constant of the class: bound exactly once (in __init__ from a constant expression, or as a
    class-level constant) and never written anywhere else in the class."""
    stores = [n for n in ast.walk(cls) if isinstance(n, ast.Attribute) and n.attr == attr and isinstance(n.ctx, (ast.Store, ast.Del))
              and isinstance(n.value, ast.Name) and n.value.id in ('self', 'cls', cls.name)]
    par = m.parents()
    clsdefs = [st for st in cls.body if isinstance(st, (ast.Assign, ast.AnnAssign)) and getattr(st, 'value', None) is not None
               and any(isinstance(t, ast.Name) and t.id == attr for t in (st.targets if isinstance(st, ast.Assign) else [st.target]))]
    if len(stores) + len(clsdefs) != 1:
        return None
    if clsdefs:
        return af.const_number(m, clsdefs[0].value)  # type: ignore[arg-type]
    st = par.get(stores[0])
    f = m.enclosing_func(stores[0])
    if isinstance(st, ast.Assign) and len(st.targets) == 1 and f is not None and f.name == '__init__' and isinstance(stores[0].ctx, ast.Store) \
            and any(st is x for x in f.body):
        return af.const_number(m, st.value)
    return None


def _after_def_before_use(cfg: pf.CFG, D: pf.Node, U: pf.Node) -> List[pf.Node]:
    """Nodes that can execute after D and before some evaluation of U without D being executed again in between (U itself included when
    it lies on a cycle that avoids D)."""
    fwd: Set[int] = set()
    stack = [x for x, _ in D.succ]
    while stack:
        n = stack.pop()
        if n.id in fwd or n is D:
            continue
        fwd.add(n.id)
        stack.extend(x for x, _ in n.succ)
    bwd: Set[int] = set()
    stack = [x for x, _ in U.pred]
    while stack:
        n = stack.pop()
        if n.id in bwd or n is D:
            continue
        bwd.add(n.id)
        stack.extend(x for x, _ in n.pred)
    return [n for n in cfg.nodes if n.id in fwd and n.id in bwd]


def _time_norm(m: pf.Module, cls: ast.ClassDef, fn: pf.FuncDef, cfg: pf.CFG, e: ast.AST, now: str, N, U: pf.Node, depth: int = 4) -> ast.AST:
    """`e` (evaluated at CFG node U) rewritten over the atoms head / now / window: module-level and class-level numeric constants are
    replaced by their value; a local other than the clock local is replaced by its defining expression when that is its only definition,
    the definition is (re)computed after the clock read(s) N on every path from a clock read to U (so it speaks about the same `now`), and - if it reads
    the deque - nothing pops or appends between the definition and U.  Anything else is left in place (the caller's linear form then
    declines)."""
    import copy
    reads: List[pf.Node] = list(N) if isinstance(N, (list, tuple)) else [N]

    class _S(ast.NodeTransformer):
        def __init__(self, d: int, at: pf.Node):
            self.d, self.at = d, at

        def visit_Lambda(self, node):  # noqa: N802
            return node

        def visit_Attribute(self, node: ast.Attribute):  # noqa: N802
            s = pf.nsrc(node)
            if s in (WINDOW, COUNT, ITEMS) or not isinstance(node.ctx, ast.Load):
                return self.generic_visit(node)
            if isinstance(node.value, ast.Name) and node.value.id in ('self', cls.name):
                c = _attr_const(m, cls, node.attr)
                if c is not None:
                    return ast.copy_location(ast.Constant(value=int(c) if c.denominator == 1 else float(c)), node)
            return self.generic_visit(node)

        def visit_Name(self, node: ast.Name):  # noqa: N802
            if not isinstance(node.ctx, ast.Load) or node.id == now or self.d <= 0:
                return node
            dn = cf.def_nodes(cfg, node.id)
            if not dn and node.id not in pf.assignments(fn):
                c = af.const_number(m, node)
                if c is not None:
                    return ast.copy_location(ast.Constant(value=int(c) if c.denominator == 1 else float(c)), node)
                return node
            dd = pf.single_def(fn, node.id)
            if len(dn) != 1 or dd is None or not isinstance(dd, ast.expr) or isinstance(dd, (ast.Await, ast.Yield, ast.YieldFrom)):
                return node
            D = dn[0]
            if not (isinstance(D.ast, (ast.Assign, ast.AnnAssign)) and D.ast.value is dd):
                return node
            if D is self.at or not cfg.dominated_by(self.at, lambda n: n is D):
                return node
            if any(cfg.path_avoiding(N1, lambda n: n is self.at, lambda n: n is D) is not None for N1 in reads):
                return node  # some path from the clock read to the use does not recompute the local: it can speak about an older `now`
            if af.mentions(dd, ITEMS) and any(any(isinstance(c.func, ast.Attribute) and pf.nsrc(c.func.value) == ITEMS for c in pf.node_calls(x))
                                               for x in _after_def_before_use(cfg, D, self.at)):
                return node  # the deque can change between the definition and (a later evaluation of) the use
            return _S(self.d - 1, D).visit(copy.deepcopy(dd))

    return _S(depth, U).visit(copy.deepcopy(e))


def _window(ctx: Ctx, m: pf.Module, cls: ast.ClassDef, fn: pf.FuncDef, cfg: pf.CFG, q: str, recs: List[Rec], uses) -> None:
    """R3 (eviction loop) and R4 (sleep): both are stated relative to the clock local that is recorded."""
    nows = sorted({r.now for r in recs if r.now is not None})
    clocks = sorted({r.clock for r in recs if r.clock is not None})
    if len(clocks) > 1:
        ctx.bad('R2', f'{F}::{q}::one clock', f'entries are recorded with different clocks ({", ".join(c + "()" for c in clocks)}): timestamps in the deque are not '
                'comparable, the eviction test is wrong for one kind', m.path, fn.lineno)
    if not nows:
        inl = [r for r in recs if r.inline is not None]
        if inl:
            for lp0 in [n for n in pf.walk_shallow(fn) if isinstance(n, ast.While) and af.mentions(n.test, f'{ITEMS}[0]')]:
                oc0 = _other_clock(fn, lp0.test, inl[0].clock, '')
                if oc0 is not None:
                    ctx.bad('R3', f'{F}::{q}::eviction loop::clock', f'the eviction condition `{pf.nsrc(lp0.test)}` measures the window with `{oc0}` while the entries are '
                            f'recorded with {inl[0].clock}(): the two clocks have different epochs, so entries are evicted at once (no limiting) or never', m.path, lp0.lineno)
            raise AnalysisError(f'{q}: timestamp `{inl[0].inline}` is a clock read but not through one local defined only by clock reads (idiom not analysed)')
        af.blocked(ctx, 'R2', 'R3', 'R4')
        return
    ctx.need(len(nows) == 1, f'{q}: entries are recorded from different clock locals {nows} (R3/R4 are written for one)')
    now = nows[0]
    clock = clocks[0] if len(clocks) == 1 else None
    # every definition of the clock local is a plain clock read (that is what makes it a clock local); there may be several of them
    # (`now = time.time()` before a waiting loop and again after the sleep): the position rules are stated for "the last read"
    Ns = _def_nodes(cfg, now)
    ctx.need(len(Ns) >= 1, f'{q}: no definition of `{now}` on the CFG')
    ctx.unit('clock_reads', len(Ns))

    def isN(n: pf.Node) -> bool:
        return any(n is x for x in Ns)
    apps = [r.node for r in recs]
    guards: List[Tuple[pf.Node, str]] = []
    for r in recs:
        if r.guard is not None and not any(r.guard[0] is g[0] and r.guard[1] == g[1] for g in guards):
            guards.append(r.guard)
    susp = af.stmt_nodes(cfg, pf.node_has_await)

    # ---- R3 eviction loop(s) ------------------------------------------------------------
    loops = [n for n in pf.walk_shallow(fn) if isinstance(n, ast.While) and af.mentions(n.test, f'{ITEMS}[0]')]
    consE = f'{F}::{q}::eviction loop'
    pops = [u for u in uses if u.kind == 'method:popleft']
    Es: List[pf.Node] = []
    if not loops:
        ctx.need(not pops, f'{q}: popleft outside a recognised eviction loop')
        un = _uninlined(cls, fn)
        ctx.need(not un, f'{q}: no eviction loop in {ENTER} itself, which still calls {un[0] if un else ""} (helper not inlined)')
        ctx.bad('R3', consE, 'entries are never evicted: once `count` entries were admitted nobody is admitted again / the sleep amount is computed from a '
                'stale head', m.path, fn.lineno)
        af.blocked(ctx, 'R3', 'R3')
    for lp in loops:
        E = af.test_node(cfg, lp.test)
        Es.append(E)
        # shape of the test:  nonempty and <compare>
        conj = lp.test.values if isinstance(lp.test, ast.BoolOp) and isinstance(lp.test.op, ast.And) else [lp.test]
        cmps = [c for c in conj if isinstance(c, ast.Compare) and af.mentions(c, f'{ITEMS}[0]')]
        rest = [c for c in conj if c not in cmps]
        ctx.need(len(cmps) == 1, f'{q}: eviction test `{pf.nsrc(lp.test)}` has no single comparison on the head')
        ne = af.TestEval('?', '?', [ITEMS])
        for c in rest:
            rows = ne.rows(c)
            ctx.need(all(r[2] == r[1][ITEMS] for r in rows), f'{q}: conjunct `{pf.nsrc(c)}` of the eviction test is not the non-emptiness of the deque')
        ctx.check(bool(rest), 'R3', consE + '::non-empty first', f'`{pf.nsrc(lp.test)}` reads {ITEMS}[0] without first testing that the deque is non-empty: '
                  'IndexError once every entry has left the window', m.path, lp.lineno)
        if rest:
            ctx.need(conj.index(rest[0]) < conj.index(cmps[0]), f'{q}: the emptiness test does not precede the head comparison')
        cmpN = _time_norm(m, cls, fn, cfg, cmps[0], now, Ns, E)
        ctx.need(isinstance(cmpN, ast.Compare), f'{q}: eviction comparison not recognised')
        oc = _other_clock(fn, cmps[0], clock, now) or _other_clock(fn, cmpN, clock, now)
        if oc is not None:
            ctx.bad('R3', consE + '::clock', f'the eviction condition `{pf.nsrc(cmps[0])}` measures the window with `{oc}` while the entries are recorded with {clock}(): '
                    'the two clocks have different epochs, so entries are evicted at once (no limiting) or never (nobody is admitted again)', m.path, lp.lineno)
            af.blocked(ctx, 'R3', 'R3')
        else:
            atoms = {f'{ITEMS}[0]': 'head', now: 'now', WINDOW: 'W'}
            nz = af.compare_leq_zero(cmpN, atoms)  # type: ignore[arg-type]
            ctx.need(nz is not None, f'{q}: eviction comparison `{pf.nsrc(cmps[0])}`' + (f' (= `{pf.nsrc(cmpN)}`)' if pf.nsrc(cmpN) != pf.nsrc(cmps[0]) else '')
                     + f' is not linear in head / {now} / {WINDOW}')
            d, strict = nz  # type: ignore[misc]
            okd = d == WANT
            off = af.lin_sub(d, WANT)
            if okd and strict:
                why = '(an entry exactly one window old is outside the window: with `<` it is kept, the waiter sleeps 0 s and re-tests without ever being admitted at that instant)'
            elif set(off) == {'1'}:
                c0 = off['1']
                g = float(-c0) if c0 < 0 else float(c0)
                why = (f'(an entry is dropped while it is still up to {g:g} s inside the window: with the window full, oldest entry at t0, an arrival at any t in '
                       f'(t0 + W - {g:g}, t0 + W) evicts it and is admitted, so [t0, t0 + W) holds count + 1 admissions; the early stamp carries over to the next generation)'
                       if c0 < 0 else
                       f'(an entry is kept for {g:g} s after it left the window: a caller that could be admitted at t0 + W is refused and sleeps a non-positive time, '
                       f're-testing until t0 + W + {g:g}: not admitted as soon as possible)')
            else:
                why = '(entries are evicted too early -> rate exceeded, or too late -> not admitted when possible)'
            ctx.check(okd and not strict, 'R3', consE + f'::condition `{pf.nsrc(cmps[0])}`',
                      f'evicts while {af.lin_str(d)} {"<" if strict else "<="} 0, the half-open window requires head - now + W <= 0 ' + why, m.path, lp.lineno)
        # body: ONE `popleft()` per evaluation of the condition; other statements are tolerated when they cannot matter here (no use of the
        # deque, no suspension, no jump)
        ctx.need(not lp.orelse, f'{q}: eviction loop with an else clause (not analysed)')
        popst = [s_ for s_ in lp.body if isinstance(s_, ast.Expr) and pf.call_name(s_.value) == f'{ITEMS}.popleft']
        other = [s_ for s_ in lp.body if s_ not in popst]
        inert = all(not af.mentions(s_, ITEMS) and not pf.has_await(s_) and not any(isinstance(x, (ast.Break, ast.Continue, ast.Return, ast.Raise, ast.While, ast.For, ast.Try,
                                                                                                  ast.With, ast.AsyncWith, ast.AsyncFor)) for x in ast.walk(s_)) for s_ in other)
        if len(popst) == 1 and inert:
            ctx.ok('R3', consE + '::body', 'one popleft per evaluation of the condition')
        elif len(popst) >= 2 and inert and len(popst) + len(other) == len(lp.body):
            ctx.bad('R3', consE + '::body', f'the eviction loop body `{"; ".join(pf.nsrc(s_) for s_ in lp.body)}` pops {len(popst)} entries per evaluation of the condition: '
                    f'the entries behind the head are dropped without being tested against the window (still inside it: more than {COUNT} admissions per window)',
                    m.path, lp.lineno)
        elif not popst and not any(af.mentions(s_, ITEMS) for s_ in lp.body) and inert:
            ctx.bad('R3', consE + '::body', f'the eviction loop body `{"; ".join(pf.nsrc(s_) for s_ in lp.body)}` never removes the head it tested: the loop does not terminate / '
                    'nothing is evicted', m.path, lp.lineno)
        else:
            raise AnalysisError(f'{q}: eviction loop body `{"; ".join(pf.nsrc(s_) for s_ in lp.body)[:120]}` not recognised')
    if loops:
        # Position, stated for "the last clock read" so that it does not depend on how many reads / copies of the eviction loop there are:
        # every way of reaching the admission test - from the entry or from a suspension point - reads the clock, and every way of reaching
        # it from a clock read runs an eviction loop (which then uses that read); nothing suspends in between.
        def isE(n: pf.Node) -> bool:
            return any(n is x for x in Es)
        if guards:
            for T, _ in guards:
                stale_now = [s for s in [cfg.entry] + susp if cfg.path_avoiding(s, lambda n, T=T: n is T, isN) is not None]
                unevicted = [s for s in [cfg.entry] + susp + Ns if cfg.path_avoiding(s, lambda n, T=T: n is T, isE) is not None]
                _pcheck(ctx, fn, not stale_now and not unevicted, 'R3', consE + '::position',
                          'the eviction loop is not run, with the current clock value, on every path between the clock read and the admission test: '
                          'entries that already left the window are still counted (late admission) or the test uses an outdated deque'
                          + (f' (after `{(stale_now + unevicted)[0].text()}`)' if (stale_now + unevicted) and (stale_now + unevicted)[0] is not cfg.entry else ''),
                          m.path, loops[0].lineno)
        else:
            af.blocked(ctx, 'R1', 'R3')
    # every popleft is the body of such a loop: nothing else may forget an entry
    in_loop = {id(x) for lp in loops for x in ast.walk(lp)}
    for u in pops:
        if id(u.node) in in_loop:
            continue
        cons = f'{F}::{u.func}::{u.detail}::only while the head left the window'
        ufn = m.enclosing_func(u.node)
        ucfg = pf.cfg(ufn) if ufn is not None else None
        tested = False
        after_susp: Optional[pf.Node] = None
        if ucfg is not None:
            for P in ucfg.node_of(u.node):
                if any(t.kind == 'test' and af.mentions(t.ast, f'{ITEMS}[0]') and af.every_path_uses_edge(ucfg, P, t, 'T') for t in ucfg.nodes):
                    tested = True
                for x in ucfg.nodes:
                    if after_susp is None and pf.node_has_await(x) and x is not P and af.direct(ucfg, x, P):
                        after_susp = x
        ctx.need(not tested, f'{cons}: a second eviction site guarded by a test on the head (not analysed)')
        if ucfg is not None and ufn is not None:
            for P in ucfg.node_of(u.node):
                od = _opaque_dominating_test(ufn, ucfg, P)
                ctx.need(od is None, f'{cons}: guarded by {od} (not analysed)')
        if after_susp is not None:
            example = (f'the head at the time the task resumes from `{after_susp.text()}` need not be the entry it was looking at before: two waiters parked on the same '
                       f'oldest entry both resume when it expires, the first evicts it and is admitted, the second drops the NEXT entry, which is still inside the window '
                       f'(count=1, window=10, arrivals 0,1,2: admissions 0,10,10 - two in [10, 20); count=2, arrivals 0,1,2,2: 0,1,10,10 - three in [1, 11))')
        else:
            example = ('count=1, window=10: entry at t=0, its slot is handed back at t=1, an arrival at t=2 is admitted: 2 admissions in [0, 10)')
        ctx.bad('R3', cons, f'`{u.detail}` in {u.func} drops the oldest entry without testing that it is at least one window old: an admission that did happen is '
                f'forgotten while it is still inside the window and another caller is let in ({example})', m.path, getattr(u.node, 'lineno', 0))

    # ---- R4 the suspension points -------------------------------------------------------
    consS = f'{F}::{q}::sleep'
    sleeps: List[Tuple[pf.Node, ast.AST]] = []
    blockers: Dict[int, str] = {}
    for S in susp:
        kind, payload = _suspension(ctx, m, cls, fn, cfg, q, S)
        if kind == 'sleep':
            sleeps.append((S, payload))  # type: ignore[arg-type]
        else:
            blockers[S.id] = payload  # type: ignore[assignment]
    if not sleeps:
        un = _uninlined(cls, fn)
        ctx.need(not un, f'{q}: no sleep in {ENTER} itself, which still calls {un[0] if un else ""} (helper not inlined)')
        ctx.bad('R4', consS, 'a refused entry never sleeps until the oldest entry leaves the window: __aenter__ spins on the clock and blocks the event loop', m.path, fn.lineno)
        af.blocked(ctx, 'R4', 'R4')
    many = len(sleeps) > 1
    for S, arg in sleeps:
        consS = f'{F}::{q}::sleep' + (f' `{pf.nsrc(S.ast)}`' if many else '')
        # the amount is a time difference against the clock value `now`: it is the right amount only if the sleep starts when `now` was read
        mid = [x for x in _after_reads_before(cfg, Ns, S) if pf.node_has_await(x)]
        if mid:
            X = mid[0]
            how = blockers.get(X.id, 'a suspension point')
            _pcheck(ctx, fn, False, 'R4', consS + '::starts at the clock read',
                    f'`{X.text()}` ({how}) can suspend between the clock read `{now} = {clock or "clock"}()` and `{S.text()}`: the amount is the time until the oldest entry '
                    f'leaves the window counted from the clock read, but the sleep only starts when that suspension ends, so the waiter wakes later than head + window by the '
                    f'time it spent suspended - not admitted as soon as possible (count=2, window=10, arrivals 0,1,2,2: the second waiter computes 8 s at t=2, is resumed at '
                    f't=10 when the first waiter\'s sleep ends and sleeps until 18, although the entry of t=1 left the window at 11)', m.path, S.lineno)
        else:
            ctx.ok('R4', consS + '::starts at the clock read', 'no suspension point between the clock read and the sleep')
        amount = _strip_nonneg(_time_norm(m, cls, fn, cfg, arg, now, Ns, S))
        oc = _other_clock(fn, pf.resolve_expr(fn, arg), clock, now) or _other_clock(fn, amount, clock, now)
        if oc is not None:
            ctx.bad('R4', consS + '::clock', f'the sleep amount `{pf.nsrc(amount)}` is computed with `{oc}` while the entries are recorded with {clock}(): '
                    'the difference of two clocks is not the time until the oldest entry leaves the window', m.path, S.lineno)
        else:
            lin = af.linear(amount, {f'{ITEMS}[0]': 'head', now: 'now', WINDOW: 'W'})
            ctx.need(lin is not None, f'{q}: sleep amount `{pf.nsrc(amount)}` is not linear in head / {now} / {WINDOW}')
            ctx.check(lin == WANT, 'R4', consS + f'::amount `{pf.nsrc(amount)}`',
                      f'sleeps {af.lin_str(lin)} seconds; the time until the oldest entry leaves the window is head - now + W '  # type: ignore[arg-type]
                      '(longer: not admitted as soon as possible; shorter: busy re-testing)', m.path, S.lineno)
        # reached only when refused
        if guards:
            def not_refusing(a: pf.Node, b: pf.Node, lab: str) -> bool:
                return not any(a is T and lab in ('T', 'F') and lab != gl for T, gl in guards)
            free = cfg.path_avoiding(cfg.entry, lambda n, S=S: n is S, lambda n: False, edge_ok=not_refusing)
            _pcheck(ctx, fn, free is None, 'R4', consS + '::only when refused', 'the sleep is also executed by entries that were not refused by the admission test',
                      m.path, S.lineno)
    # after any suspension the clock is re-read before anything is admitted
    for S in susp:
        consS = f'{F}::{q}::sleep' + (f' `{pf.nsrc(S.ast)}`' if many else '') if S.id not in blockers else f'{F}::{q}::{S.text()}'
        back = af.must_pass(cfg, S, lambda n: any(n is a for a in apps) or n is cfg.exit, isN)
        _pcheck(ctx, fn, back is None, 'R4', consS + '::re-evaluates', 'after suspending an entry is admitted / returns without re-reading the clock and re-counting the window',
                  m.path, S.lineno)


def _strip_nonneg(e: ast.AST) -> ast.AST:
    """`max(0, x)` / `max(x, 0.0)` as a sleep amount: asyncio.sleep returns at once for any amount <= 0, so the clamp changes nothing."""
    while isinstance(e, ast.Call) and pf.dotted(e.func) == 'max' and len(e.args) == 2 and not e.keywords:
        zs = [a for a in e.args if isinstance(a, ast.Constant) and isinstance(a.value, (int, float)) and not isinstance(a.value, bool) and a.value == 0]
        if len(zs) != 1:
            break
        e = next(a for a in e.args if a is not zs[0])
    return e


def _after_reads_before(cfg: pf.CFG, Ns: List[pf.Node], S: pf.Node) -> List[pf.Node]:
    """Nodes that can execute after a clock read and before S without another clock read (or S itself) in between."""
    def stop(n: pf.Node) -> bool:
        return n is S or any(n is x for x in Ns)
    fwd: Set[int] = set()
    stack = [x for N in Ns for x, _ in N.succ]
    while stack:
        n = stack.pop()
        if n.id in fwd or stop(n):
            continue
        fwd.add(n.id)
        stack.extend(x for x, _ in n.succ)
    bwd: Set[int] = set()
    stack = [x for x, _ in S.pred]
    while stack:
        n = stack.pop()
        if n.id in bwd or stop(n):
            continue
        bwd.add(n.id)
        stack.extend(x for x, _ in n.pred)
    return [n for n in cfg.nodes if n.id in fwd and n.id in bwd]


LOCKS = {'asyncio.Lock': 'an asyncio.Lock', 'asyncio.Semaphore': 'an asyncio.Semaphore', 'asyncio.BoundedSemaphore': 'an asyncio.BoundedSemaphore',
         'asyncio.Condition': 'an asyncio.Condition'}


def _attr_ctor(m: pf.Module, cls: ast.ClassDef, attr: str) -> Optional[str]:
    """Dotted name of the constructor `self.<attr>` is bound to, when it is bound exactly once, in __init__, by a call."""
    stores = [n for n in ast.walk(cls) if isinstance(n, ast.Attribute) and n.attr == attr and isinstance(n.ctx, (ast.Store, ast.Del))
              and isinstance(n.value, ast.Name) and n.value.id == 'self']
    if len(stores) != 1:
        return None
    st = m.parents().get(stores[0])
    f = m.enclosing_func(stores[0])
    if isinstance(st, (ast.Assign, ast.AnnAssign)) and f is not None and f.name == '__init__' and isinstance(st.value, ast.Call):
        d = pf.dotted(st.value.func)
        if d is not None and d.split('.')[-1] in ('Lock', 'Semaphore', 'BoundedSemaphore', 'Condition') and not d.startswith('asyncio.'):
            imp = m.imports().get(d.split('.')[0], '')
            if imp.startswith('asyncio'):
                return 'asyncio.' + d.split('.')[-1]
        return d
    return None


def _suspension(ctx: Ctx, m: pf.Module, cls: ast.ClassDef, fn: pf.FuncDef, cfg: pf.CFG, q: str, S: pf.Node) -> Tuple[str, object]:
    """Classify a suspension point of __aenter__:
         ('sleep', amount expression)   `await asyncio.sleep(x)` as a statement
         ('block', description)         acquiring an asyncio lock / semaphore / condition of this object that some task holds across a
                                        suspension: the acquisition waits for that task, for as long as its suspension lasts
       anything else is not analysed."""
    a = S.ast
    if S.kind == 'stmt' and isinstance(a, ast.Expr) and isinstance(a.value, ast.Await):
        c = a.value.value
        if isinstance(c, ast.Call) and _dot(c.func) == 'asyncio.sleep' and len(c.args) == 1 and not c.keywords:
            return 'sleep', c.args[0]
        if isinstance(c, ast.Call) and _dot(c.func) == 'asyncio.sleep' and not c.args and len(c.keywords) == 1 and c.keywords[0].arg == 'delay':
            return 'sleep', c.keywords[0].value
        if isinstance(c, ast.Call) and isinstance(c.func, ast.Attribute) and c.func.attr == 'acquire' and not c.args and not c.keywords \
                and isinstance(c.func.value, ast.Attribute) and isinstance(c.func.value.value, ast.Name) and c.func.value.value.id == 'self':
            attr = c.func.value.attr
            ctor = _attr_ctor(m, cls, attr)
            ctx.need(ctor in LOCKS, f'{q}: suspension `{S.text()}`: self.{attr} is not an asyncio lock / semaphore created once in __init__')
            rel = f'self.{attr}.release'
            held = cfg.path_avoiding(S, lambda n: n is not S and pf.node_has_await(n), lambda n: af.node_is_call(n, rel) is not None)
            ctx.need(held is not None, f'{q}: `{S.text()}`: the lock is never held across a suspension (acquiring it does not wait; not analysed)')
            return 'block', f'acquiring {LOCKS[ctor]} that another entrant holds while it is suspended in `{held[-1].text()}`'  # type: ignore[index]
    if S.kind == 'with' and isinstance(a, ast.AsyncWith) and len(a.items) == 1 and a.items[0].optional_vars is None:
        e = a.items[0].context_expr
        if isinstance(e, ast.Attribute) and isinstance(e.value, ast.Name) and e.value.id == 'self':
            ctor = _attr_ctor(m, cls, e.attr)
            ctx.need(ctor in LOCKS, f'{q}: suspension `{S.text()}`: self.{e.attr} is not an asyncio lock / semaphore created once in __init__')
            holders = [w for w in ast.walk(cls) if isinstance(w, ast.AsyncWith) and any(pf.nsrc(i.context_expr) == pf.nsrc(e) for i in w.items)
                       and any(isinstance(x, (ast.Await, ast.AsyncWith, ast.AsyncFor)) for b in w.body for x in ast.walk(b))]
            ctx.need(holders, f'{q}: `{S.text()}`: the lock is never held across a suspension (acquiring it does not wait; not analysed)')
            inner = next(x for b in holders[0].body for x in ast.walk(b) if isinstance(x, (ast.Await, ast.AsyncWith, ast.AsyncFor)))
            return 'block', f'acquiring {LOCKS[ctor]} that another entrant holds while it is suspended in `{pf.nsrc(inner)[:60]}`'
    raise AnalysisError(f'{q}: unrecognised suspension `{S.text()}`')
