"""C24 Rate limiter never exceeds its rate (and admits as soon as possible).

Decides from the syntax tree / CFG of hailtop/utils/rate_limiter.py (nothing is run):
  R1 admission  `self._items.append(now)` is reached only through a test edge taken exactly when len(self._items) < self._count
                (table over {<,==,>}), atomically (no await in between); every return of __aenter__ passes the append
  R2 timestamp  the recorded time is `now`, read from the clock with no suspension point between the read and the append
                (a stale timestamp leaves the window early and lets more than `count` entries in)
  R3 eviction   between the clock read and the admission test the loop pops from the *left* while the deque is non-empty and
                head <= now - window (linear form head - now + window <= 0, non-strict: an entry exactly one window old is outside
                the half-open window); the deque is only appended on the right / read at [0] / popleft'ed
  R4 waiting    the only suspension is `asyncio.sleep(head - (now - window))` (linear form head - now + window: the time until the
                head leaves the window) and after it the clock is re-read before anything is admitted
  R5 parameters `_count` / `_window_seconds` come from RateLimit.count / .window_seconds and are never reassigned
Does not decide: clock behaviour (monotonicity of time.time), fairness among waiters.
"""
from __future__ import annotations

import ast
from fractions import Fraction
from typing import Dict, List, Optional

from engines import asyncfacts as af
from engines import inline
from engines import pyfacts as pf
from engines.common import AnalysisError, Ctx

META = dict(
    category='other',
    text='Structural necessary conditions of the sliding-window invariant decided on the CFG of RateLimiter.__aenter__: guard dominance of the '
         'admission with await-atomicity, exhaustive table of the admission test over the order relation, linear-form comparison of the eviction '
         'condition and of the sleep amount with the half-open window semantics, closed set of deque operations.  The window invariant itself '
         '(at most count timestamps in (now-window, now]) follows from these by induction over admissions, which is argued, not mechanised.',
    note='Trusted: CPython ast; engines/pyfacts CFG; asyncio switches only at await. Not decided: clock monotonicity, float rounding of the sleep amount.',
    technique='static analysis: CFG guard dominance + await-atomicity + linear-form normalisation + finite truth table',
    design_ref='DESIGN.md §3 C24',
)

F = 'hail/python/hailtop/utils/rate_limiter.py'
CLS = 'RateLimiter'
ITEMS = 'self._items'
COUNT = 'self._count'
WINDOW = 'self._window_seconds'
CLOCKS = ('time.time', 'time.monotonic')

DEQUE_OK = {'method:append', 'index:0', 'method:popleft', 'truth', 'len'}
DEQUE_BAD = {'method:appendleft': 'records the newest entry as the oldest', 'method:pop': 'evicts the newest entry instead of the oldest',
             'method:clear': 'forgets entries that are still inside the window', 'method:insert': 'breaks the oldest-leftmost order',
             'method:rotate': 'breaks the oldest-leftmost order', 'method:remove': 'forgets an entry that may still be inside the window',
             'method:reverse': 'breaks the oldest-leftmost order', 'method:extendleft': 'breaks the oldest-leftmost order'}


def _want(now: str) -> Dict[str, Fraction]:
    return {'head': Fraction(1), 'now': Fraction(-1), 'W': Fraction(1)}


def run(ctx: Ctx) -> None:
    ctx.explanation = ('Guard dominance and await-atomicity of the admission on the CFG of RateLimiter.__aenter__, truth table of the admission test, '
                       'linear forms of the eviction condition and sleep amount compared with head - now + window, closed set of deque operations.')
    ctx.rule('R1', 'append(now) only through an edge taken exactly when len(items) < count, atomically; every return passes the append', 3)
    ctx.rule('R2', 'the recorded timestamp is the clock value read with no await before the append', 2)
    ctx.rule('R3', 'eviction pops the left end while non-empty and head <= now - window, between clock read and admission test; deque discipline', 9)
    ctx.rule('R4', 'the only suspension is sleep(head - (now - window)) and the clock is re-read afterwards', 3)
    ctx.rule('R5', 'count / window come from the RateLimit and are not reassigned', 4)
    ctx.assume('asyncio runs one coroutine at a time and switches only at await; the clock does not go backwards')
    m = pf.load(F)
    ctx.unit('files')
    cls = m.cls(CLS)
    # __aenter__ is analysed with its same-class helpers inlined (an extracted `_expire(now)` is seen through)
    m0 = m
    m, il = inline.inline_methods(m0, CLS, '__aenter__', exclude=('__init__', '__aexit__'))
    cls = m.cls(CLS)
    ctx.unit('helpers_inlined', len(il.inlined))
    fn = af.method(m, cls, '__aenter__')
    ctx.need(isinstance(fn, ast.AsyncFunctionDef), '__aenter__ is not a coroutine')
    cfg = pf.cfg(fn)
    q = f'{CLS}.__aenter__'
    ctx.unit('functions', 3)

    # ---- deque discipline (R3) ---------------------------------------------------------
    for u in af.container_uses(m, cls, ITEMS):
        cons = f'{F}::{u.func}::{u.detail}'
        line = getattr(u.node, 'lineno', 0)
        if u.kind == 'assign':
            p = m.parents().get(u.node)
            val = getattr(p, 'value', None)
            ctx.need(u.func.endswith('__init__') and isinstance(val, ast.Call) and pf.dotted(val.func) in ('collections.deque', 'deque') and not val.args,
                     f'{cons}: _items is not initialised once with an empty deque in __init__')
            ctx.ok('R3', cons, 'empty deque')
        elif u.kind in DEQUE_OK:
            ctx.ok('R3', cons, u.kind)
        elif u.kind in DEQUE_BAD:
            ctx.bad('R3', cons, f'`{u.detail}` {DEQUE_BAD[u.kind]}: the window count is wrong and more than `count` entries can be admitted per window',
                    m.path, line)
        elif u.kind.startswith(('index:', 'setitem:', 'delitem:')):
            ctx.bad('R3', cons, f'`{u.detail}` does not address the oldest entry [0]', m.path, line)
        else:
            raise AnalysisError(f'{cons}: unrecognised use of the timestamp deque ({u.kind})')

    # ---- the clock read ----------------------------------------------------------------
    apps = af.stmt_nodes(cfg, lambda n: af.node_is_call(n, f'{ITEMS}.append') is not None or af.node_is_call(n, f'{ITEMS}.appendleft') is not None)
    ctx.need(len(apps) == 1, f'{q}: expected one statement recording the entry (`{ITEMS}.append(...)`), found {len(apps)}')
    A = apps[0]
    acall = af.node_is_call(A, f'{ITEMS}.append') or af.node_is_call(A, f'{ITEMS}.appendleft')
    ctx.need(acall is not None and len(acall.args) == 1, f'{q}: append has no single argument')
    arg = acall.args[0]  # type: ignore[union-attr]
    cons = f'{F}::{q}::{pf.nsrc(A.ast)}'
    if not isinstance(arg, ast.Name):
        ctx.need(isinstance(arg, ast.Call) and pf.dotted(arg.func) in CLOCKS, f'{q}: appended value `{pf.nsrc(arg)}` is neither a local nor a clock read')
        raise AnalysisError(f'{q}: timestamp read inline at the append (idiom not analysed)')
    now = arg.id
    ndefs = pf.assignments(fn).get(now, [])
    ctx.need(len(ndefs) >= 1 and all(isinstance(d, ast.Call) for d in ndefs), f'{q}: `{now}` is not defined by calls only')
    for d in ndefs:
        ctx.check(pf.dotted(d.func) in CLOCKS and not d.args, 'R2', cons + '::clock', f'the recorded timestamp `{now}` is `{pf.nsrc(d)}`, not a clock read',
                  m.path, A.lineno)
    Ns = af.stmt_nodes(cfg, lambda n: n.kind == 'stmt' and isinstance(n.ast, ast.Assign) and any(n.ast.value is d for d in ndefs))
    ctx.need(len(Ns) == len(ndefs), f'{q}: clock read statement not found')
    dom = cfg.dominated_by(A, lambda n: n in Ns)
    # a suspension from which the append is reachable without a fresh clock read makes the recorded time stale
    stale = [x for x in cfg.nodes if pf.node_has_await(x) and x is not A and cfg.path_avoiding(x, lambda n: n is A, lambda n: n in Ns) is not None] if dom else []
    ctx.check(dom and not stale, 'R2', cons + '::fresh',
              (f'`{stale[0].text()}` suspends between the clock read and the append: the entry is recorded with a time older than its admission, leaves the '
               f'window early, and more than {COUNT} entries fall into one window') if stale else f'`{now}` is not read on every path to the append',
              m.path, A.lineno)

    # ---- R1 admission guard ------------------------------------------------------------
    ev = af.TestEval(f'len({ITEMS})', COUNT, [])
    guard = None
    problems: List[str] = []
    for t in cfg.nodes:
        if t.kind != 'test' or not af.mentions(t.ast, COUNT):
            continue
        for label in ('T', 'F'):
            if not any(lab == label for _, lab in t.succ):
                continue
            if not af.every_path_uses_edge(cfg, A, t, label) or not af.direct(cfg, t, A, label):
                continue
            rows = ev.rows(t.ast)  # AnalysisError if the test has atoms we do not understand
            taken = label == 'T'
            over = [r for r in rows if r[2] == taken and r[0] != '<']
            late = [r for r in rows if r[2] != taken and r[0] == '<']
            if over:
                problems.append(f'`{pf.nsrc(t.ast)}` admits an entry when len({ITEMS}) {over[0][0]} {COUNT}: the window then holds more than {COUNT} entries')
                continue
            if late:
                problems.append(f'`{pf.nsrc(t.ast)}` refuses an entry although len({ITEMS}) < {COUNT} (not admitted as soon as possible)')
                continue
            aw = [x for x in af.between(cfg, t, A, label) if pf.node_has_await(x)]
            if aw:
                problems.append(f'`{aw[0].text()}` suspends between the admission test and the append: concurrent entries all pass the test first')
                continue
            guard = (t, label)
    consg = f'{F}::{q}::admission guard'
    if guard is not None:
        ctx.ok('R1', consg, {'test': pf.nsrc(guard[0].ast), 'edge': guard[1]})
    elif problems:
        ctx.bad('R1', consg, problems[0], m.path, A.lineno)
    else:
        ctx.bad('R1', consg, f'the append is not dominated by a test of len({ITEMS}) against {COUNT}: entries are admitted without counting the window',
                m.path, A.lineno)
    # every (reachable) return passes the append
    p = cfg.path_avoiding(cfg.entry, lambda n: n is cfg.exit, lambda n: n is A)
    ctx.check(p is None, 'R1', f'{F}::{q}::every return records an entry',
              'a path returns from __aenter__ without recording a timestamp: that entry is not counted against the rate'
              + (f' (via `{p[-2].text()}`)' if p and len(p) >= 2 else ''), m.path, fn.lineno)
    # nothing re-admits: the append is not inside a cycle that avoids the guard
    ctx.check(not af.direct(cfg, A, A), 'R1', f'{F}::{q}::single admission', 'one call of __aenter__ can record more than one entry', m.path, A.lineno)

    ctx.need(len(Ns) == 1, f'{q}: `{now}` is read from the clock at {len(Ns)} places (R3/R4 position rules are written for one read per iteration)')
    N = Ns[0]
    # ---- R3 eviction loop ---------------------------------------------------------------
    loops = [n for n in pf.walk_shallow(fn) if isinstance(n, ast.While) and af.mentions(n.test, f'{ITEMS}[0]')]
    consE = f'{F}::{q}::eviction loop'
    if not loops:
        pops = [u for u in af.container_uses(m, cls, ITEMS) if u.kind == 'method:popleft']
        ctx.need(not pops, f'{q}: popleft outside a recognised eviction loop')
        ctx.bad('R3', consE, 'entries are never evicted: once `count` entries were admitted nobody is admitted again / the sleep amount is computed from a '
                'stale head', m.path, fn.lineno)
        af.blocked(ctx, 'R3', 'R3')
    else:
        ctx.need(len(loops) == 1, f'{q}: {len(loops)} loops test the head of the deque')
        lp = loops[0]
        E = af.test_node(cfg, lp.test)
        # shape of the test:  nonempty and <compare>
        conj = lp.test.values if isinstance(lp.test, ast.BoolOp) and isinstance(lp.test.op, ast.And) else [lp.test]
        cmps = [c for c in conj if isinstance(c, ast.Compare) and af.mentions(c, f'{ITEMS}[0]')]
        rest = [c for c in conj if c not in cmps]
        ctx.need(len(cmps) == 1, f'{q}: eviction test `{pf.nsrc(lp.test)}` has no single comparison on the head')
        ne = af.TestEval('?', '?', [ITEMS])
        for c in rest:
            rows = ne.rows(c)
            ctx.need(all(r[2] == r[1][ITEMS] for r in rows), f'{q}: conjunct `{pf.nsrc(c)}` of the eviction test is not the non-emptiness of the deque')
        ctx.check(bool(rest), 'R3', consE + '::non-empty first', f'`{pf.nsrc(lp.test)}` reads {ITEMS}[0] without first testing that the deque is non-empty: '
                  'IndexError once every entry has left the window', m.path, lp.lineno)
        if rest:
            ctx.need(conj.index(rest[0]) < conj.index(cmps[0]), f'{q}: the emptiness test does not precede the head comparison')
        atoms = {f'{ITEMS}[0]': 'head', now: 'now', WINDOW: 'W'}
        nz = af.compare_leq_zero(cmps[0], atoms)
        ctx.need(nz is not None, f'{q}: eviction comparison `{pf.nsrc(cmps[0])}` is not linear in head / {now} / {WINDOW}')
        d, strict = nz  # type: ignore[misc]
        want = _want(now)
        okd = d == want
        ctx.check(okd and not strict, 'R3', consE + f'::condition `{pf.nsrc(cmps[0])}`',
                  (f'evicts while {af.lin_str(d)} {"<" if strict else "<="} 0, the half-open window requires head - now + W <= 0 '
                   + ('(an entry exactly one window old is outside the window: with `<` it is kept, the waiter sleeps 0 s and re-tests without ever being admitted at that instant)'
                      if okd and strict else '(entries are evicted too early -> rate exceeded, or too late -> not admitted when possible)')),
                  m.path, lp.lineno)
        body_ok = len(lp.body) == 1 and isinstance(lp.body[0], ast.Expr) and pf.call_name(lp.body[0].value) == f'{ITEMS}.popleft' and not lp.orelse
        ctx.check(body_ok, 'R3', consE + '::body', f'the eviction loop body is `{"; ".join(pf.nsrc(s) for s in lp.body)}`, not a single `{ITEMS}.popleft()`',
                  m.path, lp.lineno)
        # placed between the clock read and the admission test, on every path
        if guard is not None:
            T = guard[0]
            p1 = cfg.dominated_by(E, lambda n: n is N)
            p2 = af.must_pass(cfg, N, lambda n: n is T, lambda n: n is E) is None
            stale2 = [x for x in af.between(cfg, E, T) if pf.node_has_await(x) or x is N]
            ctx.check(p1 and p2 and not stale2, 'R3', consE + '::position',
                      'the eviction loop is not run, with the current clock value, on every path between the clock read and the admission test: '
                      'entries that already left the window are still counted (late admission) or the test uses an outdated deque', m.path, lp.lineno)
        else:
            af.blocked(ctx, 'R1', 'R3')

    # ---- R4 the sleep -------------------------------------------------------------------
    aws = af.stmt_nodes(cfg, pf.node_has_await)
    consS = f'{F}::{q}::sleep'
    if not aws:
        ctx.bad('R4', consS, 'a refused entry never suspends: __aenter__ spins on the clock and blocks the event loop', m.path, fn.lineno)
        af.blocked(ctx, 'R4', 'R4')
    for S in aws:
        calls = [a for a in ast.walk(S.ast) if isinstance(a, ast.Await)]
        ctx.need(len(calls) == 1 and S.kind == 'stmt' and isinstance(S.ast, ast.Expr), f'{q}: unrecognised suspension `{S.text()}`')
        c = calls[0].value
        ctx.need(isinstance(c, ast.Call) and pf.dotted(c.func) == 'asyncio.sleep' and len(c.args) == 1 and not c.keywords,
                 f'{q}: suspension `{S.text()}` is not asyncio.sleep(x)')
        amount = pf.resolve_expr(fn, c.args[0])  # type: ignore[union-attr]
        lin = af.linear(amount, {f'{ITEMS}[0]': 'head', now: 'now', WINDOW: 'W'})
        ctx.need(lin is not None, f'{q}: sleep amount `{pf.nsrc(amount)}` is not linear in head / {now} / {WINDOW}')
        ctx.check(lin == _want(now), 'R4', consS + f'::amount `{pf.nsrc(amount)}`',
                  f'sleeps {af.lin_str(lin)} seconds; the time until the oldest entry leaves the window is head - now + W '  # type: ignore[arg-type]
                  '(longer: not admitted as soon as possible; shorter: busy re-testing)', m.path, S.lineno)
        # reached only when refused, and the clock is re-read before any admission
        if guard is not None:
            T, lab = guard
            other = 'F' if lab == 'T' else 'T'
            ctx.check(af.every_path_uses_edge(cfg, S, T, other), 'R4', consS + '::only when refused', 'the sleep is also executed by admitted entries',
                      m.path, S.lineno)
        back = af.must_pass(cfg, S, lambda n: n is A or n is cfg.exit, lambda n: n is N)
        ctx.check(back is None, 'R4', consS + '::re-evaluates', 'after sleeping an entry is admitted / returns without re-reading the clock and re-counting the window',
                  m.path, S.lineno)

    # ---- R5 parameters ------------------------------------------------------------------
    init = af.method(m, cls, '__init__')
    params = [a.arg for a in init.args.args]
    ctx.need(len(params) == 2, f'{CLS}.__init__ parameters changed: {params}')
    rl = params[1]
    want_src = {COUNT: f'{rl}.count', WINDOW: f'{rl}.window_seconds'}
    for attr, src in want_src.items():
        writes = [n for n in ast.walk(cls) if isinstance(n, ast.Attribute) and isinstance(n.ctx, (ast.Store, ast.Del)) and pf.nsrc(n) == attr]
        par = m.parents()
        ok = len(writes) == 1 and m.enclosing_func(writes[0]) is init and isinstance(par.get(writes[0]), ast.Assign) and pf.nsrc(par[writes[0]].value) == src
        ctx.check(ok, 'R5', f'{F}::{CLS}::{attr}', f'{attr} is not assigned exactly once, in __init__, from `{src}` '
                  f'(found {[pf.nsrc(par.get(w)) for w in writes]})', m.path, init.lineno)
    rcls = m.cls('RateLimit')
    rinit = af.method(m, rcls, '__init__')
    rp = [a.arg for a in rinit.args.args]
    ctx.need(rp[1:] == ['count', 'window_seconds'], f'RateLimit.__init__ parameters changed: {rp}')
    for name in ('count', 'window_seconds'):
        asg = [s for s in rinit.body if isinstance(s, ast.Assign) and len(s.targets) == 1 and pf.nsrc(s.targets[0]) == f'self.{name}']
        ctx.check(len(asg) == 1 and pf.nsrc(asg[0].value) == name, 'R5', f'{F}::RateLimit.__init__::self.{name}',
                  f'RateLimit.{name} is not the constructor argument `{name}`', m.path, rinit.lineno)
