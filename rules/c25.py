"""C25 Resource-size strings parse to their decimal value.

Decides (from the syntax trees of hailtop/batch_client/parse.py, batch/front_end/validate.py, hailtop/utils/validate/validate.py,
batch/front_end/front_end.py and hailctl/config/config_variables.py; nothing of the repository is run):
  R1  client = server.  For cpu / memory / storage: the language the job validator admits EQUALS the language the parse function
      accepts (regex + mode of its own matching call, on the parameter or on a normalised copy of it - then the preimage; memory
      additionally admits the named memory types, which the front end resolves before parsing).  The validator language is READ
      FROM THE LIBRARY SOURCE for whatever validator expression stands in job_validator['resources'] - inline `regex(...)`,
      a named module-level validator object, nullable()/anyof()/oneof() wrappers, TypedValidator/TruthyValidator instances: the
      factory's `return Cls(...)` is followed, __init__ is run symbolically, the constructor arguments (pattern, compiled regex,
      maxlen through integer constants, ...) are substituted into a copy of the class's validate method and that method is
      translated by engines/strpred.py - matching mode, maxlen, any further length test, stripping/lower-casing before the
      match; length bounds are regular, the comparison stays exact.  The parse functions return None exactly on the
      non-matching branch.  Every parse call in the front end goes to hailtop.batch_client.parse, on a validated `resources`
      entry whose validator language is included in the parse function's language; the literal defaults substituted for missing
      entries are parseable.  Every other use of the patterns (hailctl config validators, ...) accepts the same language.
      validate_and_clean_jobs applies job_validator to every job, and the deprecated `pvc_size` key (validated on its own, then
      moved into resources['storage'] and validated again) is accepted for exactly the client's storage strings.
  R2  grammar.  L(regex, fullmatch) == the documented grammar  [+]? (D+ | D* '.' D+) unit? ['B']  as automata; capture group 1 is
      exactly the unsigned decimal number, capture group 2 exactly the unit set; `conv_factor` has exactly those units as keys
      with the values 1000^n / 1024^n (constant-folded from the literal table).
  R4  formula.  The same evaluator with float() read as exact rational arithmetic: floor(value*1000) mCPU (value/1000 with the
      m suffix), ceil(value*factor) bytes - decides units/direction/truncation independently of rounding.
  R3  exactness.  Our own evaluator interprets each parse function body (float / int / math.ceil / Decimal / Fraction arithmetic over
      the extracted syntax tree) on a family of accepted spellings and compares with exact rational arithmetic: floor(value*1000)
      millicores, ceil(value*factor) bytes.  Every return statement is an instance; a mismatch is reported with the concrete
      strings (binary float() or a rounding Decimal context make particular decimals come out wrong).
Does not decide: exactness outside the evaluated family when the arithmetic is not float-free.
"""
from __future__ import annotations

import ast
import decimal
import fractions
import math
import re
from typing import Any, Dict, List, Optional, Tuple

from engines import pyfacts as pf
from engines import relang as R
from engines import strpred as sp
from engines.common import AnalysisError, Ctx

META = dict(
    category='other',
    text='R1/R2 are decided exactly (automata equivalence over all Unicode strings, finite unit tables by constant folding); R3 is a '
         'concrete-evaluation lint: the parse arithmetic is interpreted by our own evaluator on several thousand accepted spellings per function '
         'and compared with exact rational arithmetic, plus a float-taint explanation.  R3 is not exhaustive over all decimals '
         '(unless the arithmetic is float-free), hence level other.',
    note='Trusted: CPython ast/re._parser; IEEE-754 double arithmetic of the running interpreter as the model of Python float; '
         'fractions/decimal for the exact side; engines/relang.py, engines/strpred.py; the validator semantics are read from '
         'hailtop/utils/validate/validate.py (symbolic construction + translation of the specialised validate method), with the '
         'combinators MultipleValidator / NullableValidator recognised by shape. Group extraction for the evaluated candidates uses the '
         'platform `re` on the extracted pattern text.',
    technique='static analysis: regex-to-DFA equivalence, constant folding, abstract/concrete interpretation of extracted arithmetic',
    design_ref='DESIGN.md §3 C25',
)

F_PARSE = 'hail/python/hailtop/batch_client/parse.py'
F_VALIDATE = 'batch/batch/front_end/validate.py'
F_VLIB = 'hail/python/hailtop/utils/validate/validate.py'
F_FRONT = 'batch/batch/front_end/front_end.py'
F_HAILCTL = 'hail/python/hailtop/hailctl/config/config_variables.py'

# resource -> (parse function, regex object symbol, pattern symbol)
RESOURCES = {
    'cpu': ('parse_cpu_in_mcpu', 'CPU_REGEX', 'CPU_REGEXPAT'),
    'memory': ('parse_memory_in_bytes', 'MEMORY_REGEX', 'MEMORY_REGEXPAT'),
    'storage': ('parse_storage_in_bytes', 'STORAGE_REGEX', 'STORAGE_REGEXPAT'),
}
# the statement: decimal (K, M, G, T, P) and binary (Ki, ...) multiples
SPEC_UNITS = {p + s: (1024 if s else 1000) ** (i + 1) for i, p in enumerate('KMGTP') for s in ('', 'i')}
SPEC_CPU_UNITS = {'m': fractions.Fraction(1, 1000)}

_D = R.CharSet([(ord('0'), ord('9'))])


def _number_re() -> R.Re:
    """unsigned decimal: D+ | D* '.' D+"""
    return R.seq(R.opt(R.seq(R.star(R.chars(_D)), R.lit('.'))), R.plus(R.chars(_D)))


def spec_language(resource: str) -> R.Lang:
    sign = R.opt(R.lit('+'))
    if resource == 'cpu':
        return R.lang(R.seq(sign, _number_re(), R.opt(R.lit('m'))), "[+]?(D+|D*.D+)[m]?")
    units = R.alt(*[R.lit(u) for u in sorted(SPEC_UNITS)])
    return R.lang(R.seq(sign, _number_re(), R.opt(units), R.opt(R.lit('B'))), "[+]?(D+|D*.D+)(K|Ki|M|Mi|G|Gi|T|Ti|P|Pi)?B?")


# --------------------------------------------------------------------------------------
# the parse functions
# --------------------------------------------------------------------------------------


class ParseFn:
    def __init__(self, ctx: Ctx, m: pf.Module, resource: str):
        self.resource = resource
        self.name = RESOURCES[resource][0]
        self.m = m
        self.fn = m.func(self.name)
        params = [a.arg for a in self.fn.args.posonlyargs + self.fn.args.args]
        ctx.need(len(params) == 1, f'{self.name}: expected exactly one parameter, found {params}')
        self.param = params[0]
        # the unique regex matching call on the parameter
        found = []
        for c in pf.calls_in(self.fn):
            rc = sp.regex_call(m, self.fn, c)
            if rc is not None:
                found.append((c, rc))
        ctx.need(len(found) == 1, f'{self.name}: expected exactly one regex matching call, found {len(found)}')
        self.call, (self.rd, self.mode, subject) = found[0]
        self.subject = subject
        # the regex is applied to the parameter, or to a normalised copy of it (s.strip(), s.lower(), ...): then the accepted
        # strings are the preimage of the regex language
        tr = sp.Translator(m, self.fn, self.param)
        chain = tr.chain_of(pf.expand_locals(self.fn, subject))
        ctx.need(chain is not None, f'{self.name}: the regex is applied to `{pf.nsrc(subject)}`, which is not the parameter or a normalised copy of it')
        ctx.need(len(pf.assignments(self.fn).get(self.param, [])) == 1, f'{self.name}: the parameter is rebound')
        self.normalised = bool(chain)
        self.lang = tr.preimage(R.from_regex(self.rd.pattern, self.rd.flags, self.mode), chain)  # type: ignore[arg-type]
        self.full = R.from_regex(self.rd.pattern, self.rd.flags, 'fullmatch')


def _check_none_iff_no_match(ctx: Ctx, p: ParseFn) -> None:
    """returns None exactly on the non-matching branch of `if <match>`."""
    fn, m = p.fn, p.m
    g = pf.cfg(fn)
    cons = f'{F_PARSE}::{p.name}::None iff the regex does not match'
    # the call must be `v = <call>` and v single-assignment
    holder = None
    for st in pf.walk_shallow(fn):
        if isinstance(st, ast.Assign) and st.value is p.call and len(st.targets) == 1 and isinstance(st.targets[0], ast.Name):
            holder = st.targets[0].id
    ctx.need(holder is not None and pf.single_def(fn, holder) is p.call, f'{p.name}: the match object is not bound to a single-assignment variable')
    tests = [n for n in g.nodes if n.kind == 'test' and n.ast is not None]
    gate = None
    for n in tests:
        e = n.ast
        neg = False
        while isinstance(e, ast.UnaryOp) and isinstance(e.op, ast.Not):
            neg, e = not neg, e.operand
        if isinstance(e, ast.Compare) and len(e.ops) == 1 and isinstance(e.comparators[0], ast.Constant) and e.comparators[0].value is None \
                and isinstance(e.ops[0], (ast.Is, ast.IsNot)):
            neg = neg != isinstance(e.ops[0], ast.Is)
            e = e.left
        if isinstance(e, ast.Name) and e.id == holder:
            ctx.need(gate is None, f'{p.name}: the match object is tested more than once')
            gate = (n, neg)
    ctx.need(gate is not None, f'{p.name}: no `if {holder}` test found')
    gn, neg = gate  # type: ignore[misc]
    yes, no = ('F', 'T') if neg else ('T', 'F')

    def returns_from(label: str) -> Tuple[List[pf.Node], bool]:
        reach: set = set()
        for t, lab in gn.succ:
            if lab == label:
                reach |= g.reachable_from(t) | {t.id}
        rets = [n for n in g.nodes if n.id in reach and n.kind == 'return']
        falls = any(any(s is g.exit for s, _ in n.succ) and n.kind != 'return' for n in g.nodes if n.id in reach) or \
            any(t is g.exit for t, lab in gn.succ if lab == label)
        return rets, falls

    def is_none(n: pf.Node) -> bool:
        v = n.ast.value  # type: ignore[union-attr]
        return v is None or (isinstance(v, ast.Constant) and v.value is None)

    yes_rets, yes_falls = returns_from(yes)
    no_rets, no_falls = returns_from(no)
    problems = []
    both = {n.id for n in yes_rets} & {n.id for n in no_rets}
    for n in yes_rets:
        if n.id not in both and (is_none(n) or not isinstance(n.ast.value, ast.Call)):  # type: ignore[union-attr]
            problems.append(f'on a successful match `{n.text()}` does not return a computed value')
    if yes_falls or any(n.id in both for n in yes_rets):
        problems.append('a successful match can fall through to the no-match result')
    for n in no_rets:
        if not is_none(n):
            problems.append(f'without a match `{n.text()}` returns a value')
    ctx.check(not problems, 'R1', cons, '; '.join(problems), m.path, fn.lineno, detail={'match_variable': holder, 'mode': p.mode})


# --------------------------------------------------------------------------------------
# the server-side validators
# --------------------------------------------------------------------------------------


class _Val:
    """An argument expression together with the module it is written in."""
    __slots__ = ('m', 'e')

    def __init__(self, m: pf.Module, e: ast.AST):
        self.m = m
        self.e = e


def _is_re_compile(e: ast.AST) -> bool:
    return isinstance(e, ast.Call) and pf.dotted(e.func) == 're.compile'


def _truth(e: ast.AST) -> Optional[bool]:
    """Truth value of a closed expression when it is known without evaluating anything."""
    if isinstance(e, ast.Constant):
        return bool(e.value)
    if _is_re_compile(e):
        return True  # a compiled pattern is an object without __bool__/__len__
    if isinstance(e, (ast.Tuple, ast.List, ast.Set)):
        return bool(e.elts)
    return None


class _Fold(ast.NodeTransformer):
    """Constant folding of the tests left over after the constructor arguments have been substituted into a method body:
    `<closed> is [not] None`, not/and/or/if-else over known truth values.  Only the truth value of the result is preserved."""

    def visit_Compare(self, node: ast.Compare):  # noqa: N802
        self.generic_visit(node)
        if len(node.ops) == 1 and isinstance(node.ops[0], (ast.Is, ast.IsNot)) and isinstance(node.comparators[0], ast.Constant) \
                and node.comparators[0].value is None:
            left = node.left
            known: Optional[bool] = None
            if isinstance(left, ast.Constant):
                known = left.value is None
            elif _is_re_compile(left) or isinstance(left, (ast.Tuple, ast.List, ast.Set)):
                known = False
            if known is not None:
                return ast.copy_location(ast.Constant(value=known == isinstance(node.ops[0], ast.Is)), node)
        return node

    def visit_UnaryOp(self, node: ast.UnaryOp):  # noqa: N802
        self.generic_visit(node)
        if isinstance(node.op, ast.Not) and _truth(node.operand) is not None:
            return ast.copy_location(ast.Constant(value=not _truth(node.operand)), node)
        return node

    def visit_IfExp(self, node: ast.IfExp):  # noqa: N802
        self.generic_visit(node)
        t = _truth(node.test)
        if t is not None:
            return node.body if t else node.orelse
        return node

    def visit_BoolOp(self, node: ast.BoolOp):  # noqa: N802
        self.generic_visit(node)
        is_and = isinstance(node.op, ast.And)
        kept: List[ast.expr] = []
        for i, v in enumerate(node.values):
            t = _truth(v)
            if t is None:
                kept.append(v)
                continue
            if t != is_and:  # decides the result (as far as it is reached)
                kept.append(v)
                break
            if i == len(node.values) - 1:
                kept.append(v)  # neutral element in last position: it is the value
        if len(kept) == 1:
            return kept[0]
        node.values = kept
        return node


class ValidatorLib:
    """Semantics of the validator objects of hailtop.utils.validate, READ FROM ITS SOURCE for every validator expression:
    a factory call (`regex(p, r, maxlen=n)`) is followed through the factory's `return Cls(...)`, the constructor is run
    symbolically (`self.x = <expression over the parameters>`, `super().__init__(...)`), the constructor arguments are closed to
    constants (patterns, compiled regexes, folded integers, literal collections) and substituted for `self.x` in a copy of the
    class's `validate` method (with `super().validate(...)` inlined); what is left is a one-parameter string predicate that
    engines/strpred.py translates into the language of accepted strings - whatever tests the class really performs (matching
    mode, maxlen, a minlen, stripping or lower-casing before the match, ...).  The combinators MultipleValidator (anyof) and
    NullableValidator are recognised by the shape of their validate methods and become union / the wrapped language."""

    def __init__(self, ctx: Ctx):
        m = pf.load(F_VLIB)
        self.m = m
        self.ctx = ctx
        ctx.need(sp.imports_of(m).get('re') == 're', f'{F_VLIB}: `re` is not imported as a module')
        self.classes = {c.name: c for c in m.classes()}
        for helper in ('regex', 'anyof', 'oneof'):
            ctx.need(m.has_func(helper), f'{F_VLIB}::{helper} vanished')
        self.mode: Optional[str] = None  # matching mode of the last regex validator translated (diagnostics)
        self._cache: Dict[Tuple[int, int], Tuple[R.Lang, dict]] = {}

    # ---- helpers
    def _method(self, cls: ast.ClassDef, name: str) -> Optional[ast.FunctionDef]:
        for st in cls.body:
            if isinstance(st, ast.FunctionDef) and st.name == name:
                return st
        return None

    def _base(self, cls: ast.ClassDef) -> Optional[ast.ClassDef]:
        if not cls.bases:
            return None
        self.ctx.need(len(cls.bases) == 1 and isinstance(cls.bases[0], ast.Name) and cls.bases[0].id in self.classes and not cls.keywords,
                      f'{F_VLIB}::{cls.name}: base classes not recognised')
        return self.classes[cls.bases[0].id]  # type: ignore[union-attr]

    def _lookup(self, cls: ast.ClassDef, name: str) -> Tuple[Optional[ast.FunctionDef], Optional[ast.ClassDef]]:
        c: Optional[ast.ClassDef] = cls
        while c is not None:
            f = self._method(c, name)
            if f is not None:
                return f, c
            c = self._base(c)
        return None, None

    def _bind(self, what: str, fn: ast.FunctionDef, skip_self: bool, args: List[_Val], kwargs: Dict[str, _Val]) -> Dict[str, Any]:
        """parameter name -> _Val | list of _Val (for *args) ; defaults filled in."""
        a = fn.args
        self.ctx.need(not a.posonlyargs and not a.kwonlyargs and a.kwarg is None, f'{what}: parameter kinds not recognised')
        params = [x.arg for x in a.args][1 if skip_self else 0:]
        bound: Dict[str, Any] = {}
        defaults = dict(zip([x.arg for x in a.args][len(a.args) - len(a.defaults):], a.defaults))
        rest = list(args)
        for p in params:
            if rest:
                bound[p] = rest.pop(0)
        if a.vararg is not None:
            bound[a.vararg.arg] = rest
            rest = []
        self.ctx.need(not rest, f'{what}: too many arguments')
        for k, v in kwargs.items():
            self.ctx.need(k in params and k not in bound, f'{what}: unexpected keyword {k}')
            bound[k] = v
        for p in params:
            if p not in bound:
                self.ctx.need(p in defaults, f'{what}: missing argument {p}')
                bound[p] = _Val(self.m, defaults[p])
        return bound

    def _call_args(self, m: pf.Module, call: ast.Call) -> Tuple[List[_Val], Dict[str, _Val]]:
        args: List[_Val] = []
        for x in call.args:
            if isinstance(x, ast.Starred):
                args += [_Val(mm, ee) for mm, ee in self._sequence(m, x.value)]
            else:
                args.append(_Val(m, x))
        self.ctx.need(all(k.arg is not None for k in call.keywords), f'{m.rel}: `{pf.nsrc(call)[:60]}`: ** arguments')
        return args, {k.arg: _Val(m, k.value) for k in call.keywords}  # type: ignore[misc]

    def _sequence(self, m: pf.Module, e: ast.AST, depth: int = 4) -> List[Tuple[pf.Module, ast.AST]]:
        """Elements of a literal tuple/list/set expression (through names, imports and set()/list()/tuple() wrappers)."""
        self.ctx.need(depth > 0, f'{m.rel}: cannot resolve `{pf.nsrc(e)[:60]}` to a literal collection')
        if isinstance(e, (ast.Tuple, ast.List, ast.Set)):
            out: List[Tuple[pf.Module, ast.AST]] = []
            for x in e.elts:
                if isinstance(x, ast.Starred):
                    out += self._sequence(m, x.value, depth - 1)
                else:
                    out.append((m, x))
            return out
        if isinstance(e, ast.Call) and pf.dotted(e.func) in ('set', 'frozenset', 'list', 'tuple', 'sorted') and len(e.args) == 1 and not e.keywords:
            return self._sequence(m, e.args[0], depth - 1)
        if isinstance(e, ast.Name):
            if e.id in sp.imports_of(m):
                r = sp.resolve_import(m, e.id, sp.PACKAGE_ROOTS)
                self.ctx.need(r is not None, f'{m.rel}: cannot follow the import of {e.id}')
                return self._sequence(r[0], ast.Name(id=r[1], ctx=ast.Load()), depth - 1)  # type: ignore[index]
            return self._sequence(m, sp.module_const(m, e.id), depth - 1)
        raise AnalysisError(f'{m.rel}: `{pf.nsrc(e)[:60]}` is not a literal collection')

    def _close(self, v: Any) -> ast.expr:
        """A constructor argument as a closed expression that means the same inside the library module."""
        if isinstance(v, list):
            return ast.Tuple(elts=[self._close(x) for x in v], ctx=ast.Load())
        m, e = v.m, v.e
        if isinstance(e, ast.Constant) and (e.value is None or isinstance(e.value, (str, int, bool))):
            return ast.Constant(value=e.value)
        if isinstance(e, ast.Name) and e.id == 'str' and e.id not in sp.imports_of(m):
            return ast.Name(id='str', ctx=ast.Load())
        try:
            return ast.Constant(value=_fold_int(m, e))
        except AnalysisError:
            pass
        try:
            return ast.Constant(value=sp.const_string(m, None, e))
        except AnalysisError:
            pass
        try:
            rd = sp.resolve_regex(m, None, e)
            return ast.Call(func=ast.Attribute(value=ast.Name(id='re', ctx=ast.Load()), attr='compile', ctx=ast.Load()),
                            args=[ast.Constant(value=rd.pattern), ast.Constant(value=int(rd.flags))], keywords=[])
        except AnalysisError:
            pass
        try:
            return ast.Tuple(elts=[self._close(_Val(mm, ee)) for mm, ee in self._sequence(m, e)], ctx=ast.Load())
        except AnalysisError:
            pass
        raise AnalysisError(f'{m.rel}: cannot evaluate the validator argument `{pf.nsrc(e)[:60]}`')

    # ---- symbolic construction
    def _construct(self, cls: ast.ClassDef, args: List[_Val], kwargs: Dict[str, _Val]) -> Dict[str, Any]:
        """attribute name -> _Val | [_Val] | closed expression, after running __init__ symbolically."""
        init, owner = self._lookup(cls, '__init__')
        if init is None:
            self.ctx.need(not args and not kwargs, f'{F_VLIB}::{cls.name}: arguments but no __init__')
            return {}
        assert owner is not None
        what = f'{F_VLIB}::{owner.name}.__init__'
        bound = self._bind(what, init, True, args, kwargs)
        attrs: Dict[str, Any] = {}
        for st in init.body:
            if isinstance(st, ast.Expr) and isinstance(st.value, ast.Constant):
                continue
            if isinstance(st, ast.Expr) and isinstance(st.value, ast.Call) and pf.nsrc(st.value.func) == 'super().__init__':
                base = self._base(owner)
                self.ctx.need(base is not None, f'{what}: super() without a base class')
                sargs: List[_Val] = []
                for x in st.value.args:
                    if isinstance(x, ast.Name) and x.id in bound:
                        self.ctx.need(isinstance(bound[x.id], _Val), f'{what}: *args passed on')
                        sargs.append(bound[x.id])
                    else:
                        sargs.append(_Val(self.m, x))
                self.ctx.need(not st.value.keywords, f'{what}: super().__init__ keywords')
                attrs.update(self._construct(base, sargs, {}))  # type: ignore[arg-type]
                continue
            tgt = st.targets[0] if isinstance(st, ast.Assign) and len(st.targets) == 1 else getattr(st, 'target', None)
            val = getattr(st, 'value', None)
            self.ctx.need(isinstance(st, (ast.Assign, ast.AnnAssign)) and isinstance(tgt, ast.Attribute) and isinstance(tgt.value, ast.Name)
                          and tgt.value.id == 'self' and val is not None, f'{what}: unrecognised statement `{pf.nsrc(st)[:70]}`')
            if isinstance(val, ast.Name) and val.id in bound:
                attrs[tgt.attr] = bound[val.id]  # type: ignore[union-attr]
            else:
                attrs[tgt.attr] = ('expr', val, bound)  # type: ignore[union-attr]
        return attrs

    def _attr_closed(self, attrs: Dict[str, Any], name: str) -> ast.expr:
        v = attrs[name]
        if isinstance(v, tuple) and v and v[0] == 'expr':
            _k, e, bound = v
            lib = self

            class S(ast.NodeTransformer):
                def visit_Name(self, node: ast.Name):  # noqa: N802
                    if node.id in bound and isinstance(node.ctx, ast.Load):
                        return lib._close(bound[node.id])
                    return node
            import copy
            return _Fold().visit(S().visit(copy.deepcopy(e)))
        return self._close(v)

    def _specialised_validate(self, cls: ast.ClassDef, attrs: Dict[str, Any], depth: int = 0) -> Tuple[List[ast.stmt], str]:
        """Body of cls.validate with self.<attr> replaced by the constructor arguments and super().validate inlined; -> (stmts, obj name)"""
        import copy
        self.ctx.need(depth < 4, f'{F_VLIB}::{cls.name}: validate chain too deep')
        val, owner = self._lookup(cls, 'validate')
        self.ctx.need(val is not None and owner is not None, f'{F_VLIB}::{cls.name}: no validate method')
        assert val is not None and owner is not None
        ps = [a.arg for a in val.args.args]
        self.ctx.need(len(ps) == 3 and not val.args.vararg and not val.args.kwarg and not val.args.kwonlyargs,
                      f'{F_VLIB}::{owner.name}.validate: parameters changed')
        obj = ps[2]
        lib = self
        used: List[str] = []

        class S(ast.NodeTransformer):
            def visit_Attribute(self, node: ast.Attribute):  # noqa: N802
                if isinstance(node.value, ast.Name) and node.value.id == 'self' and isinstance(node.ctx, ast.Load) and node.attr in attrs:
                    used.append(node.attr)
                    return lib._attr_closed(attrs, node.attr)
                return self.generic_visit(node)

            def visit_Raise(self, node: ast.Raise):  # noqa: N802
                return node  # messages are not evaluated

        out: List[ast.stmt] = []
        for st in val.body:
            if isinstance(st, ast.Expr) and isinstance(st.value, ast.Call) and pf.nsrc(st.value.func) == 'super().validate':
                base = self._base(owner)
                self.ctx.need(base is not None and [pf.nsrc(a) for a in st.value.args] == ps[1:] and not st.value.keywords,
                              f'{F_VLIB}::{owner.name}.validate: unrecognised `{pf.nsrc(st)}`')
                inner, obj2 = self._specialised_validate(base, attrs, depth + 1)  # type: ignore[arg-type]
                self.ctx.need(obj2 == obj, f'{F_VLIB}::{owner.name}.validate: the base class names the value differently')
                out += inner
                continue
            out.append(_Fold().visit(S().visit(copy.deepcopy(st))))
        return out, obj

    # ---- combinators recognised by shape
    _MULTI_LOOP = ('for checker in self.checkers:\n    try:\n        checker.validate(name, obj)\n        return\n'
                   '    except ValidationError as e:\n        excs.append(e)')

    def _is_multiple(self, cls: ast.ClassDef) -> bool:
        val = self._method(cls, 'validate')
        if val is None or cls.name != 'MultipleValidator':
            return False
        body = [st for st in val.body if not (isinstance(st, ast.Expr) and isinstance(st.value, ast.Constant))]
        ok = len(body) == 3 and pf.nsrc(body[0]) == pf.norm('excs = []') and pf.nsrc(body[1]) == pf.norm(self._MULTI_LOOP) \
            and isinstance(body[2], ast.If) and pf.nsrc(body[2].test) == 'excs' and not body[2].orelse and isinstance(body[2].body[-1], ast.Raise)
        self.ctx.need(ok, f'{F_VLIB}::MultipleValidator.validate: shape not recognised (expected: first checker that accepts wins, else raise)')
        return True

    def _is_nullable(self, cls: ast.ClassDef) -> bool:
        val = self._method(cls, 'validate')
        if val is None or cls.name != 'NullableValidator':
            return False
        body = [st for st in val.body if not (isinstance(st, ast.Expr) and isinstance(st.value, ast.Constant))]
        ok = len(body) == 1 and pf.nsrc(body[0]) == pf.norm('if obj is not None:\n    self.checker.validate(name, obj)')
        self.ctx.need(ok, f'{F_VLIB}::NullableValidator.validate: shape not recognised')
        return True

    def check_keyed_getitem(self, ctx: Ctx) -> None:
        """KeyedValidator.__getitem__(key) returns the validator given for that key."""
        cls = self.classes.get('KeyedValidator')
        ctx.need(cls is not None, f'{F_VLIB}: KeyedValidator vanished')
        gi, init = self._method(cls, '__getitem__'), self._method(cls, '__init__')  # type: ignore[arg-type]
        ctx.need(gi is not None and init is not None, f'{F_VLIB}::KeyedValidator: __getitem__/__init__ vanished')
        body = [st for st in gi.body if not (isinstance(st, ast.Expr) and isinstance(st.value, ast.Constant))]  # type: ignore[union-attr]
        ctx.need(len(body) == 1 and pf.nsrc(body[0]) == 'return self.checkers[key][0]', f'{F_VLIB}::KeyedValidator.__getitem__: shape not recognised')
        stores = [pf.nsrc(st) for st in ast.walk(init) if isinstance(st, ast.Assign) and pf.nsrc(st.targets[0]).startswith('self.checkers[')]  # type: ignore[arg-type]
        ctx.need(sorted(stores) == ['self.checkers[k.key] = (v, True)', 'self.checkers[k] = (v, False)'], f'{F_VLIB}::KeyedValidator.__init__: shape not recognised')

    # ---- validator expression -> language
    def _lib_symbol(self, m: pf.Module, name: str) -> Optional[str]:
        """The name of the library-level object a Name in module m refers to (imported from the library, or m is the library)."""
        if m is self.m or m.rel == F_VLIB:
            return name
        origin = sp.imports_of(m).get(name, '')
        if origin in ('hailtop.utils.validate.' + name, 'hailtop.utils.validate.validate.' + name) or origin.endswith('.validate.' + name):
            r = sp.resolve_import(m, name, sp.PACKAGE_ROOTS)
            if r is not None and r[0].rel.startswith('hail/python/hailtop/utils/validate/'):
                return r[1]
        return None

    def language(self, ctx: Ctx, m: pf.Module, e: ast.AST, depth: int = 0) -> Tuple[R.Lang, dict]:
        """Language admitted by a validator expression in module m (for str inputs)."""
        ctx.need(depth < 8, f'{m.rel}: validator expression nested too deeply')
        if isinstance(e, ast.Name):
            sym = self._lib_symbol(m, e.id)
            if sym is not None:
                L, info = self.language(ctx, self.m, sp.module_const(self.m, sym), depth + 1)
                return L, dict(info, name=sym)
            if e.id in sp.imports_of(m):
                r = sp.resolve_import(m, e.id, dict(sp.PACKAGE_ROOTS, batch='batch/batch'))
                ctx.need(r is not None, f'{m.rel}: cannot follow the import of the validator `{e.id}`')
                return self.language(ctx, r[0], ast.Name(id=r[1], ctx=ast.Load()), depth + 1)  # type: ignore[index]
            L, info = self.language(ctx, m, sp.module_const(m, e.id), depth + 1)
            return L, dict(info, name=e.id)
        if isinstance(e, ast.Call) and isinstance(e.func, ast.Name):
            sym = self._lib_symbol(m, e.func.id)
            if sym is None:
                raise AnalysisError(f'{m.rel}: unrecognised validator expression `{pf.nsrc(e)[:80]}`')
            args, kwargs = self._call_args(m, e)
            if sym in self.classes:
                return self._instance(ctx, self.classes[sym], args, kwargs, depth)
            ctx.need(self.m.has_func(sym), f'{F_VLIB}: {sym} is neither a validator class nor a factory function')
            fn = self.m.func(sym)
            body = [s for s in fn.body if not (isinstance(s, ast.Expr) and isinstance(s.value, ast.Constant))]
            ctx.need(len(body) == 1 and isinstance(body[0], ast.Return) and isinstance(body[0].value, ast.Call)
                     and isinstance(body[0].value.func, ast.Name) and body[0].value.func.id in self.classes and not body[0].value.keywords,
                     f'{F_VLIB}::{sym}: expected `return <ValidatorClass>(...)`')
            ret: ast.Call = body[0].value  # type: ignore[assignment]
            bound = self._bind(f'{F_VLIB}::{sym}', fn, False, args, kwargs)
            cargs: List[_Val] = []
            for a in ret.args:
                if isinstance(a, ast.Name) and a.id in bound:
                    b = bound[a.id]
                    ctx.need(isinstance(b, _Val), f'{F_VLIB}::{sym}: *{a.id} passed as one argument')
                    cargs.append(b)
                elif isinstance(a, ast.Call) and pf.dotted(a.func) in ('set', 'list', 'tuple', 'frozenset') and len(a.args) == 1 \
                        and isinstance(a.args[0], ast.Name) and isinstance(bound.get(a.args[0].id), list):
                    cargs.append(bound[a.args[0].id])  # the *args collected into a collection
                else:
                    ctx.need(not any(isinstance(x, ast.Name) and x.id in bound for x in ast.walk(a)), f'{F_VLIB}::{sym}: unrecognised constructor argument `{pf.nsrc(a)}`')
                    cargs.append(_Val(self.m, a))
            return self._instance(ctx, self.classes[ret.func.id], cargs, {}, depth)  # type: ignore[union-attr]
        raise AnalysisError(f'{m.rel}: unrecognised validator expression `{pf.nsrc(e)[:80]}`')

    def _elements(self, v: Any) -> List[_Val]:
        if isinstance(v, list):
            return v
        return [_Val(mm, ee) for mm, ee in self._sequence(v.m, v.e)]

    def _instance(self, ctx: Ctx, cls: ast.ClassDef, args: List[Any], kwargs: Dict[str, _Val], depth: int) -> Tuple[R.Lang, dict]:
        if self._is_multiple(cls):
            attrs = self._construct(cls, args, kwargs)
            ctx.need('checkers' in attrs and not (isinstance(attrs['checkers'], tuple)), f'{F_VLIB}::MultipleValidator: checkers not passed through')
            parts = [self.language(ctx, v.m, v.e, depth + 1) for v in self._elements(attrs['checkers'])]
            if not parts:
                return R.everything(), {'anyof': []}
            L = parts[0][0]
            for x, _ in parts[1:]:
                L = L | x
            return L, {'anyof': [i for _, i in parts]}
        if self._is_nullable(cls):
            attrs = self._construct(cls, args, kwargs)
            ctx.need(isinstance(attrs.get('checker'), _Val), f'{F_VLIB}::NullableValidator: wrapped validator not passed through')
            L, info = self.language(ctx, attrs['checker'].m, attrs['checker'].e, depth + 1)
            return L, {'nullable': info}
        # generic: specialise validate and translate it
        # (list arguments were already flattened into [_Val]; _construct accepts them as positional values)
        attrs = self._construct(cls, args, kwargs)
        stmts, obj = self._specialised_validate(cls, attrs)
        fn = ast.FunctionDef(name=f'{cls.name}.validate', args=ast.arguments(posonlyargs=[], args=[ast.arg(arg='self'), ast.arg(arg='name'), ast.arg(arg=obj)],
                                                                          kwonlyargs=[], kw_defaults=[], defaults=[]),
                             body=stmts or [ast.Pass()], decorator_list=[], type_params=[])
        ast.fix_missing_locations(fn)
        L, tr = sp.function_language(self.m, fn, obj, 'no-raise')
        info: dict = {'class': cls.name, 'idioms': list(tr.idioms),
                      'tests': [(pf.nsrc(s.test) if isinstance(s, ast.If) else 'after ' + pf.nsrc(s))[:120] for s in stmts
                                if not (isinstance(s, ast.If) and isinstance(s.test, ast.Constant)) and not isinstance(s, (ast.Pass, ast.Expr))]}
        if tr.regex_uses:
            info['regex'] = [{k: u[k] for k in ('pattern', 'flags', 'mode')} for u in tr.regex_uses]
            self.mode = tr.regex_uses[-1]['mode']
        return L, info


def _describe(info: dict) -> str:
    """One-line description of what a validator tests (from ValidatorLib.language's info)."""
    if 'anyof' in info:
        return 'any of [' + '; '.join(_describe(i) for i in info['anyof']) + ']'
    if 'nullable' in info:
        return 'nullable ' + _describe(info['nullable'])
    tests = info.get('tests') or []
    return f"{info.get('class', 'validator')} raising when " + (' / '.join(tests) if tests else 'never')


def _dict_entry(ctx: Ctx, d: ast.AST, key: str, where: str) -> ast.AST:
    ctx.need(isinstance(d, ast.Dict), f'{where}: not a dict literal')
    for k, v in zip(d.keys, d.values):  # type: ignore[union-attr]
        kk = k
        if isinstance(kk, ast.Call) and pf.dotted(kk.func) == 'required' and len(kk.args) == 1:
            kk = kk.args[0]
        if isinstance(kk, ast.Constant) and kk.value == key:
            return v
    raise AnalysisError(f'{where}: key {key!r} not found')


def _keyed_dict(ctx: Ctx, m: pf.Module, e: ast.AST, where: str, depth: int = 3) -> ast.Dict:
    """The dict literal of a `keyed({...})` validator expression (through module-level names)."""
    if isinstance(e, ast.Name) and depth > 0 and e.id not in sp.imports_of(m):
        return _keyed_dict(ctx, m, sp.module_const(m, e.id), where, depth - 1)
    ctx.need(isinstance(e, ast.Call) and pf.dotted(e.func) == 'keyed' and len(e.args) == 1 and not e.keywords
             and sp.imports_of(m).get('keyed', '').endswith('validate.keyed'), f'{where} is not keyed({{...}})')
    d = e.args[0]  # type: ignore[union-attr]
    if isinstance(d, ast.Name) and d.id not in sp.imports_of(m):
        d = sp.module_const(m, d.id)
    ctx.need(isinstance(d, ast.Dict) and all(k is not None for k in d.keys), f'{where}: keyed() of something that is not a plain dict literal')
    return d  # type: ignore[return-value]


def _server_validators(ctx: Ctx, mv: pf.Module) -> Dict[str, ast.AST]:
    jv = _keyed_dict(ctx, mv, ast.Name(id='job_validator', ctx=ast.Load()), 'job_validator')
    res = _keyed_dict(ctx, mv, _dict_entry(ctx, jv, 'resources', 'job_validator'), "job_validator['resources']")
    return {k: _dict_entry(ctx, res, k, "job_validator['resources']") for k in RESOURCES}


def _check_validation_applied(ctx: Ctx, vlib: 'ValidatorLib', mv: pf.Module, server: Dict[str, R.Lang], client: Dict[str, R.Lang],
                              server_exprs: Dict[str, ast.AST]) -> None:
    """validate_and_clean_jobs applies job_validator to every job; the deprecated `pvc_size` key, which is moved into
    resources['storage'] before that, is accepted for exactly the strings the client accepts as a storage size."""
    fname = 'validate_and_clean_jobs'
    ctx.need(mv.has_func(fname), f'{F_VALIDATE}: {fname} vanished')
    fn = mv.func(fname)
    loops = [st for st in fn.body if isinstance(st, ast.For)]
    ctx.need(len(loops) == 1 and isinstance(loops[0].target, (ast.Name, ast.Tuple)), f'{F_VALIDATE}::{fname}: expected one loop over the jobs')
    loop = loops[0]
    tnames = [x.id for x in ast.walk(loop.target) if isinstance(x, ast.Name)]
    applied = None
    deprecated = None
    for i, st in enumerate(loop.body):
        if isinstance(st, ast.Expr) and isinstance(st.value, ast.Call):
            c = st.value
            if pf.dotted(c.func) == 'job_validator.validate' and len(c.args) == 2 and isinstance(c.args[1], ast.Name) and c.args[1].id in tnames:
                applied = (i, c)
            if pf.dotted(c.func) == 'handle_deprecated_job_keys' and len(c.args) == 2 and isinstance(c.args[1], ast.Name) and c.args[1].id in tnames:
                deprecated = (i, c)
    anywhere = [c for c in pf.calls_in(fn) if pf.dotted(c.func) == 'job_validator.validate']
    cons = f'{F_VALIDATE}::{fname}::job_validator.validate(job) for every job'
    if applied is None:
        ctx.need(not anywhere, f'{F_VALIDATE}::{fname}: job_validator.validate is called in a shape that is not recognised')
        ctx.bad('R1', cons, f'{fname} never applies job_validator to the jobs: the server accepts every resource string, the client does not',
                mv.path, fn.lineno)
        return
    ctx.ok('R1', cons, {'statement': pf.nsrc(applied[1])})
    # ---- pvc_size
    hname = 'handle_deprecated_job_keys'
    cons = f"{F_VALIDATE}::{hname}::job['pvc_size'] accepted == client storage strings"
    if not mv.has_func(hname) or deprecated is None:
        ctx.need(not any(isinstance(x, ast.Constant) and x.value == 'pvc_size' for x in ast.walk(mv.tree)),
                 f"{F_VALIDATE}: 'pvc_size' is handled somewhere, but not through {hname}(i, job) in {fname}")
        ctx.ok('R1', cons, 'the deprecated pvc_size key is not handled any more', nontrivial=False)
        return
    h = mv.func(hname)
    hp = [a.arg for a in h.args.args]
    ctx.need(len(hp) == 2, f'{F_VALIDATE}::{hname}: parameters changed')
    job = hp[1]
    pvc_src = f"{job}['pvc_size']"

    def is_pvc(e: ast.AST) -> bool:
        e = pf.resolve_expr(h, e) if isinstance(e, ast.Name) else e
        return pf.nsrc(e) == pvc_src

    # where does the value go?
    stores = [st for st in ast.walk(h) if isinstance(st, ast.Assign) and len(st.targets) == 1 and isinstance(st.targets[0], ast.Subscript)
              and isinstance(st.targets[0].slice, ast.Constant) and st.targets[0].slice.value in RESOURCES and is_pvc(st.value)]
    ctx.need(len(stores) == 1, f"{F_VALIDATE}::{hname}: expected exactly one `resources[<key>] = job['pvc_size']`, found {len(stores)}")
    key = stores[0].targets[0].slice.value  # type: ignore[union-attr]
    ctx.need(isinstance(stores[0].targets[0].value, ast.Name), f'{F_VALIDATE}::{hname}: pvc_size is stored somewhere that is not recognised')  # type: ignore[union-attr]
    # validators applied to the value inside the handler
    L: R.Lang = R.everything()
    used = []
    for c in pf.calls_in(h):
        if isinstance(c.func, ast.Attribute) and c.func.attr == 'validate' and len(c.args) == 2 and is_pvc(c.args[1]):
            v = c.func.value
            # job_validator['resources']['storage'] -> the dict entry (KeyedValidator.__getitem__)
            path = []
            while isinstance(v, ast.Subscript) and isinstance(v.slice, ast.Constant) and isinstance(v.slice.value, str):
                path.append(v.slice.value)
                v = v.value
            if path:
                vlib.check_keyed_getitem(ctx)
                cur: ast.AST = v
                for k in reversed(path):
                    cur = _dict_entry(ctx, _keyed_dict(ctx, mv, cur, pf.nsrc(c.func.value)), k, pf.nsrc(c.func.value))
                v = cur
            Lv, _info = vlib.language(ctx, mv, v)
            L = L & Lv
            used.append(pf.nsrc(c.func.value))
    # afterwards the job validator sees the value under resources[key]
    ctx.need(deprecated[0] < applied[0], f'{F_VALIDATE}::{fname}: {hname} runs after job_validator.validate, which then sees the deprecated keys; not recognised')
    L = L & server[key]
    used.append(f"job_validator['resources'][{key!r}] afterwards")
    cmp = R.compare(L, client[key])
    ctx.check(cmp.equal, 'R1', cons,
              f"the deprecated key pvc_size (stored as resources[{key!r}], checked by {' and '.join(used)}) "
              + (f'admits {cmp.only_a!r}, which the client side rejects as a {key} size' if cmp.only_a is not None
                 else f'rejects {cmp.only_b!r}, which the client side accepts as a {key} size'), mv.path, h.lineno, detail={'validators': used, 'stored_as': key})


# --------------------------------------------------------------------------------------
# R3: evaluator for the parse arithmetic
# --------------------------------------------------------------------------------------


class _EvalRaise(Exception):
    """The interpreted code raises on this input."""


_RETURN = object()


class Evaluator:
    """Our own interpreter for the small Python subset the parse functions are written in, compiled once into closures over an
    environment dict.  Unknown syntax -> AnalysisError at compile time.  With ideal=True `float(x)` is read as the exact rational
    number (formula check, independent of rounding); otherwise it is the interpreter's binary64 float."""

    def __init__(self, p: ParseFn, ideal: bool = False):
        self.p = p
        self.ideal = ideal
        self.m = p.m
        self.imports = sp.imports_of(p.m)
        self.compiled = re.compile(p.rd.pattern, p.rd.flags)  # platform regex on the extracted pattern text (group extraction)
        self.consts: Dict[str, Any] = {}
        self.float_calls = [c for c in pf.calls_in(p.fn) if pf.dotted(c.func) == 'float']
        self.body = self.block(list(p.fn.body))

    def run(self, text: str) -> Tuple[Any, Optional[ast.Return]]:
        env: Dict[str, Any] = {self.p.param: text}
        r = self.body(env)
        if r is None:
            return None, None
        return r[1], r[2]

    # -- statements: closure(env) -> None (fell through) | (_RETURN, value, stmt)
    def block(self, stmts: List[ast.stmt]):
        parts = [self.stmt(st) for st in stmts if not (isinstance(st, ast.Expr) and isinstance(st.value, ast.Constant)) and not isinstance(st, ast.Pass)]

        def run_block(env):
            for f in parts:
                r = f(env)
                if r is not None:
                    return r
            return None
        return run_block

    def stmt(self, st: ast.stmt):
        if isinstance(st, (ast.Assign, ast.AnnAssign)):
            tgt = st.targets[0] if isinstance(st, ast.Assign) and len(st.targets) == 1 else getattr(st, 'target', None)
            if isinstance(tgt, ast.Name) and st.value is not None:
                name, val = tgt.id, self.expr(st.value)

                def assign(env):
                    env[name] = val(env)
                return assign
        if isinstance(st, ast.AugAssign) and isinstance(st.target, ast.Name):
            name, val, op = st.target.id, self.expr(st.value), self.binop(st.op)

            def aug(env):
                env[name] = op(env[name], val(env))
            return aug
        if isinstance(st, ast.If):
            test, body, orelse = self.expr(st.test), self.block(list(st.body)), self.block(list(st.orelse))
            return lambda env: body(env) if test(env) else orelse(env)
        if isinstance(st, ast.Return):
            val = self.expr(st.value) if st.value is not None else (lambda env: None)
            return lambda env: (_RETURN, val(env), st)
        raise AnalysisError(f'{self.p.name}: statement not supported by the arithmetic evaluator: `{pf.nsrc(st)[:70]}` (line {st.lineno})')

    @staticmethod
    def binop(op: ast.operator):
        def guarded(f):
            def g(a, b):
                try:
                    return f(a, b)
                except (OverflowError, ZeroDivisionError, TypeError, decimal.InvalidOperation) as ex:
                    raise _EvalRaise(f'{type(ex).__name__}: {ex}') from ex
            return g

        def power(a, b):
            if not isinstance(b, int) or abs(b) > 64:
                raise AnalysisError('evaluator: exponent out of range')
            return a ** b
        table = {ast.Add: lambda a, b: a + b, ast.Sub: lambda a, b: a - b, ast.Mult: lambda a, b: a * b, ast.Div: lambda a, b: a / b,
                 ast.FloorDiv: lambda a, b: a // b, ast.Mod: lambda a, b: a % b, ast.Pow: power}
        if type(op) not in table:
            raise AnalysisError(f'evaluator: operator {type(op).__name__} not supported')
        return guarded(table[type(op)])

    def module_value(self, name: str) -> Any:
        if name not in self.consts:
            self.consts[name] = self.expr(sp.module_const(self.m, name))({})
        return self.consts[name]

    # -- expressions: closure(env) -> value
    def expr(self, e: ast.AST):
        if isinstance(e, ast.Constant):
            v = e.value
            return lambda env: v
        if isinstance(e, ast.Name):
            name = e.id
            locals_ = pf.assignments(self.p.fn)
            if name in locals_:
                def load(env):
                    if name not in env:
                        raise _EvalRaise(f'UnboundLocalError({name})')
                    return env[name]
                return load
            return lambda env: self.module_value(name)
        if isinstance(e, ast.BinOp):
            op, a, b = self.binop(e.op), self.expr(e.left), self.expr(e.right)
            return lambda env: op(a(env), b(env))
        if isinstance(e, ast.UnaryOp) and isinstance(e.op, (ast.USub, ast.Not, ast.UAdd)):
            a = self.expr(e.operand)
            if isinstance(e.op, ast.USub):
                return lambda env: -a(env)
            if isinstance(e.op, ast.Not):
                return lambda env: not a(env)
            return lambda env: +a(env)
        if isinstance(e, ast.BoolOp):
            parts = [self.expr(x) for x in e.values]
            is_and = isinstance(e.op, ast.And)

            def boolop(env):
                v = None
                for f in parts:
                    v = f(env)
                    if bool(v) != is_and:
                        return v
                return v
            return boolop
        if isinstance(e, ast.IfExp):
            t, a, b = self.expr(e.test), self.expr(e.body), self.expr(e.orelse)
            return lambda env: a(env) if t(env) else b(env)
        if isinstance(e, ast.Compare) and len(e.ops) == 1:
            a, b = self.expr(e.left), self.expr(e.comparators[0])
            table = {ast.Eq: lambda x, y: x == y, ast.NotEq: lambda x, y: x != y, ast.Lt: lambda x, y: x < y, ast.LtE: lambda x, y: x <= y,
                     ast.Gt: lambda x, y: x > y, ast.GtE: lambda x, y: x >= y, ast.Is: lambda x, y: x is y, ast.IsNot: lambda x, y: x is not y,
                     ast.In: lambda x, y: x in y, ast.NotIn: lambda x, y: x not in y}
            if type(e.ops[0]) in table:
                cmp = table[type(e.ops[0])]
                return lambda env: cmp(a(env), b(env))
        if isinstance(e, ast.Dict) and all(k is not None for k in e.keys):
            ks = [self.expr(k) for k in e.keys]  # type: ignore[arg-type]
            vs = [self.expr(v) for v in e.values]
            return lambda env: {k(env): v(env) for k, v in zip(ks, vs)}
        if isinstance(e, ast.Subscript):
            base, key = self.expr(e.value), self.expr(e.slice)

            def sub(env):
                d, k = base(env), key(env)
                if isinstance(d, str) and isinstance(k, int):
                    if not -len(d) <= k < len(d):
                        raise _EvalRaise(f'IndexError({k})')
                    return d[k]
                if not isinstance(d, dict):
                    raise AnalysisError(f'{self.p.name}: subscript of a non-dict value in `{pf.nsrc(e)}`')
                if k not in d:
                    raise _EvalRaise(f'KeyError({k!r})')
                return d[k]
            return sub
        if isinstance(e, ast.Call) and not e.keywords:
            if e is self.p.call:
                matcher, subj = getattr(self.compiled, self.p.mode), self.expr(self.p.subject)

                def do_match(env):
                    v = subj(env)
                    if not isinstance(v, str):
                        raise AnalysisError(f'{self.p.name}: the regex subject is not a string in the evaluator')
                    return matcher(v)
                return do_match
            args = [self.expr(a) for a in e.args]
            f = e.func
            if isinstance(f, ast.Attribute) and f.attr == 'group' and isinstance(f.value, ast.Name):
                holder = f.value.id

                def group(env):
                    mo = env.get(holder)
                    if not isinstance(mo, re.Match):
                        raise AnalysisError(f'{self.p.name}: `{pf.nsrc(e)}` is not applied to the match object')
                    return mo.group(*[a(env) for a in args])
                return group
            if isinstance(f, ast.Attribute) and f.attr in ('strip', 'lstrip', 'rstrip', 'lower', 'upper', 'casefold', 'replace') and len(args) <= 2:
                base, meth = self.expr(f.value), f.attr

                def strmeth(env):
                    b = base(env)
                    if not isinstance(b, str):
                        raise AnalysisError(f'{self.p.name}: `{pf.nsrc(e)}` is not applied to a string')
                    try:
                        return getattr(b, meth)(*[a(env) for a in args])
                    except TypeError as ex:
                        raise _EvalRaise(f'TypeError: {ex}') from ex
                return strmeth
            name = pf.dotted(f) or ''
            head = name.split('.')[0]
            if head in pf.assignments(self.p.fn):
                raise AnalysisError(f'{self.p.name}: call through a local name `{name}`')
            origin = self.imports.get(head, '')
            full = (origin + name[len(head):]) if origin else name
            ideal = self.ideal
            impl = {
                'float': (lambda x: fractions.Fraction(x)) if ideal else (lambda x: float(x)),
                'int': lambda x: int(x), 'round': lambda x: round(x), 'str': lambda x: str(x),
                'math.ceil': lambda x: math.ceil(x), 'math.floor': lambda x: math.floor(x), 'math.trunc': lambda x: math.trunc(x),
                'decimal.Decimal': lambda x: decimal.Decimal(x), 'fractions.Fraction': lambda *x: fractions.Fraction(*x),
            }.get(full)
            if impl is not None and (len(args) == 1 or (full == 'fractions.Fraction' and len(args) == 2)):
                def call(env):
                    try:
                        return impl(*[a(env) for a in args])
                    except (OverflowError, ValueError, TypeError, decimal.InvalidOperation, ZeroDivisionError) as ex:
                        raise _EvalRaise(f'{type(ex).__name__}: {ex}') from ex
                return call
        raise AnalysisError(f'{self.p.name}: expression not supported by the arithmetic evaluator: `{pf.nsrc(e)[:70]}`')


def _candidates(resource: str, units: List[str]) -> List[Tuple[str, str, Optional[str]]]:
    """(text, number, unit) - accepted spellings the arithmetic is evaluated on."""
    nums: List[str] = []
    if resource == 'cpu':
        for i in range(0, 4):
            nums.append(str(i))
            for w in (1, 2, 3):
                nums += [f'{i}.{d:0{w}d}' for d in range(10 ** w)]
        nums += [str(k) for k in range(4, 2051)]
    else:
        for i in range(0, 3):
            nums.append(str(i))
            for w in (1, 2):
                nums += [f'{i}.{d:0{w}d}' for d in range(10 ** w)]
        nums += [f'0.{d:03d}' for d in range(1000)]
        nums += [str(k) for k in range(3, 65)]
    nums += ['.5', '.001', '007', '1.0005', '0.0015', '0.0001', '1.0000000000000000001', '9007199254740993', '0.30000000000000004',
             '123456789.123456789']
    out = []
    for n in nums:
        for u in [None] + units:
            out.append((n + (u or ''), n, u))
    # spellings with sign / byte suffix for a few
    for n in ('1', '0.25', '1.001'):
        out.append(('+' + n, n, None))
        if resource != 'cpu':
            out.append((n + 'B', n, None))
            for u in units[:2]:
                out.append((n + u + 'B', n, u))
    return out


def _exact(resource: str, number: str, unit: Optional[str]) -> int:
    v = fractions.Fraction(number)
    if resource == 'cpu':
        if unit is not None:
            v = v * SPEC_CPU_UNITS[unit]
        return math.floor(v * 1000)
    return math.ceil(v * (SPEC_UNITS[unit] if unit is not None else 1))


def _check_exactness(ctx: Ctx, p: ParseFn, units: List[str]) -> int:
    """R4: the formula (float read as exact real arithmetic) on a sub-family; R3: the real float arithmetic on the whole family."""
    dfa = R.to_dfa(p.full, R.alphabet_for([p.full]))
    rets = [n for n in pf.walk_shallow(p.fn) if isinstance(n, ast.Return) and n.value is not None
            and not (isinstance(n.value, ast.Constant) and n.value.value is None)]
    spec_units = SPEC_CPU_UNITS if p.resource == 'cpu' else SPEC_UNITS
    cands = _candidates(p.resource, [u for u in units if u in spec_units])  # units outside the statement are R2's business
    for text, _n, _u in cands:
        if not dfa.accepts(text):
            raise AnalysisError(f'{p.name}: candidate spelling {text!r} is not in the regex language (R2 would have to fail first)')
    unit_word = 'mCPU' if p.resource == 'cpu' else 'bytes'
    n_eval = 0
    formula_ok: Dict[int, bool] = {}
    for rule, ideal in (('R4', True), ('R3', False)):
        evalr = Evaluator(p, ideal)
        per_stmt: Dict[int, dict] = {id(r): {'stmt': r, 'n': 0, 'bad': []} for r in rets}
        family = cands if not ideal else [c for i, c in enumerate(cands) if i % 5 == 0 or len(c[1]) > 6 or c[0][0] == '+' or c[0][-1] == 'B']
        for text, number, unit in family:
            want = _exact(p.resource, number, unit)
            try:
                got, stmt = evalr.run(text)
            except _EvalRaise as ex:
                got, stmt = f'raises {ex}', None
            n_eval += 1
            rec = per_stmt[id(stmt)] if stmt is not None and id(stmt) in per_stmt else per_stmt.setdefault(0, {'stmt': None, 'n': 0, 'bad': []})
            rec['n'] += 1
            if got != want or isinstance(got, bool) or not isinstance(got, int):
                rec['bad'].append((text, got, want))
        for key, rec in per_stmt.items():
            st = rec['stmt']
            stext = pf.nsrc(st) if st is not None else 'no value returned'
            cons = f'{F_PARSE}::{p.name}::{stext}'
            if st is not None and rec['n'] == 0:
                raise AnalysisError(f'{p.name}: `{stext}` is not reached by any evaluated spelling')
            line = st.lineno if st is not None else p.fn.lineno
            bad = sorted(rec['bad'], key=lambda b: (len(b[0]), b[0]))
            ex = '; '.join(f'{t!r} -> {g} (exact value {w} {unit_word})' for t, g, w in bad[:3])
            if ideal:
                formula_ok[key] = not bad
                ctx.check(not bad, 'R4', cons,
                          f'even with exact real arithmetic in place of float the statement computes the wrong value for {len(bad)} of {rec["n"]} '
                          f'evaluated spellings, e.g. {ex} (expected ' + ('floor(value * 1000), value / 1000 for the m suffix' if p.resource == 'cpu'
                                                                          else 'ceil(value * 1000^n or 1024^n)') + ')',
                          p.m.path, line, detail={'evaluated_spellings': rec['n']}, extra=[list(map(str, b)) for b in bad[:10]])
            elif not formula_ok.get(key, True):
                # the float result is wrong because the formula is wrong: already reported under R4
                ctx.ok('R3', cons, 'not evaluated: the formula itself fails R4', nontrivial=False)
            elif bad:
                why = ''
                if evalr.float_calls:
                    why = (' - the decimal text goes through binary float(): the product/quotient is rounded before '
                           + ('int() truncates it' if p.resource == 'cpu' else 'math.ceil() is applied'))
                ctx.bad('R3', cons, f'{len(bad)} of {rec["n"]} evaluated spellings give the wrong value, e.g. {ex}{why}', p.m.path, line,
                        extra=[list(map(str, b)) for b in bad[:10]])
            else:
                ctx.ok('R3', cons, {'evaluated_spellings': rec['n'], 'float_free': not evalr.float_calls})
    return n_eval


# --------------------------------------------------------------------------------------
# front end call sites
# --------------------------------------------------------------------------------------


def _resources_key(fn: pf.FuncDef, g: pf.CFG, call_node: pf.Node, arg: ast.AST, depth: int = 0) -> Optional[Tuple[str, str]]:
    """Which validated `resources` key does the argument of a parse call hold?  -> (key, how)"""
    if isinstance(arg, ast.Name) and depth < 2:
        d = pf.single_def(fn, arg.id)
        if isinstance(d, ast.expr):
            return _resources_key(fn, g, call_node, d, depth + 1)
        return None
    if isinstance(arg, ast.Call) and pf.dotted(arg.func) == 'resources.get' and len(arg.args) in (1, 2) and isinstance(arg.args[0], ast.Constant):
        return str(arg.args[0].value), pf.nsrc(arg)
    if isinstance(arg, ast.Subscript) and pf.dotted(arg.value) == 'resources' and isinstance(arg.slice, ast.Constant) and isinstance(arg.slice.value, str):
        key = arg.slice.value
        if key in RESOURCES:
            return key, pf.nsrc(arg)
        # resources['req_x'] = resources['x'] must dominate the use
        srcs = []
        for n in g.nodes:
            st = n.ast
            if n.kind == 'stmt' and isinstance(st, ast.Assign) and len(st.targets) == 1 and pf.nsrc(st.targets[0]) == pf.nsrc(arg):
                srcs.append((n, st.value))
        if len(srcs) == 1 and isinstance(srcs[0][1], ast.Subscript) and pf.dotted(srcs[0][1].value) == 'resources' \
                and isinstance(srcs[0][1].slice, ast.Constant) and g.dominated_by(call_node, lambda x: x is srcs[0][0]):
            return str(srcs[0][1].slice.value), f'{pf.nsrc(arg)} = {pf.nsrc(srcs[0][1])}'
    return None


def _check_front_end(ctx: Ctx, parse: Dict[str, ParseFn], server: Dict[str, R.Lang], named_memory: List[str]) -> None:
    mf = pf.load(F_FRONT)
    imps = mf.imports()
    by_fn = {p.name: p for p in parse.values()}
    for name in by_fn:
        ctx.need(imps.get(name) == 'hailtop.batch_client.parse.' + name, f'{F_FRONT}: {name} is not imported from hailtop.batch_client.parse ({imps.get(name)})')
        ctx.need(not mf.has_func(name), f'{F_FRONT}: {name} is redefined locally')
    named = R.lang(R.alt(*[R.lit(s) for s in named_memory]), 'named memory types')
    n_sites = 0
    seen = set()
    for qual, fn in mf.functions():
        calls = [c for c in pf.calls_in(fn) if pf.dotted(c.func) in by_fn]
        if not calls:
            continue
        g = pf.cfg(fn)
        for c in calls:
            p = by_fn[pf.dotted(c.func)]  # type: ignore[index]
            seen.add(p.name)
            nodes = g.node_of(c)
            ctx.need(len(nodes) == 1 and len(c.args) == 1 and not c.keywords, f'{qual}: unrecognised call `{pf.nsrc(c)}`')
            rk = _resources_key(fn, g, nodes[0], c.args[0])
            ctx.need(rk is not None, f'{F_FRONT}::{qual}: cannot tell which validated resources entry `{pf.nsrc(c.args[0])}` holds')
            key, how = rk  # type: ignore[misc]
            ctx.need(key in server, f'{F_FRONT}::{qual}: `{pf.nsrc(c)}` parses resources[{key!r}], which has no size validator')
            validated = server[key] - named if key == 'memory' else server[key]
            w = R.included(validated, p.lang)
            n_sites += 1
            ctx.check(w is None, 'R1', f'{F_FRONT}::{qual}::{pf.nsrc(c)}',
                      f'`{pf.nsrc(c)}` parses the validated resources[{key!r}] ({how}) but {p.name} does not accept {w!r}, which the job validator admits for {key!r}',
                      mf.path, c.lineno, detail={'resources_key': key, 'via': how})
    ctx.need(seen == set(by_fn), f'{F_FRONT}: parse functions never called in the front end: {sorted(set(by_fn) - seen)}')
    ctx.unit('front_end_parse_sites', n_sites)
    # literal defaults
    for key, const in (('cpu', 'BATCH_JOB_DEFAULT_CPU'), ('memory', 'BATCH_JOB_DEFAULT_MEMORY'), ('storage', 'BATCH_JOB_DEFAULT_STORAGE')):
        v = sp.module_const(mf, const)
        lit: Optional[str] = None
        if isinstance(v, ast.Call) and pf.dotted(v.func) == 'os.environ.get' and len(v.args) == 2:
            lit = pf.const_str(v.args[1])
        elif pf.const_str(v) is not None:
            lit = pf.const_str(v)
        ctx.need(lit is not None, f'{F_FRONT}: {const} is not a literal / os.environ.get(NAME, literal)')
        assert lit is not None
        ok = parse[key].lang if key != 'memory' else (parse[key].lang | named)
        ctx.check(R.accepts(ok, lit), 'R1', f'{F_FRONT}::{const}',
                  f'the built-in default {lit!r} substituted for a missing resources[{key!r}] is not accepted by {parse[key].name}', mf.path,
                  getattr(v, 'lineno', 0), detail={'default': lit})


# --------------------------------------------------------------------------------------
# other users of the patterns
# --------------------------------------------------------------------------------------


HAILCTL_KEYS = {'QUERY_BATCH_DRIVER_CORES': 'cpu', 'QUERY_BATCH_WORKER_CORES': 'cpu', 'QUERY_BATCH_DRIVER_MEMORY': 'memory',
                'QUERY_BATCH_WORKER_MEMORY': 'memory'}


def _check_hailctl(ctx: Ctx, client: Dict[str, R.Lang], handled: set) -> int:
    """`hailctl config set query/batch_{driver,worker}_{cores,memory}`: the validation predicate registered for the key - however
    it is written - accepts exactly the client language of that resource (these values are sent to the server as they are)."""
    m = pf.load(F_HAILCTL)
    found: Dict[str, Tuple[ast.AST, ast.AST]] = {}
    for d in ast.walk(m.tree):
        if not isinstance(d, ast.Dict):
            continue
        for k, v in zip(d.keys, d.values):
            name = pf.dotted(k) if k is not None else None
            if name and name.startswith('ConfigVariable.') and name.split('.', 1)[1] in HAILCTL_KEYS:
                ctx.need(name.split('.', 1)[1] not in found, f'{F_HAILCTL}: {name} is registered twice')
                found[name.split('.', 1)[1]] = (k, v)
    ctx.need(set(found) == set(HAILCTL_KEYS), f'{F_HAILCTL}: config variables not found: {sorted(set(HAILCTL_KEYS) - set(found))}')
    n = 0
    for key, res in HAILCTL_KEYS.items():
        _k, v = found[key]
        ctx.need(isinstance(v, ast.Call) and pf.dotted(v.func) == 'ConfigVariableInfo', f'{F_HAILCTL}: {key} is not a ConfigVariableInfo(...)')
        val = next((kw.value for kw in v.keywords if kw.arg == 'validation'), v.args[1] if len(v.args) > 1 else None)  # type: ignore[union-attr]
        ctx.need(isinstance(val, ast.Tuple) and len(val.elts) == 2, f'{F_HAILCTL}: {key}: validation is not a (predicate, message) pair')
        pred = val.elts[0]  # type: ignore[union-attr]
        fn = m.enclosing_func(v)
        where = f'{F_HAILCTL}::{m.qualname(fn) if fn is not None else "<module>"}'
        if isinstance(pred, ast.Lambda):
            ctx.need(len(pred.args.args) == 1 and not pred.args.vararg and not pred.args.kwarg, f'{F_HAILCTL}: {key}: predicate is not a one-parameter lambda')
            x = pred.args.args[0].arg
            tr = sp.Translator(m, fn, x)
            L = tr.cond(pred.body)
            text = f'lambda {x}: {pf.nsrc(pred.body)}'
            for c in ast.walk(pred):
                handled.add(id(c))
        else:
            ctx.need(isinstance(pred, ast.Name) and m.has_func(pred.id), f'{F_HAILCTL}: {key}: predicate `{pf.nsrc(pred)}` is neither a lambda nor a module function')
            h = m.func(pred.id)  # type: ignore[union-attr]
            hp = [a.arg for a in h.args.posonlyargs + h.args.args]
            ctx.need(len(hp) == 1, f'{F_HAILCTL}: {key}: predicate {pred.id} takes {len(hp)} parameters')  # type: ignore[union-attr]
            L, tr = sp.function_language(m, h, hp[0], 'bool')
            text = f'{pred.id}'  # type: ignore[union-attr]
        cmp = R.compare(L, client[res])
        n += 1
        ctx.check(cmp.equal, 'R1', f'{where}::{text}',
                  f'the validation predicate of hailctl config variable {key} (`{text}`) does not accept the same {res} strings as the batch client/server: '
                  + (f'accepts {cmp.only_a!r}, which they reject' if cmp.only_a is not None else f'rejects {cmp.only_b!r}, which they accept'),
                  m.path, getattr(pred, 'lineno', 0), detail={'resource': res, 'config_variable': key, 'idioms': tr.idioms})
    return n


def _check_other_users(ctx: Ctx, parse: Dict[str, ParseFn], client: Dict[str, R.Lang], files: List[str]) -> None:
    """Every other matching call that uses one of the three patterns/objects: when it sits in a one-parameter lambda (a validation
    predicate) the whole lambda body is translated and must accept exactly the client language of that resource (named memory types
    included); otherwise the call alone must accept the parse function's language."""
    sym_to_res = {}
    for res, (_fn, obj, pat) in RESOURCES.items():
        sym_to_res['hailtop.batch_client.parse.' + obj] = res
        sym_to_res['hailtop.batch_client.parse.' + pat] = res
    n = 0
    handled: set = set()
    if F_HAILCTL in files:
        n += _check_hailctl(ctx, client, handled)
    for rel in files:
        m = pf.load(rel)
        local = {name: sym_to_res[o] for name, o in sp.imports_of(m).items() if o in sym_to_res}
        if not local:
            continue
        par = m.parents()
        for node in ast.walk(m.tree):
            if not isinstance(node, ast.Call) or not isinstance(node.func, ast.Attribute) or node.func.attr not in R.MODES:
                continue
            if id(node) in handled:
                continue
            uses = [x.id for a in list(node.args) + [node.func] for x in ast.walk(a) if isinstance(x, ast.Name) and x.id in local]
            if not uses:
                continue
            fn = m.enclosing_func(node)
            rc = sp.regex_call(m, fn, node)
            if rc is None:
                continue
            rd, mode, subject = rc
            res = local[uses[0]]
            where = f'{rel}::{m.qualname(fn) if fn is not None else "<module>"}'
            lam = par.get(node)
            while lam is not None and not isinstance(lam, (ast.Lambda, ast.FunctionDef, ast.AsyncFunctionDef)):
                lam = par.get(lam)
            n += 1
            if isinstance(lam, ast.Lambda) and len(lam.args.args) == 1 and isinstance(subject, ast.Name) and subject.id == lam.args.args[0].arg:
                tr = sp.Translator(m, None, subject.id)
                L = tr.cond(lam.body)
                cmp = R.compare(L, client[res])
                ctx.check(cmp.equal, 'R1', f'{where}::lambda {subject.id}: {pf.nsrc(lam.body)}',
                          f'the validation predicate `{pf.nsrc(lam.body)}` does not accept the same {res} strings as the batch client/server: '
                          + (f'accepts {cmp.only_a!r}, which they reject' if cmp.only_a is not None else f'rejects {cmp.only_b!r}, which they accept'),
                          m.path, node.lineno, detail={'mode': mode, 'resource': res, 'idioms': tr.idioms})
            else:
                cmp = R.compare(R.from_regex(rd.pattern, rd.flags, mode), parse[res].lang)
                ctx.check(cmp.equal, 'R1', f'{where}::{pf.nsrc(node)}',
                          f'`{pf.nsrc(node)}` ({mode}) does not accept the same {res} strings as {parse[res].name}: '
                          + (f'accepts {cmp.only_a!r} which the parser rejects' if cmp.only_a is not None else f'rejects {cmp.only_b!r} which the parser accepts'),
                          m.path, node.lineno, detail={'mode': mode, 'resource': res})
    ctx.unit('other_pattern_uses', n)


# --------------------------------------------------------------------------------------


def _fold_int(m: pf.Module, e: ast.AST) -> int:
    if isinstance(e, ast.Constant) and isinstance(e.value, int) and not isinstance(e.value, bool):
        return e.value
    if isinstance(e, ast.BinOp) and isinstance(e.op, (ast.Pow, ast.Mult, ast.Add, ast.LShift)):
        a, b = _fold_int(m, e.left), _fold_int(m, e.right)
        if isinstance(e.op, ast.Pow):
            if not 0 <= b <= 64:
                raise AnalysisError('constant folding: exponent out of range')
            return a ** b
        if isinstance(e.op, ast.Mult):
            return a * b
        if isinstance(e.op, ast.Add):
            return a + b
        if not 0 <= b <= 128:
            raise AnalysisError('constant folding: shift out of range')
        return a << b
    if isinstance(e, ast.Name):
        return _fold_int(m, sp.module_const(m, e.id))
    raise AnalysisError(f'{m.rel}: cannot fold `{pf.nsrc(e)}` to an integer')


def run(ctx: Ctx) -> None:
    ctx.explanation = ('Regex languages (with the matching mode used at each site) are compared as DFAs over a partition of all Unicode code '
                       'points; the unit table is constant-folded; the parse arithmetic is interpreted by our own evaluator on a family of '
                       'accepted spellings and compared with exact rational arithmetic. No repository code is run.')
    ctx.rule('R1', 'client = server: validator language == parse-function language per resource (mode-aware); None iff no match; front-end '
                   'parse sites and defaults are covered; every other use of the patterns accepts the same language; job_validator is applied to every job '
                   'and the deprecated pvc_size key is accepted for exactly the client storage strings', 19)
    ctx.rule('R2', 'L(regex) == documented grammar [+]?(D+|D*.D+)unit?B? ; group 1 == unsigned decimal; group 2 == unit set == keys of '
                   'conv_factor with values 1000^n/1024^n', 12)
    ctx.rule('R3', 'each value-returning statement of the parse functions yields floor(value*1000) mCPU / ceil(value*factor) bytes exactly '
                   '(own evaluator with the interpreter\'s float arithmetic vs rational arithmetic on a family of accepted spellings)', 5)
    ctx.rule('R4', 'formula: the same statements evaluated with exact real arithmetic in place of float give floor(value*1000) (value/1000 for '
                   'the m suffix) / ceil(value*1000^n|1024^n) - independent of rounding', 5)
    ctx.assume('Python float is IEEE-754 binary64 with round-to-nearest-even (the arithmetic of the running interpreter)')
    ctx.assume('the strings reach the validators as str; the front end resolves named memory types before calling parse_memory_in_bytes')
    mp = pf.load(F_PARSE)
    mv = pf.load(F_VALIDATE)
    ctx.unit('files', 5)

    parse = {res: ParseFn(ctx, mp, res) for res in RESOURCES}

    # ---------------- R2
    units_by_res: Dict[str, List[str]] = {}
    for res, p in parse.items():
        base = f'{F_PARSE}::{RESOURCES[res][1]}'
        obj_rd = sp.resolve_regex(mp, None, ast.Name(id=RESOURCES[res][1], ctx=ast.Load()))
        ctx.need(obj_rd.node is p.rd.node, f'{p.name} does not match with {RESOURCES[res][1]} (uses {p.rd.where})')
        spec = spec_language(res)
        cmp = R.compare(p.full, spec)
        msg = ''
        if not cmp.equal:
            msg = (f'pattern {p.rd.pattern!r} accepts {cmp.only_a!r}, which is not in the documented grammar {spec.label}' if cmp.only_a is not None
                   else f'pattern {p.rd.pattern!r} rejects {cmp.only_b!r}, which the documented grammar {spec.label} admits')
        ctx.check(cmp.equal, 'R2', base + '::language', msg, mp.path, getattr(obj_rd.node, 'lineno', 0), detail=cmp.describe())
        groups = R.regex_groups(p.rd.pattern, p.rd.flags)
        ctx.need(1 in groups and 2 in groups, f'{RESOURCES[res][1]}: expected capture groups 1 (number) and 2 (unit)')
        c1 = R.compare(R.lang(groups[1], 'group 1'), R.lang(_number_re(), 'D+|D*.D+'))
        ctx.check(c1.equal, 'R2', base + '::group 1 is the unsigned decimal number',
                  f'capture group 1 of {p.rd.pattern!r} ' + (f'can capture {c1.only_a!r}, not an unsigned decimal that float()/Decimal() read as its value'
                                                             if c1.only_a is not None else f'cannot capture the number {c1.only_b!r}'),
                  mp.path, getattr(obj_rd.node, 'lineno', 0))
        units = R.finite_strings(R.lang(groups[2], 'group 2'))
        units_by_res[res] = units
        want = sorted(SPEC_CPU_UNITS if res == 'cpu' else SPEC_UNITS, key=lambda w: (len(w), w))
        ctx.check(units == want, 'R2', base + '::group 2 is the unit set',
                  f'capture group 2 of {p.rd.pattern!r} admits the units {units}, the documented units are {want}', mp.path, getattr(obj_rd.node, 'lineno', 0),
                  detail={'units': units})
        ctx.unit('regexes')
    # conv_factor
    cf = sp.module_const(mp, 'conv_factor')
    ctx.need(isinstance(cf, ast.Dict) and all(isinstance(k, ast.Constant) and isinstance(k.value, str) for k in cf.keys), 'conv_factor is not a dict literal with string keys')
    table = {k.value: _fold_int(mp, v) for k, v in zip(cf.keys, cf.values)}  # type: ignore[union-attr]
    ctx.need(len(table) == len(cf.keys), 'conv_factor has duplicate keys')  # type: ignore[union-attr]
    for res in ('memory', 'storage'):
        missing = [u for u in units_by_res[res] if u not in table]
        dead = [u for u in table if u not in units_by_res[res]]
        ctx.check(not missing and not dead, 'R2', f'{F_PARSE}::conv_factor::keys == units of {RESOURCES[res][1]}',
                  (f'units {missing} are admitted by {RESOURCES[res][1]} but have no entry in conv_factor (KeyError at parse time)' if missing
                   else f'conv_factor entries {dead} can never be selected by {RESOURCES[res][1]}'), mp.path, cf.lineno)
    wrong = {u: v for u, v in table.items() if u in SPEC_UNITS and v != SPEC_UNITS[u]}
    ctx.check(not wrong, 'R2', f'{F_PARSE}::conv_factor::values',
              'conv_factor has the wrong multiplier for ' + ', '.join(f'{u!r}: {v} (must be {SPEC_UNITS[u]})' for u, v in wrong.items()), mp.path, cf.lineno,
              detail={'entries': len(table)})
    ctx.unit('unit_table_entries', len(table))

    # ---------------- R1
    vlib = ValidatorLib(ctx)
    server_exprs = _server_validators(ctx, mv)
    imps_v = mv.imports()
    mg = pf.load('batch/batch/globals.py')
    mt = sp.module_const(mg, 'memory_types')
    ctx.need(isinstance(mt, (ast.Tuple, ast.List)) and mt.elts, 'batch/batch/globals.py: memory_types is not a tuple literal')
    named_memory: List[str] = [sp.const_string(mg, None, x) for x in mt.elts]  # type: ignore[union-attr]
    server: Dict[str, R.Lang] = {}
    client_lang: Dict[str, R.Lang] = {}
    for res, p in parse.items():
        _check_none_iff_no_match(ctx, p)
        L, info = vlib.language(ctx, mv, server_exprs[res])
        server[res] = L
        client = p.lang
        if res == 'memory':
            # the front end resolves the named memory types (batch.globals.memory_types) before parsing
            client = client | R.lang(R.alt(*[R.lit(x) for x in named_memory]), 'named memory types')
        client_lang[res] = client
        cmp = R.compare(L, client)
        msg = ''
        if not cmp.equal:
            srv = f"the job validator for resources[{res!r}] (`{pf.nsrc(server_exprs[res])}`: {_describe(info)})"
            msg = (f"{srv} admits {cmp.only_a!r}, which {p.name} (`{pf.nsrc(p.call)}`) rejects" if cmp.only_a is not None else
                   f"{srv} rejects {cmp.only_b!r}, which the client side ({p.name}, `{pf.nsrc(p.call)}`" + (', or a named memory type' if res == 'memory' else '') + ') accepts')
        ctx.check(cmp.equal, 'R1', f"{F_VALIDATE}::job_validator['resources'][{res!r}] == {p.name}", msg, mv.path, getattr(server_exprs[res], 'lineno', 0),
                  detail=dict(cmp.describe(), server=info, client_mode=p.mode))
    _check_validation_applied(ctx, vlib, mv, server, client_lang, server_exprs)
    _check_front_end(ctx, parse, server, named_memory)
    files = [F_HAILCTL, F_VALIDATE, F_FRONT]
    if ctx.tier == 'thorough':
        files = sorted(set(files) | set(pf.walk_py(['hail/python/hailtop', 'batch/batch', 'ci/ci', 'gear/gear'])))
        ctx.unit('files_scanned_for_pattern_uses', len(files))
    _check_other_users(ctx, parse, client_lang, [f for f in files if f != F_PARSE])

    # ---------------- R3
    total = 0
    for res, p in parse.items():
        total += _check_exactness(ctx, p, units_by_res[res])
    ctx.unit('arithmetic_evaluations', total)
