"""C25 Resource-size strings parse to their decimal value.

Decides (from the syntax trees of hailtop/batch_client/parse.py, batch/front_end/validate.py, hailtop/utils/validate/validate.py,
batch/front_end/front_end.py and hailctl/config/config_variables.py; nothing of the repository is run):
  R1  client = server.  For cpu / memory / storage: the language the job validator admits EQUALS the language the parse function
      accepts (regex + mode of its own matching call, on the parameter or on a normalised copy of it - then the preimage; memory
      additionally admits the named memory types, which the front end resolves before parsing).  The validator language is READ
      FROM THE LIBRARY SOURCE for whatever validator expression stands in job_validator['resources'] - inline `regex(...)`,
      a named module-level validator object, nullable()/anyof()/oneof() wrappers, TypedValidator/TruthyValidator instances: the
      factory's `return Cls(...)` is followed, __init__ is run symbolically, the constructor arguments (pattern, compiled regex,
      maxlen through integer constants, ...) are substituted into a copy of the class's validate method and that method is
      translated by engines/strpred.py - matching mode, maxlen, any further length test, stripping/lower-casing before the
      match; length bounds are regular, the comparison stays exact.  The parse functions return None exactly on the
      non-matching branch.  Every parse call in the front end goes to hailtop.batch_client.parse, on a validated `resources`
      entry whose validator language is included in the parse function's language; the literal defaults substituted for missing
      entries are parseable.  Every other use of the patterns (hailctl config validators, ...) accepts the same language.
      validate_and_clean_jobs applies job_validator to every job, and the deprecated `pvc_size` key (validated on its own, then
      moved into resources['storage'] and validated again) is accepted for exactly the client's storage strings.
  R2  grammar.  L(regex, fullmatch) == the documented grammar  [+]? (D+ | D* '.' D+) unit? ['B']  as automata; capture group 1 is
      exactly the unsigned decimal number, capture group 2 exactly the unit set; `conv_factor` has exactly those units as keys
      with the values 1000^n / 1024^n (constant-folded from the literal table).
  R4  formula.  Each parse function is executed ABSTRACTLY (module-level helpers inlined at statement level or followed at call level;
      arguments - regex, factor table, rounding callable - substituted for the helper's parameters), once per unit case: the finite set
      of strings capture group 2 can hold plus "no unit".  The number is one symbol (`value`, the exact rational the unsigned decimal of
      group 1 denotes); every value-returning statement yields a normal form k*mode(c*value + d) + j (mode: floor / ceil / nearest, from
      int / math.floor / math.ceil / math.trunc / round / //), which must be exactly floor(1000*value) mCPU (floor(value) with the m suffix)
      or ceil(1000^n | 1024^n * value) bytes.  value ranges over a dense unbounded set, so different normal forms ARE different functions:
      a mismatch is a wrong result for some accepted string (one is printed as illustration).  Raising on a unit case, returning None /
      a constant / an unrounded value are reported too.
  R3  exactness.  On the same execution a value is tainted once its machine value can differ from c*value + d: float() of the text, a
      float operand, Decimal arithmetic (rounded to the context precision), int ** negative int, true division of integers.  A tainted
      value reaching the rounding / the return is reported (the grammar admits any number of digits, so a lossy step loses some input).
Tests that depend on the value of the number, loops, digit-string arithmetic whose result is only known as an interval: declined.
Does not decide: functions whose arithmetic falls outside the abstract domain (declined, exit 2).
"""
from __future__ import annotations

import ast
import decimal
import fractions
import math
import re
from typing import Any, Dict, List, Optional, Tuple

from engines import inline
from engines import pyfacts as pf
from engines import relang as R
from engines import strpred as sp
from engines.common import AnalysisError, Ctx

META = dict(
    category='other',
    text='R1/R2 are decided exactly (automata equivalence over all Unicode strings, finite unit tables by constant folding); R4 compares, per unit case '
         '(finite, exhaustive), the normal form of the value each return statement yields with the normal form the statement prescribes - the number is a symbol, '
         'no sample inputs; R3 is a taint rule over the same abstract execution (float / context-rounded Decimal steps). Shapes outside the abstract domain are '
         'declined, hence level other.',
    note='Trusted: CPython ast/re._parser (group numbering / names of the extracted pattern); engines/relang.py, engines/strpred.py, engines/inline.py; Fraction arithmetic and '
         'Fraction(text) / Decimal(text) construction are exact, float() and Decimal arithmetic are not; the validator semantics are read from '
         'hailtop/utils/validate/validate.py (symbolic construction + translation of the specialised validate method), with the '
         'combinators MultipleValidator / NullableValidator recognised by shape.',
    technique='static analysis: regex-to-DFA equivalence, constant folding, abstract execution over symbolic values with a case split over the finite unit set, '
              'normal-form comparison, taint',
    design_ref='DESIGN.md §3 C25',
)

F_PARSE = 'hail/python/hailtop/batch_client/parse.py'
F_VALIDATE = 'batch/batch/front_end/validate.py'
F_VLIB = 'hail/python/hailtop/utils/validate/validate.py'
F_FRONT = 'batch/batch/front_end/front_end.py'
F_HAILCTL = 'hail/python/hailtop/hailctl/config/config_variables.py'

# resource -> (parse function, regex object symbol, pattern symbol)
RESOURCES = {
    'cpu': ('parse_cpu_in_mcpu', 'CPU_REGEX', 'CPU_REGEXPAT'),
    'memory': ('parse_memory_in_bytes', 'MEMORY_REGEX', 'MEMORY_REGEXPAT'),
    'storage': ('parse_storage_in_bytes', 'STORAGE_REGEX', 'STORAGE_REGEXPAT'),
}
# the statement: decimal (K, M, G, T, P) and binary (Ki, ...) multiples
SPEC_UNITS = {p + s: (1024 if s else 1000) ** (i + 1) for i, p in enumerate('KMGTP') for s in ('', 'i')}
SPEC_CPU_UNITS = {'m': fractions.Fraction(1, 1000)}

_D = R.CharSet([(ord('0'), ord('9'))])


def _number_re() -> R.Re:
    """unsigned decimal: D+ | D* '.' D+"""
    return R.seq(R.opt(R.seq(R.star(R.chars(_D)), R.lit('.'))), R.plus(R.chars(_D)))


def spec_language(resource: str) -> R.Lang:
    sign = R.opt(R.lit('+'))
    if resource == 'cpu':
        return R.lang(R.seq(sign, _number_re(), R.opt(R.lit('m'))), "[+]?(D+|D*.D+)[m]?")
    units = R.alt(*[R.lit(u) for u in sorted(SPEC_UNITS)])
    return R.lang(R.seq(sign, _number_re(), R.opt(units), R.opt(R.lit('B'))), "[+]?(D+|D*.D+)(K|Ki|M|Mi|G|Gi|T|Ti|P|Pi)?B?")


# --------------------------------------------------------------------------------------
# the parse functions
# --------------------------------------------------------------------------------------


class ParseFn:
    def __init__(self, ctx: Ctx, m: pf.Module, resource: str):
        self.resource = resource
        self.name = RESOURCES[resource][0]
        ctx.need(m.has_func(self.name), f'{F_PARSE}: {self.name} vanished')
        # the function is analysed with its module-level helpers inlined (one shared `_parse(regex, text, factors, rounding)` helper
        # is the obvious refactoring of three near-identical bodies): arguments are substituted for the helper's parameters
        m, il = inline.inline_functions(m, self.name)
        self.inlined = [h for h, _line in il.inlined]
        self.m = m
        self.fn = m.func(self.name)
        params = [a.arg for a in self.fn.args.posonlyargs + self.fn.args.args]
        ctx.need(len(params) == 1, f'{self.name}: expected exactly one parameter, found {params}')
        self.param = params[0]
        # the unique regex matching call on the parameter
        found = []
        for c in pf.calls_in(self.fn):
            rc = sp.regex_call(m, self.fn, c)
            if rc is not None:
                found.append((c, rc))
        ctx.need(len(found) == 1, f'{self.name}: expected exactly one regex matching call, found {len(found)}')
        self.call, (self.rd, self.mode, subject) = found[0]
        self.subject = subject
        # the regex is applied to the parameter, or to a normalised copy of it (s.strip(), s.lower(), ...): then the accepted
        # strings are the preimage of the regex language
        tr = sp.Translator(m, self.fn, self.param)
        chain = tr.chain_of(pf.expand_locals(self.fn, subject))
        ctx.need(chain is not None, f'{self.name}: the regex is applied to `{pf.nsrc(subject)}`, which is not the parameter or a normalised copy of it')
        ctx.need(len(pf.assignments(self.fn).get(self.param, [])) == 1, f'{self.name}: the parameter is rebound')
        self.normalised = bool(chain)
        self.lang = tr.preimage(R.from_regex(self.rd.pattern, self.rd.flags, self.mode), chain)  # type: ignore[arg-type]
        self.full = R.from_regex(self.rd.pattern, self.rd.flags, 'fullmatch')


def _check_none_iff_no_match(ctx: Ctx, p: ParseFn) -> None:
    """returns None exactly on the non-matching branch of `if <match>`.  Decided on the CFG for the plain shapes; a problem found there (or a
    shape the CFG reading does not recognise, e.g. one `return result` shared by both branches) is settled by the abstract execution of
    the function for the two cases "the regex matched" / "it did not": a FAIL needs a value that execution establishes."""
    fn, m = p.fn, p.m
    cons = f'{F_PARSE}::{p.name}::None iff the regex does not match'
    holder: Optional[str] = None
    try:
        problems, holder = _none_iff_no_match_cfg(ctx, p)
    except AnalysisError as e:
        problems = [f'not recognised on the control-flow graph ({e})']
    if problems:
        # confirm by abstract execution (SymExec is defined below; nothing is run on inputs: the cases are "matched, unit u" and "not matched")
        confirmed: List[str] = []
        try:
            v, st = SymExec(p, None, matched=False).run()
            if not (isinstance(v, K) and v.v is None):
                confirmed.append(f'without a match `{pf.nsrc(st) if st is not None else "the end of the function"}` returns a value, not None')
        except _Raises as ex:
            confirmed.append(f'without a match the function raises {ex} instead of returning None')
        try:
            v, st = SymExec(p, None, matched=True).run()
            if isinstance(v, K) and v.v is None:
                confirmed.append(f'on a successful match `{pf.nsrc(st) if st is not None else "the end of the function"}` returns None, the answer for "not a size"')
        except _Raises:
            pass  # reported by R4 with the unit case
        problems = confirmed
    ctx.check(not problems, 'R1', cons, '; '.join(problems), m.path, fn.lineno, detail={'match_variable': holder, 'mode': p.mode})


def _none_iff_no_match_cfg(ctx: Ctx, p: ParseFn) -> Tuple[List[str], Optional[str]]:
    fn = p.fn
    g = pf.cfg(fn)
    # the call must be `v = <call>` and v single-assignment
    holder = None
    for st in pf.walk_shallow(fn):
        if isinstance(st, ast.Assign) and st.value is p.call and len(st.targets) == 1 and isinstance(st.targets[0], ast.Name):
            holder = st.targets[0].id
    ctx.need(holder is not None and pf.single_def(fn, holder) is p.call, f'{p.name}: the match object is not bound to a single-assignment variable')
    tests = [n for n in g.nodes if n.kind == 'test' and n.ast is not None]
    gate = None
    for n in tests:
        e = n.ast
        neg = False
        while isinstance(e, ast.UnaryOp) and isinstance(e.op, ast.Not):
            neg, e = not neg, e.operand
        if isinstance(e, ast.Compare) and len(e.ops) == 1 and isinstance(e.comparators[0], ast.Constant) and e.comparators[0].value is None \
                and isinstance(e.ops[0], (ast.Is, ast.IsNot, ast.Eq, ast.NotEq)):
            neg = neg != isinstance(e.ops[0], (ast.Is, ast.Eq))
            e = e.left
        if isinstance(e, ast.Name) and e.id == holder:
            ctx.need(gate is None, f'{p.name}: the match object is tested more than once')
            gate = (n, neg)
    ctx.need(gate is not None, f'{p.name}: no `if {holder}` test found')
    gn, neg = gate  # type: ignore[misc]
    yes, no = ('F', 'T') if neg else ('T', 'F')

    def returns_from(label: str) -> Tuple[List[pf.Node], bool]:
        reach: set = set()
        for t, lab in gn.succ:
            if lab == label:
                reach |= g.reachable_from(t) | {t.id}
        rets = [n for n in g.nodes if n.id in reach and n.kind == 'return']
        falls = any(any(s is g.exit for s, _ in n.succ) and n.kind != 'return' for n in g.nodes if n.id in reach) or \
            any(t is g.exit for t, lab in gn.succ if lab == label)
        return rets, falls

    def is_none(n: pf.Node) -> bool:
        v = n.ast.value  # type: ignore[union-attr]
        return v is None or (isinstance(v, ast.Constant) and v.value is None)

    yes_rets, yes_falls = returns_from(yes)
    no_rets, no_falls = returns_from(no)
    problems = []
    both = {n.id for n in yes_rets} & {n.id for n in no_rets}
    for n in yes_rets:
        if n.id not in both and is_none(n):
            problems.append(f'on a successful match `{n.text()}` returns None, the answer for "not a size"')
    if yes_falls or any(n.id in both for n in yes_rets):
        problems.append('a successful match can fall through to the no-match result')
    for n in no_rets:
        if not is_none(n):
            problems.append(f'without a match `{n.text()}` returns a value')
    return problems, holder


# --------------------------------------------------------------------------------------
# the server-side validators
# --------------------------------------------------------------------------------------


class _Val:
    """An argument expression together with the module it is written in."""
    __slots__ = ('m', 'e')

    def __init__(self, m: pf.Module, e: ast.AST):
        self.m = m
        self.e = e


def _is_re_compile(e: ast.AST) -> bool:
    return isinstance(e, ast.Call) and pf.dotted(e.func) == 're.compile'


def _truth(e: ast.AST) -> Optional[bool]:
    """Truth value of a closed expression when it is known without evaluating anything."""
    if isinstance(e, ast.Constant):
        return bool(e.value)
    if _is_re_compile(e):
        return True  # a compiled pattern is an object without __bool__/__len__
    if isinstance(e, (ast.Tuple, ast.List, ast.Set)):
        return bool(e.elts)
    return None


class _Fold(ast.NodeTransformer):
    """Constant folding of the tests left over after the constructor arguments have been substituted into a method body:
    `<closed> is [not] None`, not/and/or/if-else over known truth values.  Only the truth value of the result is preserved."""

    def visit_Compare(self, node: ast.Compare):  # noqa: N802
        self.generic_visit(node)
        if len(node.ops) == 1 and isinstance(node.ops[0], (ast.Is, ast.IsNot)) and isinstance(node.comparators[0], ast.Constant) \
                and node.comparators[0].value is None:
            left = node.left
            known: Optional[bool] = None
            if isinstance(left, ast.Constant):
                known = left.value is None
            elif _is_re_compile(left) or isinstance(left, (ast.Tuple, ast.List, ast.Set)):
                known = False
            if known is not None:
                return ast.copy_location(ast.Constant(value=known == isinstance(node.ops[0], ast.Is)), node)
        return node

    def visit_UnaryOp(self, node: ast.UnaryOp):  # noqa: N802
        self.generic_visit(node)
        if isinstance(node.op, ast.Not) and _truth(node.operand) is not None:
            return ast.copy_location(ast.Constant(value=not _truth(node.operand)), node)
        return node

    def visit_IfExp(self, node: ast.IfExp):  # noqa: N802
        self.generic_visit(node)
        t = _truth(node.test)
        if t is not None:
            return node.body if t else node.orelse
        return node

    def visit_BoolOp(self, node: ast.BoolOp):  # noqa: N802
        self.generic_visit(node)
        is_and = isinstance(node.op, ast.And)
        kept: List[ast.expr] = []
        for i, v in enumerate(node.values):
            t = _truth(v)
            if t is None:
                kept.append(v)
                continue
            if t != is_and:  # decides the result (as far as it is reached)
                kept.append(v)
                break
            if i == len(node.values) - 1:
                kept.append(v)  # neutral element in last position: it is the value
        if len(kept) == 1:
            return kept[0]
        node.values = kept
        return node


class ValidatorLib:
    """Semantics of the validator objects of hailtop.utils.validate, READ FROM ITS SOURCE for every validator expression:
    a factory call (`regex(p, r, maxlen=n)`) is followed through the factory's `return Cls(...)`, the constructor is run
    symbolically (`self.x = <expression over the parameters>`, `super().__init__(...)`), the constructor arguments are closed to
    constants (patterns, compiled regexes, folded integers, literal collections) and substituted for `self.x` in a copy of the
    class's `validate` method (with `super().validate(...)` inlined); what is left is a one-parameter string predicate that
    engines/strpred.py translates into the language of accepted strings - whatever tests the class really performs (matching
    mode, maxlen, a minlen, stripping or lower-casing before the match, ...).  The combinators MultipleValidator (anyof) and
    NullableValidator are recognised by the shape of their validate methods and become union / the wrapped language."""

    def __init__(self, ctx: Ctx):
        m = pf.load(F_VLIB)
        self.m = m
        self.ctx = ctx
        ctx.need(sp.imports_of(m).get('re') == 're', f'{F_VLIB}: `re` is not imported as a module')
        self.classes = {c.name: c for c in m.classes()}
        for helper in ('regex', 'anyof', 'oneof'):
            ctx.need(m.has_func(helper), f'{F_VLIB}::{helper} vanished')
        self.mode: Optional[str] = None  # matching mode of the last regex validator translated (diagnostics)
        self._cache: Dict[Tuple[int, int], Tuple[R.Lang, dict]] = {}

    # ---- helpers
    def _method(self, cls: ast.ClassDef, name: str) -> Optional[ast.FunctionDef]:
        for st in cls.body:
            if isinstance(st, ast.FunctionDef) and st.name == name:
                return st
        return None

    def _base(self, cls: ast.ClassDef) -> Optional[ast.ClassDef]:
        if not cls.bases:
            return None
        self.ctx.need(len(cls.bases) == 1 and isinstance(cls.bases[0], ast.Name) and cls.bases[0].id in self.classes and not cls.keywords,
                      f'{F_VLIB}::{cls.name}: base classes not recognised')
        return self.classes[cls.bases[0].id]  # type: ignore[union-attr]

    def _lookup(self, cls: ast.ClassDef, name: str) -> Tuple[Optional[ast.FunctionDef], Optional[ast.ClassDef]]:
        c: Optional[ast.ClassDef] = cls
        while c is not None:
            f = self._method(c, name)
            if f is not None:
                return f, c
            c = self._base(c)
        return None, None

    def _bind(self, what: str, fn: ast.FunctionDef, skip_self: bool, args: List[_Val], kwargs: Dict[str, _Val]) -> Dict[str, Any]:
        """parameter name -> _Val | list of _Val (for *args) ; defaults filled in."""
        a = fn.args
        self.ctx.need(not a.posonlyargs and not a.kwonlyargs and a.kwarg is None, f'{what}: parameter kinds not recognised')
        params = [x.arg for x in a.args][1 if skip_self else 0:]
        bound: Dict[str, Any] = {}
        defaults = dict(zip([x.arg for x in a.args][len(a.args) - len(a.defaults):], a.defaults))
        rest = list(args)
        for p in params:
            if rest:
                bound[p] = rest.pop(0)
        if a.vararg is not None:
            bound[a.vararg.arg] = rest
            rest = []
        self.ctx.need(not rest, f'{what}: too many arguments')
        for k, v in kwargs.items():
            self.ctx.need(k in params and k not in bound, f'{what}: unexpected keyword {k}')
            bound[k] = v
        for p in params:
            if p not in bound:
                self.ctx.need(p in defaults, f'{what}: missing argument {p}')
                bound[p] = _Val(self.m, defaults[p])
        return bound

    def _call_args(self, m: pf.Module, call: ast.Call) -> Tuple[List[_Val], Dict[str, _Val]]:
        args: List[_Val] = []
        for x in call.args:
            if isinstance(x, ast.Starred):
                args += [_Val(mm, ee) for mm, ee in self._sequence(m, x.value)]
            else:
                args.append(_Val(m, x))
        self.ctx.need(all(k.arg is not None for k in call.keywords), f'{m.rel}: `{pf.nsrc(call)[:60]}`: ** arguments')
        return args, {k.arg: _Val(m, k.value) for k in call.keywords}  # type: ignore[misc]

    def _sequence(self, m: pf.Module, e: ast.AST, depth: int = 4) -> List[Tuple[pf.Module, ast.AST]]:
        """Elements of a literal tuple/list/set expression (through names, imports and set()/list()/tuple() wrappers)."""
        self.ctx.need(depth > 0, f'{m.rel}: cannot resolve `{pf.nsrc(e)[:60]}` to a literal collection')
        if isinstance(e, (ast.Tuple, ast.List, ast.Set)):
            out: List[Tuple[pf.Module, ast.AST]] = []
            for x in e.elts:
                if isinstance(x, ast.Starred):
                    out += self._sequence(m, x.value, depth - 1)
                else:
                    out.append((m, x))
            return out
        if isinstance(e, ast.Call) and pf.dotted(e.func) in ('set', 'frozenset', 'list', 'tuple', 'sorted') and len(e.args) == 1 and not e.keywords:
            return self._sequence(m, e.args[0], depth - 1)
        if isinstance(e, ast.Name):
            if e.id in sp.imports_of(m):
                r = sp.resolve_import(m, e.id, sp.PACKAGE_ROOTS)
                self.ctx.need(r is not None, f'{m.rel}: cannot follow the import of {e.id}')
                return self._sequence(r[0], ast.Name(id=r[1], ctx=ast.Load()), depth - 1)  # type: ignore[index]
            return self._sequence(m, sp.module_const(m, e.id), depth - 1)
        raise AnalysisError(f'{m.rel}: `{pf.nsrc(e)[:60]}` is not a literal collection')

    def _close(self, v: Any) -> ast.expr:
        """A constructor argument as a closed expression that means the same inside the library module."""
        if isinstance(v, list):
            return ast.Tuple(elts=[self._close(x) for x in v], ctx=ast.Load())
        m, e = v.m, v.e
        if isinstance(e, ast.Constant) and (e.value is None or isinstance(e.value, (str, int, bool))):
            return ast.Constant(value=e.value)
        if isinstance(e, ast.Name) and e.id == 'str' and e.id not in sp.imports_of(m):
            return ast.Name(id='str', ctx=ast.Load())
        try:
            return ast.Constant(value=_fold_int(m, e))
        except AnalysisError:
            pass
        try:
            return ast.Constant(value=sp.const_string(m, None, e))
        except AnalysisError:
            pass
        try:
            rd = sp.resolve_regex(m, None, e)
            return ast.Call(func=ast.Attribute(value=ast.Name(id='re', ctx=ast.Load()), attr='compile', ctx=ast.Load()),
                            args=[ast.Constant(value=rd.pattern), ast.Constant(value=int(rd.flags))], keywords=[])
        except AnalysisError:
            pass
        try:
            return ast.Tuple(elts=[self._close(_Val(mm, ee)) for mm, ee in self._sequence(m, e)], ctx=ast.Load())
        except AnalysisError:
            pass
        raise AnalysisError(f'{m.rel}: cannot evaluate the validator argument `{pf.nsrc(e)[:60]}`')

    # ---- symbolic construction
    def _construct(self, cls: ast.ClassDef, args: List[_Val], kwargs: Dict[str, _Val]) -> Dict[str, Any]:
        """attribute name -> _Val | [_Val] | closed expression, after running __init__ symbolically."""
        init, owner = self._lookup(cls, '__init__')
        if init is None:
            self.ctx.need(not args and not kwargs, f'{F_VLIB}::{cls.name}: arguments but no __init__')
            return {}
        assert owner is not None
        what = f'{F_VLIB}::{owner.name}.__init__'
        bound = self._bind(what, init, True, args, kwargs)
        attrs: Dict[str, Any] = {}
        for st in init.body:
            if isinstance(st, ast.Expr) and isinstance(st.value, ast.Constant):
                continue
            if isinstance(st, ast.Expr) and isinstance(st.value, ast.Call) and pf.nsrc(st.value.func) == 'super().__init__':
                base = self._base(owner)
                self.ctx.need(base is not None, f'{what}: super() without a base class')
                sargs: List[_Val] = []
                for x in st.value.args:
                    if isinstance(x, ast.Name) and x.id in bound:
                        self.ctx.need(isinstance(bound[x.id], _Val), f'{what}: *args passed on')
                        sargs.append(bound[x.id])
                    else:
                        sargs.append(_Val(self.m, x))
                self.ctx.need(not st.value.keywords, f'{what}: super().__init__ keywords')
                attrs.update(self._construct(base, sargs, {}))  # type: ignore[arg-type]
                continue
            tgt = st.targets[0] if isinstance(st, ast.Assign) and len(st.targets) == 1 else getattr(st, 'target', None)
            val = getattr(st, 'value', None)
            self.ctx.need(isinstance(st, (ast.Assign, ast.AnnAssign)) and isinstance(tgt, ast.Attribute) and isinstance(tgt.value, ast.Name)
                          and tgt.value.id == 'self' and val is not None, f'{what}: unrecognised statement `{pf.nsrc(st)[:70]}`')
            if isinstance(val, ast.Name) and val.id in bound:
                attrs[tgt.attr] = bound[val.id]  # type: ignore[union-attr]
            else:
                attrs[tgt.attr] = ('expr', val, bound)  # type: ignore[union-attr]
        return attrs

    def _attr_closed(self, attrs: Dict[str, Any], name: str) -> ast.expr:
        v = attrs[name]
        if isinstance(v, tuple) and v and v[0] == 'expr':
            _k, e, bound = v
            lib = self

            class S(ast.NodeTransformer):
                def visit_Name(self, node: ast.Name):  # noqa: N802
                    if node.id in bound and isinstance(node.ctx, ast.Load):
                        return lib._close(bound[node.id])
                    return node
            import copy
            return _Fold().visit(S().visit(copy.deepcopy(e)))
        return self._close(v)

    def _specialised_validate(self, cls: ast.ClassDef, attrs: Dict[str, Any], depth: int = 0) -> Tuple[List[ast.stmt], str]:
        """Body of cls.validate with self.<attr> replaced by the constructor arguments and super().validate inlined; -> (stmts, obj name)"""
        import copy
        self.ctx.need(depth < 4, f'{F_VLIB}::{cls.name}: validate chain too deep')
        val, owner = self._lookup(cls, 'validate')
        self.ctx.need(val is not None and owner is not None, f'{F_VLIB}::{cls.name}: no validate method')
        assert val is not None and owner is not None
        ps = [a.arg for a in val.args.args]
        self.ctx.need(len(ps) == 3 and not val.args.vararg and not val.args.kwarg and not val.args.kwonlyargs,
                      f'{F_VLIB}::{owner.name}.validate: parameters changed')
        obj = ps[2]
        lib = self
        used: List[str] = []

        class S(ast.NodeTransformer):
            def visit_Attribute(self, node: ast.Attribute):  # noqa: N802
                if isinstance(node.value, ast.Name) and node.value.id == 'self' and isinstance(node.ctx, ast.Load) and node.attr in attrs:
                    used.append(node.attr)
                    return lib._attr_closed(attrs, node.attr)
                return self.generic_visit(node)

            def visit_Raise(self, node: ast.Raise):  # noqa: N802
                return node  # messages are not evaluated

        out: List[ast.stmt] = []
        for st in val.body:
            if isinstance(st, ast.Expr) and isinstance(st.value, ast.Call) and pf.nsrc(st.value.func) == 'super().validate':
                base = self._base(owner)
                self.ctx.need(base is not None and [pf.nsrc(a) for a in st.value.args] == ps[1:] and not st.value.keywords,
                              f'{F_VLIB}::{owner.name}.validate: unrecognised `{pf.nsrc(st)}`')
                inner, obj2 = self._specialised_validate(base, attrs, depth + 1)  # type: ignore[arg-type]
                self.ctx.need(obj2 == obj, f'{F_VLIB}::{owner.name}.validate: the base class names the value differently')
                out += inner
                continue
            out.append(_Fold().visit(S().visit(copy.deepcopy(st))))
        return out, obj

    # ---- combinators recognised by shape
    _MULTI_LOOP = ('for checker in self.checkers:\n    try:\n        checker.validate(name, obj)\n        return\n'
                   '    except ValidationError as e:\n        excs.append(e)')

    def _is_multiple(self, cls: ast.ClassDef) -> bool:
        val = self._method(cls, 'validate')
        if val is None or cls.name != 'MultipleValidator':
            return False
        body = [st for st in val.body if not (isinstance(st, ast.Expr) and isinstance(st.value, ast.Constant))]
        ok = len(body) == 3 and pf.nsrc(body[0]) == pf.norm('excs = []') and pf.nsrc(body[1]) == pf.norm(self._MULTI_LOOP) \
            and isinstance(body[2], ast.If) and pf.nsrc(body[2].test) == 'excs' and not body[2].orelse and isinstance(body[2].body[-1], ast.Raise)
        self.ctx.need(ok, f'{F_VLIB}::MultipleValidator.validate: shape not recognised (expected: first checker that accepts wins, else raise)')
        return True

    def _is_nullable(self, cls: ast.ClassDef) -> bool:
        val = self._method(cls, 'validate')
        if val is None or cls.name != 'NullableValidator':
            return False
        body = [st for st in val.body if not (isinstance(st, ast.Expr) and isinstance(st.value, ast.Constant))]
        ok = len(body) == 1 and pf.nsrc(body[0]) == pf.norm('if obj is not None:\n    self.checker.validate(name, obj)')
        self.ctx.need(ok, f'{F_VLIB}::NullableValidator.validate: shape not recognised')
        return True

    def check_keyed_getitem(self, ctx: Ctx) -> None:
        """KeyedValidator.__getitem__(key) returns the validator given for that key."""
        cls = self.classes.get('KeyedValidator')
        ctx.need(cls is not None, f'{F_VLIB}: KeyedValidator vanished')
        gi, init = self._method(cls, '__getitem__'), self._method(cls, '__init__')  # type: ignore[arg-type]
        ctx.need(gi is not None and init is not None, f'{F_VLIB}::KeyedValidator: __getitem__/__init__ vanished')
        body = [st for st in gi.body if not (isinstance(st, ast.Expr) and isinstance(st.value, ast.Constant))]  # type: ignore[union-attr]
        ctx.need(len(body) == 1 and pf.nsrc(body[0]) == 'return self.checkers[key][0]', f'{F_VLIB}::KeyedValidator.__getitem__: shape not recognised')
        stores = [pf.nsrc(st) for st in ast.walk(init) if isinstance(st, ast.Assign) and pf.nsrc(st.targets[0]).startswith('self.checkers[')]  # type: ignore[arg-type]
        ctx.need(sorted(stores) == ['self.checkers[k.key] = (v, True)', 'self.checkers[k] = (v, False)'], f'{F_VLIB}::KeyedValidator.__init__: shape not recognised')

    # ---- validator expression -> language
    def _lib_symbol(self, m: pf.Module, name: str) -> Optional[str]:
        """The name of the library-level object a Name in module m refers to (imported from the library, or m is the library)."""
        if m is self.m or m.rel == F_VLIB:
            return name
        origin = sp.imports_of(m).get(name, '')
        if origin in ('hailtop.utils.validate.' + name, 'hailtop.utils.validate.validate.' + name) or origin.endswith('.validate.' + name):
            r = sp.resolve_import(m, name, sp.PACKAGE_ROOTS)
            if r is not None and r[0].rel.startswith('hail/python/hailtop/utils/validate/'):
                return r[1]
        return None

    def language(self, ctx: Ctx, m: pf.Module, e: ast.AST, depth: int = 0) -> Tuple[R.Lang, dict]:
        """Language admitted by a validator expression in module m (for str inputs)."""
        ctx.need(depth < 8, f'{m.rel}: validator expression nested too deeply')
        if isinstance(e, ast.Name):
            sym = self._lib_symbol(m, e.id)
            if sym is not None:
                L, info = self.language(ctx, self.m, sp.module_const(self.m, sym), depth + 1)
                return L, dict(info, name=sym)
            if e.id in sp.imports_of(m):
                r = sp.resolve_import(m, e.id, dict(sp.PACKAGE_ROOTS, batch='batch/batch'))
                ctx.need(r is not None, f'{m.rel}: cannot follow the import of the validator `{e.id}`')
                return self.language(ctx, r[0], ast.Name(id=r[1], ctx=ast.Load()), depth + 1)  # type: ignore[index]
            L, info = self.language(ctx, m, sp.module_const(m, e.id), depth + 1)
            return L, dict(info, name=e.id)
        if isinstance(e, ast.Call) and isinstance(e.func, ast.Name):
            sym = self._lib_symbol(m, e.func.id)
            if sym is None:
                raise AnalysisError(f'{m.rel}: unrecognised validator expression `{pf.nsrc(e)[:80]}`')
            args, kwargs = self._call_args(m, e)
            if sym in self.classes:
                return self._instance(ctx, self.classes[sym], args, kwargs, depth)
            ctx.need(self.m.has_func(sym), f'{F_VLIB}: {sym} is neither a validator class nor a factory function')
            fn = self.m.func(sym)
            body = [s for s in fn.body if not (isinstance(s, ast.Expr) and isinstance(s.value, ast.Constant))]
            ctx.need(len(body) == 1 and isinstance(body[0], ast.Return) and isinstance(body[0].value, ast.Call)
                     and isinstance(body[0].value.func, ast.Name) and body[0].value.func.id in self.classes and not body[0].value.keywords,
                     f'{F_VLIB}::{sym}: expected `return <ValidatorClass>(...)`')
            ret: ast.Call = body[0].value  # type: ignore[assignment]
            bound = self._bind(f'{F_VLIB}::{sym}', fn, False, args, kwargs)
            cargs: List[_Val] = []
            for a in ret.args:
                if isinstance(a, ast.Name) and a.id in bound:
                    b = bound[a.id]
                    ctx.need(isinstance(b, _Val), f'{F_VLIB}::{sym}: *{a.id} passed as one argument')
                    cargs.append(b)
                elif isinstance(a, ast.Call) and pf.dotted(a.func) in ('set', 'list', 'tuple', 'frozenset') and len(a.args) == 1 \
                        and isinstance(a.args[0], ast.Name) and isinstance(bound.get(a.args[0].id), list):
                    cargs.append(bound[a.args[0].id])  # the *args collected into a collection
                else:
                    ctx.need(not any(isinstance(x, ast.Name) and x.id in bound for x in ast.walk(a)), f'{F_VLIB}::{sym}: unrecognised constructor argument `{pf.nsrc(a)}`')
                    cargs.append(_Val(self.m, a))
            return self._instance(ctx, self.classes[ret.func.id], cargs, {}, depth)  # type: ignore[union-attr]
        raise AnalysisError(f'{m.rel}: unrecognised validator expression `{pf.nsrc(e)[:80]}`')

    def _elements(self, v: Any) -> List[_Val]:
        if isinstance(v, list):
            return v
        return [_Val(mm, ee) for mm, ee in self._sequence(v.m, v.e)]

    def _instance(self, ctx: Ctx, cls: ast.ClassDef, args: List[Any], kwargs: Dict[str, _Val], depth: int) -> Tuple[R.Lang, dict]:
        if self._is_multiple(cls):
            attrs = self._construct(cls, args, kwargs)
            ctx.need('checkers' in attrs and not (isinstance(attrs['checkers'], tuple)), f'{F_VLIB}::MultipleValidator: checkers not passed through')
            parts = [self.language(ctx, v.m, v.e, depth + 1) for v in self._elements(attrs['checkers'])]
            if not parts:
                return R.everything(), {'anyof': []}
            L = parts[0][0]
            for x, _ in parts[1:]:
                L = L | x
            return L, {'anyof': [i for _, i in parts]}
        if self._is_nullable(cls):
            attrs = self._construct(cls, args, kwargs)
            ctx.need(isinstance(attrs.get('checker'), _Val), f'{F_VLIB}::NullableValidator: wrapped validator not passed through')
            L, info = self.language(ctx, attrs['checker'].m, attrs['checker'].e, depth + 1)
            return L, {'nullable': info}
        # generic: specialise validate and translate it
        # (list arguments were already flattened into [_Val]; _construct accepts them as positional values)
        attrs = self._construct(cls, args, kwargs)
        stmts, obj = self._specialised_validate(cls, attrs)
        fn = ast.FunctionDef(name=f'{cls.name}.validate', args=ast.arguments(posonlyargs=[], args=[ast.arg(arg='self'), ast.arg(arg='name'), ast.arg(arg=obj)],
                                                                          kwonlyargs=[], kw_defaults=[], defaults=[]),
                             body=stmts or [ast.Pass()], decorator_list=[], type_params=[])
        ast.fix_missing_locations(fn)
        L, tr = sp.function_language(self.m, fn, obj, 'no-raise')
        info: dict = {'class': cls.name, 'idioms': list(tr.idioms),
                      'tests': [(pf.nsrc(s.test) if isinstance(s, ast.If) else 'after ' + pf.nsrc(s))[:120] for s in stmts
                                if not (isinstance(s, ast.If) and isinstance(s.test, ast.Constant)) and not isinstance(s, (ast.Pass, ast.Expr))]}
        if tr.regex_uses:
            info['regex'] = [{k: u[k] for k in ('pattern', 'flags', 'mode')} for u in tr.regex_uses]
            self.mode = tr.regex_uses[-1]['mode']
        return L, info


def _describe(info: dict) -> str:
    """One-line description of what a validator tests (from ValidatorLib.language's info)."""
    if 'anyof' in info:
        return 'any of [' + '; '.join(_describe(i) for i in info['anyof']) + ']'
    if 'nullable' in info:
        return 'nullable ' + _describe(info['nullable'])
    tests = info.get('tests') or []
    return f"{info.get('class', 'validator')} raising when " + (' / '.join(tests) if tests else 'never')


def _dict_entry(ctx: Ctx, d: ast.AST, key: str, where: str) -> ast.AST:
    ctx.need(isinstance(d, ast.Dict), f'{where}: not a dict literal')
    for k, v in zip(d.keys, d.values):  # type: ignore[union-attr]
        kk = k
        if isinstance(kk, ast.Call) and pf.dotted(kk.func) == 'required' and len(kk.args) == 1:
            kk = kk.args[0]
        if isinstance(kk, ast.Constant) and kk.value == key:
            return v
    raise AnalysisError(f'{where}: key {key!r} not found')


def _keyed_dict(ctx: Ctx, m: pf.Module, e: ast.AST, where: str, depth: int = 3) -> ast.Dict:
    """The dict literal of a `keyed({...})` validator expression (through module-level names)."""
    if isinstance(e, ast.Name) and depth > 0 and e.id not in sp.imports_of(m):
        return _keyed_dict(ctx, m, sp.module_const(m, e.id), where, depth - 1)
    ctx.need(isinstance(e, ast.Call) and pf.dotted(e.func) == 'keyed' and len(e.args) == 1 and not e.keywords
             and sp.imports_of(m).get('keyed', '').endswith('validate.keyed'), f'{where} is not keyed({{...}})')
    d = e.args[0]  # type: ignore[union-attr]
    if isinstance(d, ast.Name) and d.id not in sp.imports_of(m):
        d = sp.module_const(m, d.id)
    ctx.need(isinstance(d, ast.Dict) and all(k is not None for k in d.keys), f'{where}: keyed() of something that is not a plain dict literal')
    return d  # type: ignore[return-value]


def _server_validators(ctx: Ctx, mv: pf.Module) -> Dict[str, ast.AST]:
    jv = _keyed_dict(ctx, mv, ast.Name(id='job_validator', ctx=ast.Load()), 'job_validator')
    res = _keyed_dict(ctx, mv, _dict_entry(ctx, jv, 'resources', 'job_validator'), "job_validator['resources']")
    return {k: _dict_entry(ctx, res, k, "job_validator['resources']") for k in RESOURCES}


def _check_validation_applied(ctx: Ctx, vlib: 'ValidatorLib', mv: pf.Module, server: Dict[str, R.Lang], client: Dict[str, R.Lang],
                              server_exprs: Dict[str, ast.AST]) -> None:
    """validate_and_clean_jobs applies job_validator to every job; the deprecated `pvc_size` key, which is moved into
    resources['storage'] before that, is accepted for exactly the strings the client accepts as a storage size."""
    fname = 'validate_and_clean_jobs'
    ctx.need(mv.has_func(fname), f'{F_VALIDATE}: {fname} vanished')
    # module-level helpers (a per-job helper extracted from the loop body) are analysed inlined; the deprecated-key handler stays a call
    mv_i, _il = inline.inline_functions(mv, fname, exclude=('handle_deprecated_job_keys',))
    fn = mv_i.func(fname)
    loops = [st for st in fn.body if isinstance(st, ast.For)]
    ctx.need(len(loops) == 1 and isinstance(loops[0].target, (ast.Name, ast.Tuple)), f'{F_VALIDATE}::{fname}: expected one loop over the jobs')
    loop = loops[0]
    tnames = [x.id for x in ast.walk(loop.target) if isinstance(x, ast.Name)]
    applied = None
    deprecated = None
    for i, st in enumerate(loop.body):
        if isinstance(st, ast.Expr) and isinstance(st.value, ast.Call):
            c = st.value
            # validate(name, obj): positionally or by keyword
            vargs = dict(zip(('name', 'obj'), c.args), **{k.arg: k.value for k in c.keywords if k.arg})
            if pf.dotted(c.func) == 'job_validator.validate' and set(vargs) == {'name', 'obj'} and len(c.args) + len(c.keywords) == 2 \
                    and isinstance(vargs['obj'], ast.Name) and vargs['obj'].id in tnames:
                applied = (i, c)
            if pf.dotted(c.func) == 'handle_deprecated_job_keys' and len(c.args) == 2 and isinstance(c.args[1], ast.Name) and c.args[1].id in tnames:
                deprecated = (i, c)
    anywhere = [c for c in pf.calls_in(fn) if pf.dotted(c.func) == 'job_validator.validate']
    cons = f'{F_VALIDATE}::{fname}::job_validator.validate(job) for every job'
    if applied is None:
        ctx.need(not anywhere, f'{F_VALIDATE}::{fname}: job_validator.validate is called in a shape that is not recognised')
        # "never applied" is evidence only when no function this one calls mentions job_validator itself
        def uses_whole(f: ast.AST) -> bool:
            # `job_validator` used as a whole (called, aliased, passed on) - not merely indexed for one of its entries (`job_validator['resources'][..]`)
            sub_bases = {id(x.value) for x in ast.walk(f) if isinstance(x, ast.Subscript)}
            return any(isinstance(x, ast.Name) and x.id == 'job_validator' and id(x) not in sub_bases for x in ast.walk(f))
        mentions = {q for q, f in mv.functions() if q != fname and uses_whole(f)}
        called = {pf.dotted(c.func) for c in pf.calls_in(fn, into_nested_defs=True)}
        ctx.need(not (mentions & called) and not uses_whole(fn),
                 f'{F_VALIDATE}::{fname}: job_validator is used through {sorted(mentions & called) or "a local alias"}; not recognised')
        ctx.bad('R1', cons, f'{fname} never applies job_validator to the jobs: the server accepts every resource string, the client does not',
                mv.path, fn.lineno)
        return
    ctx.ok('R1', cons, {'statement': pf.nsrc(applied[1])})
    # ---- pvc_size
    hname = 'handle_deprecated_job_keys'
    cons = f"{F_VALIDATE}::{hname}::job['pvc_size'] accepted == client storage strings"
    if not mv.has_func(hname) or deprecated is None:
        ctx.need(not any(isinstance(x, ast.Constant) and x.value == 'pvc_size' for x in ast.walk(mv.tree)),
                 f"{F_VALIDATE}: 'pvc_size' is handled somewhere, but not through {hname}(i, job) in {fname}")
        ctx.ok('R1', cons, 'the deprecated pvc_size key is not handled any more', nontrivial=False)
        return
    h = mv.func(hname)
    hp = [a.arg for a in h.args.args]
    ctx.need(len(hp) == 2, f'{F_VALIDATE}::{hname}: parameters changed')
    job = hp[1]
    pvc_src = f"{job}['pvc_size']"

    def is_pvc(e: ast.AST) -> bool:
        e = pf.resolve_expr(h, e) if isinstance(e, ast.Name) else e
        return pf.nsrc(e) == pvc_src

    # where does the value go?
    stores = [st for st in ast.walk(h) if isinstance(st, ast.Assign) and len(st.targets) == 1 and isinstance(st.targets[0], ast.Subscript)
              and isinstance(st.targets[0].slice, ast.Constant) and st.targets[0].slice.value in RESOURCES and is_pvc(st.value)]
    ctx.need(len(stores) == 1, f"{F_VALIDATE}::{hname}: expected exactly one `resources[<key>] = job['pvc_size']`, found {len(stores)}")
    key = stores[0].targets[0].slice.value  # type: ignore[union-attr]
    ctx.need(isinstance(stores[0].targets[0].value, ast.Name), f'{F_VALIDATE}::{hname}: pvc_size is stored somewhere that is not recognised')  # type: ignore[union-attr]
    # validators applied to the value inside the handler
    L: R.Lang = R.everything()
    used = []
    for c in pf.calls_in(h):
        if isinstance(c.func, ast.Attribute) and c.func.attr == 'validate' and len(c.args) == 2 and is_pvc(c.args[1]):
            v = c.func.value
            if isinstance(v, ast.Name) and v.id in pf.assignments(h):
                v = pf.resolve_expr(h, v)  # a local holding the validator
            # job_validator['resources']['storage'] -> the dict entry (KeyedValidator.__getitem__)
            path = []
            while isinstance(v, ast.Subscript) and isinstance(v.slice, ast.Constant) and isinstance(v.slice.value, str):
                path.append(v.slice.value)
                v = v.value
            if path:
                vlib.check_keyed_getitem(ctx)
                cur: ast.AST = v
                for k in reversed(path):
                    cur = _dict_entry(ctx, _keyed_dict(ctx, mv, cur, pf.nsrc(c.func.value)), k, pf.nsrc(c.func.value))
                v = cur
            Lv, _info = vlib.language(ctx, mv, v)
            L = L & Lv
            used.append(pf.nsrc(c.func.value))
    # afterwards the job validator sees the value under resources[key]
    ctx.need(deprecated[0] < applied[0], f'{F_VALIDATE}::{fname}: {hname} runs after job_validator.validate, which then sees the deprecated keys; not recognised')
    L = L & server[key]
    used.append(f"job_validator['resources'][{key!r}] afterwards")
    cmp = R.compare(L, client[key])
    ctx.check(cmp.equal, 'R1', cons,
              f"the deprecated key pvc_size (stored as resources[{key!r}], checked by {' and '.join(used)}) "
              + (f'admits {cmp.only_a!r}, which the client side rejects as a {key} size' if cmp.only_a is not None
                 else f'rejects {cmp.only_b!r}, which the client side accepts as a {key} size'), mv.path, h.lineno, detail={'validators': used, 'stored_as': key})


# --------------------------------------------------------------------------------------
# R3 / R4: abstract execution of the parse arithmetic
# --------------------------------------------------------------------------------------
#
# Nothing is evaluated on sample inputs.  The function body (helpers inlined / called symbolically) is executed ONCE PER UNIT CASE
# (the finite set of strings capture group 2 can hold, plus "no unit") over symbolic values:
#
#   x            the exact rational value of the number text (capture group 1: an unsigned decimal with any number of digits, R2)
#   Num          c*x + d held as a Fraction / Decimal / float  (+ a `lossy` note once the machine value can differ from c*x + d:
#                float() of the text, any float operand, Decimal arithmetic, which rounds to the context precision)
#   Rnd          k * mode(c*x + d) + j  with mode in floor / ceil / nearest  (int(), math.floor/ceil/trunc, round(), //)
#   IntU/FloatU  an integer known only by interval (len() of a piece of the text, int() of digits) / a binary float of unknown value
#   Txt          a piece of the matched text with a length interval (partition / slices of the number)
#   K            program constants and the enum member of the case (unit string, None), folded exactly
#
# A test that depends on x or on an unknown integer is not decided: the analysis declines.  What each `return` yields is compared,
# as a normal form, with the statement: floor(1000*x) mCPU (floor(x) with the m suffix), ceil(factor*x) bytes.  Because x ranges over a
# dense, unbounded set of decimals, two normal forms k*mode(c*x+d)+j denote the same function iff they are identical, so a
# differing normal form IS a wrong result for some accepted string; concrete strings only illustrate the report.


class _Raises(Exception):
    """The analysed code raises on this case."""


class K:
    """A program constant or the enum member of the case, folded exactly (None, bool, int, str, Fraction, float literal)."""
    __slots__ = ('v', 'dec')

    def __init__(self, v: Any, dec: bool = False):
        self.v = v
        self.dec = dec  # a decimal.Decimal constant (held as its exact Fraction)

    def __repr__(self) -> str:
        return f'K({self.v!r})'


class Txt:
    __slots__ = ('kind', 'lo', 'hi', 'src')

    def __init__(self, kind: str, lo: int, hi: Optional[int], src: str):
        self.kind, self.lo, self.hi, self.src = kind, lo, hi, src  # kind: input | number | digits


class MatchV:
    pass


class Num:
    __slots__ = ('c', 'd', 'rep', 'lossy')

    def __init__(self, c, d, rep: str, lossy: Optional[str] = None):
        self.c, self.d, self.rep, self.lossy = fractions.Fraction(c), fractions.Fraction(d), rep, lossy


class Rnd:
    __slots__ = ('mode', 'c', 'd', 'k', 'j', 'lossy')

    def __init__(self, mode: str, c, d, k: int = 1, j: int = 0, lossy: Optional[str] = None):
        self.mode, self.c, self.d, self.k, self.j, self.lossy = mode, fractions.Fraction(c), fractions.Fraction(d), k, j, lossy
        if self.k == 1 and self.j:  # mode(y) + j == mode(y + j) for an integer j
            self.d, self.j = self.d + self.j, 0


class IntU:
    __slots__ = ('lo', 'hi', 'what')

    def __init__(self, lo: Optional[int], hi: Optional[int], what: str):
        self.lo, self.hi, self.what = lo, hi, what


class FloatU:
    __slots__ = ('why',)

    def __init__(self, why: str):
        self.why = why


class Fn:
    __slots__ = ('name',)

    def __init__(self, name: str):
        self.name = name


class Tup:
    __slots__ = ('items',)

    def __init__(self, items: list):
        self.items = items


class DictV:
    __slots__ = ('items',)

    def __init__(self, items: dict):
        self.items = items


class Alt:
    """One of several values, depending on something the analysis does not track (emptiness of a piece of the text)."""
    __slots__ = ('alts',)

    def __init__(self, alts: list):
        flat: list = []
        for a in alts:
            flat += a.alts if isinstance(a, Alt) else [a]
        self.alts = flat


_FLOAT_MSG = 'the decimal text goes through binary float(), which keeps about 17 significant digits'
_DEC_MSG = 'Decimal arithmetic rounds every result to the context precision (28 significant digits by default)'
_BUILTINS = ('int', 'float', 'round', 'len', 'str', 'bool', 'abs', 'min', 'max')
_KNOWN_FUNCS = ('math.ceil', 'math.floor', 'math.trunc', 'fractions.Fraction', 'decimal.Decimal')


def _is_num_k(v: Any) -> bool:
    return isinstance(v, K) and isinstance(v.v, (int, fractions.Fraction, float)) and not isinstance(v.v, bool)


def _hull(vals: list) -> Any:
    """Join of alternatives: integers known by value / interval collapse to one interval; otherwise they stay alternatives."""
    if len(vals) == 1:
        return vals[0]
    if all(isinstance(v, IntU) or (isinstance(v, K) and isinstance(v.v, int) and not isinstance(v.v, bool)) for v in vals):
        los = [v.lo if isinstance(v, IntU) else v.v for v in vals]
        his = [v.hi if isinstance(v, IntU) else v.v for v in vals]
        return IntU(None if any(x is None for x in los) else min(los), None if any(x is None for x in his) else max(his),
                    ' | '.join(sorted({v.what if isinstance(v, IntU) else repr(v.v) for v in vals})))
    fl = [v for v in vals if isinstance(v, FloatU)]
    if fl and all(isinstance(v, (FloatU, IntU, Rnd)) or _is_num_k(v) for v in vals):
        return fl[0]
    return Alt(vals)


class SymExec:
    """Abstract execution of one parse function for one unit case."""

    def __init__(self, p: ParseFn, unit: Optional[str], matched: bool = True):
        self.p, self.m, self.unit, self.matched = p, p.m, unit, matched
        self.imports = sp.imports_of(p.m)
        self.consts: Dict[str, Any] = {}
        self.depth = 0
        try:
            self.groupindex = dict(re.compile(p.rd.pattern, p.rd.flags).groupindex)  # names of the groups of the extracted pattern
        except re.error as e:  # pragma: no cover - R2 parses the same pattern first
            raise AnalysisError(f'{p.name}: pattern does not compile: {e}')

    def fail(self, e: ast.AST, what: str = 'expression') -> AnalysisError:
        return AnalysisError(f'{self.p.name}: {what} not supported by the arithmetic analysis: `{pf.nsrc(e)[:80]}` (line {getattr(e, "lineno", 0)})')

    # ---- running
    def run(self) -> Tuple[Any, Optional[ast.Return]]:
        r = self.block(self.p.fn.body, {self.p.param: Txt('input', 0, None, self.p.param)}, self.p.fn)
        if r is None:
            return K(None), None
        return r

    def block(self, stmts: List[ast.stmt], env: Dict[str, Any], fn: pf.FuncDef) -> Optional[Tuple[Any, ast.Return]]:
        for st in stmts:
            r = self.stmt(st, env, fn)
            if r is not None:
                return r
        return None

    def assign(self, tgt: ast.AST, val: Any, env: Dict[str, Any], st: ast.AST) -> None:
        if isinstance(tgt, ast.Name):
            env[tgt.id] = val
            return
        if isinstance(tgt, (ast.Tuple, ast.List)) and isinstance(val, Tup) and len(tgt.elts) == len(val.items) and not any(isinstance(t, ast.Starred) for t in tgt.elts):
            for t, v in zip(tgt.elts, val.items):
                self.assign(t, v, env, st)
            return
        raise self.fail(st, 'assignment')

    def stmt(self, st: ast.stmt, env: Dict[str, Any], fn: pf.FuncDef) -> Optional[Tuple[Any, ast.Return]]:
        if isinstance(st, ast.Expr) and isinstance(st.value, ast.Constant) or isinstance(st, ast.Pass):
            return None
        if isinstance(st, ast.Assign):
            v = self.expr(st.value, env, fn)
            for t in st.targets:
                self.assign(t, v, env, st)
            return None
        if isinstance(st, ast.AnnAssign):
            if st.value is not None:
                self.assign(st.target, self.expr(st.value, env, fn), env, st)
            return None
        if isinstance(st, ast.AugAssign) and isinstance(st.target, ast.Name):
            if st.target.id not in env:
                raise _Raises(f'UnboundLocalError({st.target.id})')
            env[st.target.id] = self.arith(st.op, env[st.target.id], self.expr(st.value, env, fn), st)
            return None
        if isinstance(st, ast.If):
            t = self.truth(self.expr(st.test, env, fn))
            if t is None:
                raise AnalysisError(f'{self.p.name}: the test `{pf.nsrc(st.test)[:70]}` (line {st.lineno}) depends on the value of the number or on a quantity the analysis does not track')
            return self.block(st.body if t else st.orelse, env, fn)
        if isinstance(st, ast.Assert):
            t = self.truth(self.expr(st.test, env, fn))
            if t is False:
                raise _Raises('AssertionError')
            return None
        if isinstance(st, ast.Return):
            return (self.expr(st.value, env, fn) if st.value is not None else K(None)), st
        if isinstance(st, ast.Raise):
            raise _Raises(pf.nsrc(st)[:60])
        raise self.fail(st, 'statement')

    # ---- truth
    def truth(self, v: Any) -> Optional[bool]:
        if isinstance(v, K):
            return bool(v.v)
        if isinstance(v, (MatchV, Fn)):
            return True
        if isinstance(v, Txt):
            if v.lo >= 1:
                return True
            if v.hi == 0:
                return False
            return None
        if isinstance(v, Tup):
            return bool(v.items)
        if isinstance(v, DictV):
            return bool(v.items)
        if isinstance(v, IntU):
            if v.lo is not None and v.lo > 0 or v.hi is not None and v.hi < 0:
                return True
            if v.lo == 0 and v.hi == 0:
                return False
            return None
        if isinstance(v, Alt):
            ts = {self.truth(a) for a in v.alts}
            return ts.pop() if len(ts) == 1 else None
        return None

    # ---- names
    def name(self, e: ast.Name, env: Dict[str, Any], fn: pf.FuncDef) -> Any:
        if e.id in env:
            return env[e.id]
        if e.id in pf.assignments(fn):
            raise _Raises(f'UnboundLocalError({e.id})')
        origin = self.imports.get(e.id)
        if origin is not None:
            if origin in _KNOWN_FUNCS:
                return Fn(origin)
            raise self.fail(e, f'imported name ({origin})')
        if self.m.has_func(e.id):
            return Fn('user:' + e.id)
        try:
            ce = sp.module_const(self.m, e.id)
        except AnalysisError:
            if e.id in _BUILTINS:
                return Fn(e.id)
            raise
        if e.id not in self.consts:
            self.consts[e.id] = self.expr(ce, {}, self.p.fn)
        return self.consts[e.id]

    # ---- expressions
    def expr(self, e: ast.AST, env: Dict[str, Any], fn: pf.FuncDef) -> Any:
        if isinstance(e, ast.Constant):
            if e.value is None or isinstance(e.value, (bool, int, str, float)):
                return K(e.value)
            raise self.fail(e, 'literal')
        if isinstance(e, ast.Name):
            return self.name(e, env, fn)
        if isinstance(e, ast.Attribute):
            d = pf.dotted(e)
            if d is not None:
                head = d.split('.')[0]
                if head not in env and head not in pf.assignments(fn):
                    full = self.imports.get(head, head) + d[len(head):]
                    if full in _KNOWN_FUNCS:
                        return Fn(full)
            raise self.fail(e, 'attribute')
        if isinstance(e, ast.BinOp):
            return self.arith(e.op, self.expr(e.left, env, fn), self.expr(e.right, env, fn), e)
        if isinstance(e, ast.UnaryOp):
            v = self.expr(e.operand, env, fn)
            if isinstance(e.op, ast.Not):
                t = self.truth(v)
                if t is None:
                    raise self.fail(e, 'test on an untracked quantity')
                return K(not t)
            if isinstance(e.op, ast.UAdd):
                return v
            if isinstance(e.op, ast.USub):
                return self.neg(v, e)
            raise self.fail(e)
        if isinstance(e, ast.BoolOp):
            is_and = isinstance(e.op, ast.And)
            alts: list = []
            for i, x in enumerate(e.values):
                v = self.expr(x, env, fn)
                if i == len(e.values) - 1:
                    alts.append(v)
                    break
                t = self.truth(v)
                if t is None:
                    # truthy and falsy refinements of a piece of text: the empty string / a non-empty one
                    if isinstance(v, Txt) and v.lo == 0:
                        if is_and:
                            alts.append(K(''))
                            v = Txt(v.kind, 1, v.hi, v.src)
                        else:
                            alts.append(Txt(v.kind, 1, v.hi, v.src))
                        continue
                    raise self.fail(e, 'and/or on an untracked quantity')
                if t != is_and:
                    alts.append(v)
                    break
            return _hull(alts)
        if isinstance(e, ast.IfExp):
            t = self.truth(self.expr(e.test, env, fn))
            if t is None:
                raise AnalysisError(f'{self.p.name}: the test of `{pf.nsrc(e)[:70]}` depends on the value of the number or on a quantity the analysis does not track')
            return self.expr(e.body if t else e.orelse, env, fn)
        if isinstance(e, ast.Compare) and len(e.ops) == 1:
            return self.compare(e.ops[0], self.expr(e.left, env, fn), self.expr(e.comparators[0], env, fn), e)
        if isinstance(e, ast.Dict):
            out: dict = {}
            for k, v in zip(e.keys, e.values):
                if k is None:
                    dv = self.expr(v, env, fn)
                    if not isinstance(dv, DictV):
                        raise self.fail(e, 'dict spread')
                    out.update(dv.items)
                else:
                    kv = self.expr(k, env, fn)
                    if not isinstance(kv, K) or isinstance(kv.v, float):
                        raise self.fail(e, 'dict key')
                    out[kv.v] = self.expr(v, env, fn)
            return DictV(out)
        if isinstance(e, (ast.Tuple, ast.List)) and not any(isinstance(x, ast.Starred) for x in e.elts):
            return Tup([self.expr(x, env, fn) for x in e.elts])
        if isinstance(e, ast.JoinedStr):
            # an f-string over constants (the keys of a unit table built by a comprehension): folded exactly
            text = ''
            for v in e.values:
                if isinstance(v, ast.Constant) and isinstance(v.value, str):
                    text += v.value
                elif isinstance(v, ast.FormattedValue) and v.conversion == -1 and v.format_spec is None:
                    x = self.expr(v.value, env, fn)
                    if not (isinstance(x, K) and isinstance(x.v, (str, int)) and not isinstance(x.v, bool)):
                        raise self.fail(e, 'f-string over a value that is not a constant')
                    text += str(x.v)
                else:
                    raise self.fail(e, 'f-string with a conversion / format spec')
            return K(text)
        if isinstance(e, (ast.DictComp, ast.ListComp, ast.GeneratorExp)):
            return self.comprehension(e, env, fn)
        if isinstance(e, ast.Subscript):
            return self.subscript(self.expr(e.value, env, fn), e, env, fn)
        if isinstance(e, ast.Call):
            return self.call(e, env, fn)
        if isinstance(e, ast.NamedExpr) and isinstance(e.target, ast.Name):
            v = self.expr(e.value, env, fn)
            env[e.target.id] = v
            return v
        raise self.fail(e)

    # ---- constant collections (a unit table built by a comprehension / dict(...) / zip(...): closed expressions, folded exactly)
    _MAX_ITEMS = 4096

    def iterate(self, v: Any, e: ast.AST) -> list:
        if isinstance(v, Tup):
            return list(v.items)
        if isinstance(v, K) and isinstance(v.v, str):
            return [K(ch) for ch in v.v]
        if isinstance(v, DictV):
            return [K(k) for k in v.items]
        raise self.fail(e, 'iteration over something that is not a constant collection')

    def comprehension(self, e: ast.AST, env: Dict[str, Any], fn: pf.FuncDef) -> Any:
        out_d: dict = {}
        out_l: list = []
        count = [0]

        def rec(i: int, env2: Dict[str, Any]) -> None:
            if i == len(e.generators):  # type: ignore[attr-defined]
                count[0] += 1
                if count[0] > self._MAX_ITEMS:
                    raise self.fail(e, 'comprehension with too many elements')
                if isinstance(e, ast.DictComp):
                    kv = self.expr(e.key, env2, fn)
                    if not isinstance(kv, K) or isinstance(kv.v, float):
                        raise self.fail(e, 'dict key')
                    out_d[kv.v] = self.expr(e.value, env2, fn)
                else:
                    out_l.append(self.expr(e.elt, env2, fn))  # type: ignore[attr-defined]
                return
            g = e.generators[i]  # type: ignore[attr-defined]
            if g.is_async:
                raise self.fail(e, 'async comprehension')
            for item in self.iterate(self.expr(g.iter, env2, fn), e):
                env3 = dict(env2)
                self.assign(g.target, item, env3, e)
                ok = True
                for c in g.ifs:
                    t = self.truth(self.expr(c, env3, fn))
                    if t is None:
                        raise self.fail(c, 'comprehension condition on an untracked quantity')
                    ok = ok and t
                if ok:
                    rec(i + 1, env3)
        rec(0, dict(env))
        return DictV(out_d) if isinstance(e, ast.DictComp) else Tup(out_l)

    def const_builtin(self, name: str, e: ast.Call, env: Dict[str, Any], fn: pf.FuncDef) -> Any:
        args = [self.expr(a, env, fn) for a in e.args]
        if any(k.arg is None for k in e.keywords):
            raise self.fail(e, '** arguments')
        kw = {k.arg: self.expr(k.value, env, fn) for k in e.keywords}

        def ival(v: Any) -> int:
            if not (isinstance(v, K) and isinstance(v.v, int) and not isinstance(v.v, bool)):
                raise self.fail(e, 'argument that is not an integer constant')
            return v.v
        if name == 'enumerate' and len(args) in (1, 2) and set(kw) <= {'start'} and not (len(args) == 2 and kw):
            start = ival(args[1]) if len(args) == 2 else (ival(kw['start']) if kw else 0)
            return Tup([Tup([K(start + i), x]) for i, x in enumerate(self.iterate(args[0], e))])
        if name == 'zip' and args and not kw:
            return Tup([Tup(list(t)) for t in zip(*[self.iterate(a, e) for a in args])])
        if name == 'range' and 1 <= len(args) <= 3 and not kw:
            r = range(*[ival(a) for a in args])
            if len(r) > self._MAX_ITEMS:
                raise self.fail(e, 'range too long')
            return Tup([K(i) for i in r])
        if name in ('tuple', 'list') and len(args) <= 1 and not kw:
            return Tup(self.iterate(args[0], e) if args else [])
        if name == 'dict' and len(args) <= 1:
            out: dict = {}
            if args:
                if isinstance(args[0], DictV):
                    out.update(args[0].items)
                else:
                    for pair in self.iterate(args[0], e):
                        if not (isinstance(pair, Tup) and len(pair.items) == 2 and isinstance(pair.items[0], K) and not isinstance(pair.items[0].v, float)):
                            raise self.fail(e, 'dict() of something that is not a sequence of constant pairs')
                        out[pair.items[0].v] = pair.items[1]
            out.update(kw)
            return DictV(out)
        raise self.fail(e, 'call')

    def compare(self, op: ast.cmpop, a: Any, b: Any, e: ast.AST) -> Any:
        if isinstance(op, (ast.Is, ast.IsNot)) and isinstance(b, K) and b.v is None:
            if isinstance(a, K):
                return K((a.v is None) == isinstance(op, ast.Is))
            if isinstance(a, (MatchV, Txt, Num, Rnd, IntU, FloatU, Tup, DictV, Fn)):
                return K(isinstance(op, ast.IsNot))
        if isinstance(a, K) and isinstance(b, K):
            try:
                table = {ast.Eq: lambda: a.v == b.v, ast.NotEq: lambda: a.v != b.v, ast.Lt: lambda: a.v < b.v, ast.LtE: lambda: a.v <= b.v,
                         ast.Gt: lambda: a.v > b.v, ast.GtE: lambda: a.v >= b.v, ast.Is: lambda: a.v is b.v, ast.IsNot: lambda: a.v is not b.v,
                         ast.In: lambda: a.v in b.v, ast.NotIn: lambda: a.v not in b.v}
                if type(op) in table:
                    return K(table[type(op)]())
            except TypeError as ex:
                raise _Raises(f'TypeError: {ex}')
        if isinstance(op, (ast.In, ast.NotIn)) and isinstance(a, K) and isinstance(b, (DictV, Tup)):
            if isinstance(b, DictV):
                inside = a.v in b.items
            else:
                if not all(isinstance(x, K) for x in b.items):
                    raise self.fail(e, 'membership')
                inside = any(x.v == a.v and type(x.v) is type(a.v) for x in b.items)
            return K(inside == isinstance(op, ast.In))
        if isinstance(op, (ast.Eq, ast.NotEq)) and isinstance(a, K) != isinstance(b, K) and isinstance(a if isinstance(a, K) else b, K):
            k, o = (a, b) if isinstance(a, K) else (b, a)
            if k.v is None and isinstance(o, (MatchV, Txt, Num, Rnd, IntU, FloatU, Tup, DictV)):
                return K(isinstance(op, ast.NotEq))
            if isinstance(k.v, str) and isinstance(o, Txt):
                # a piece of text compared with a literal: decided only by the lengths
                if o.hi is not None and len(k.v) > o.hi or len(k.v) < o.lo:
                    return K(isinstance(op, ast.NotEq))
        if isinstance(a, IntU) and _is_num_k(b) or isinstance(b, IntU) and _is_num_k(a):
            iv, kv, flip = (a, b.v, False) if isinstance(a, IntU) else (b, a.v, True)
            lo, hi = iv.lo, iv.hi
            opn = type(op)
            if flip:
                opn = {ast.Lt: ast.Gt, ast.Gt: ast.Lt, ast.LtE: ast.GtE, ast.GtE: ast.LtE}.get(opn, opn)
            def decided(always: bool, never: bool) -> Optional[Any]:
                return K(True) if always else (K(False) if never else None)
            r = None
            if opn is ast.Lt:
                r = decided(hi is not None and hi < kv, lo is not None and lo >= kv)
            elif opn is ast.LtE:
                r = decided(hi is not None and hi <= kv, lo is not None and lo > kv)
            elif opn is ast.Gt:
                r = decided(lo is not None and lo > kv, hi is not None and hi <= kv)
            elif opn is ast.GtE:
                r = decided(lo is not None and lo >= kv, hi is not None and hi < kv)
            elif opn in (ast.Eq, ast.NotEq):
                out = (hi is not None and hi < kv) or (lo is not None and lo > kv)
                r = K(opn is ast.NotEq) if out else (K(opn is ast.Eq) if lo == hi == kv else None)
            if r is not None:
                return r
        raise AnalysisError(f'{self.p.name}: the comparison `{pf.nsrc(e)[:70]}` depends on the value of the number or on a quantity the analysis does not track')

    def subscript(self, base: Any, e: ast.Subscript, env: Dict[str, Any], fn: pf.FuncDef) -> Any:
        if isinstance(e.slice, ast.Slice):
            if not isinstance(base, (Txt, K)) or e.slice.step is not None:
                raise self.fail(e, 'slice')
            lo = self.expr(e.slice.lower, env, fn) if e.slice.lower is not None else K(None)
            hi = self.expr(e.slice.upper, env, fn) if e.slice.upper is not None else K(None)
            if not (isinstance(lo, K) and isinstance(hi, K) and all(x.v is None or (isinstance(x.v, int) and not isinstance(x.v, bool)) for x in (lo, hi))):
                raise self.fail(e, 'slice bounds')
            if isinstance(base, K):
                if not isinstance(base.v, str):
                    raise self.fail(e, 'slice')
                return K(base.v[lo.v:hi.v])
            if base.kind != 'digits' and not (base.kind == 'number' and False):
                raise self.fail(e, 'slice of the matched text')
            a, b = lo.v, hi.v
            if (a is None or a >= 0) and (b is None or b >= 0):
                a0 = a or 0
                n_hi = None if (b is None and base.hi is None) else max(0, (min(b, base.hi) if b is not None and base.hi is not None else (b if b is not None else base.hi)) - a0)
                n_lo = max(0, (min(b, base.lo) if b is not None else base.lo) - a0)
                return Txt('digits', n_lo, n_hi, pf.nsrc(e))
            return Txt('digits', 0, base.hi, pf.nsrc(e))
        key = self.expr(e.slice, env, fn)
        if isinstance(base, MatchV):
            return self.group(key, e)
        if not isinstance(key, K):
            raise self.fail(e, 'subscript')
        if isinstance(base, DictV):
            if isinstance(key.v, float) or key.v not in base.items:
                raise _Raises(f'KeyError({key.v!r})')
            return base.items[key.v]
        if isinstance(base, Tup) and isinstance(key.v, int) and not isinstance(key.v, bool):
            if not -len(base.items) <= key.v < len(base.items):
                raise _Raises(f'IndexError({key.v})')
            return base.items[key.v]
        if isinstance(base, K) and isinstance(base.v, str) and isinstance(key.v, int) and not isinstance(key.v, bool):
            if not -len(base.v) <= key.v < len(base.v):
                raise _Raises(f'IndexError({key.v})')
            return K(base.v[key.v])
        raise self.fail(e, 'subscript')

    def group(self, key: Any, e: ast.AST) -> Any:
        if not isinstance(key, K):
            raise self.fail(e, 'group index')
        g = self.groupindex.get(key.v, key.v) if isinstance(key.v, str) else key.v
        if isinstance(g, bool) or not isinstance(g, int):
            raise self.fail(e, 'group index')
        if g == 0:
            return Txt('input', 1, None, pf.nsrc(e))
        if g == 1:
            return Txt('number', 1, None, pf.nsrc(e))
        if g == 2:
            return K(self.unit)
        raise self.fail(e, 'capture group other than 1 (number) and 2 (unit)')

    # ---- arithmetic
    def neg(self, v: Any, e: ast.AST) -> Any:
        if _is_num_k(v):
            return K(-v.v, v.dec)
        if isinstance(v, Num):
            return Num(-v.c, -v.d, v.rep, v.lossy)
        if isinstance(v, Rnd):
            mode = {'floor': 'ceil', 'ceil': 'floor', 'nearest': 'nearest'}[v.mode]
            return Rnd(mode, -v.c, -v.d, v.k, -v.j, v.lossy)
        if isinstance(v, IntU):
            return IntU(None if v.hi is None else -v.hi, None if v.lo is None else -v.lo, f'-({v.what})')
        if isinstance(v, FloatU):
            return v
        if isinstance(v, Alt):
            return _hull([self.neg(a, e) for a in v.alts])
        raise self.fail(e, 'negation')

    def arith(self, op: ast.operator, a: Any, b: Any, e: ast.AST) -> Any:
        if isinstance(a, Alt) or isinstance(b, Alt):
            return _hull([self.arith(op, x, y, e) for x in (a.alts if isinstance(a, Alt) else [a]) for y in (b.alts if isinstance(b, Alt) else [b])])
        if isinstance(a, DictV) and isinstance(b, DictV) and isinstance(op, ast.BitOr):
            return DictV({**a.items, **b.items})
        ka, kb = _is_num_k(a), _is_num_k(b)
        # constants: folded exactly (Python semantics: int / int is a float)
        if ka and kb:
            if a.dec != b.dec and (isinstance(a.v, (float, fractions.Fraction)) and not a.dec or isinstance(b.v, (float, fractions.Fraction)) and not b.dec):
                raise self.fail(e, 'Decimal mixed with float/Fraction')
            try:
                if isinstance(op, ast.Pow):
                    if not isinstance(b.v, int) or abs(b.v) > 64 or isinstance(a.v, float):
                        raise self.fail(e, 'exponent')
                    return K(a.v ** b.v if b.v >= 0 or not isinstance(a.v, int) else float(a.v) ** b.v, a.dec)
                table = {ast.Add: lambda x, y: x + y, ast.Sub: lambda x, y: x - y, ast.Mult: lambda x, y: x * y, ast.Div: lambda x, y: x / y,
                         ast.FloorDiv: lambda x, y: x // y, ast.Mod: lambda x, y: x % y}
                if type(op) not in table:
                    raise self.fail(e, 'operator')
                return K(table[type(op)](a.v, b.v), a.dec or b.dec)
            except ZeroDivisionError:
                raise _Raises('ZeroDivisionError')
        if isinstance(a, K) and isinstance(a.v, str) or isinstance(b, K) and isinstance(b.v, str) or isinstance(a, Txt) or isinstance(b, Txt):
            if isinstance(op, ast.Add) and isinstance(a, K) and isinstance(b, K) and isinstance(a.v, str) and isinstance(b.v, str):
                return K(a.v + b.v)
            raise self.fail(e, 'string arithmetic')
        if isinstance(a, FloatU) or isinstance(b, FloatU):
            fl = a if isinstance(a, FloatU) else b
            other = b if fl is a else a
            if isinstance(other, (FloatU, IntU, Rnd, Num)) or _is_num_k(other):
                return fl
            raise self.fail(e)
        # c*x + d with a constant
        if isinstance(a, Num) and kb or ka and isinstance(b, Num):
            n, k, left = (a, b, True) if isinstance(a, Num) else (b, a, False)
            kv = k.v
            rep, lossy = n.rep, n.lossy
            if k.dec and rep == 'fraction':
                raise _Raises('TypeError: Fraction and Decimal do not mix')
            if isinstance(kv, float):
                if rep == 'decimal':
                    raise _Raises('TypeError: Decimal and float do not mix')
                rep, lossy = 'float', lossy or f'`{pf.nsrc(e)[:50]}` is computed in binary floating point'
                kv = fractions.Fraction(kv)
            elif isinstance(kv, fractions.Fraction) and not k.dec and rep == 'decimal':
                raise _Raises('TypeError: Decimal and Fraction do not mix')
            if rep == 'decimal':
                lossy = lossy or _DEC_MSG
            if isinstance(op, ast.Add):
                return Num(n.c, n.d + kv, rep, lossy)
            if isinstance(op, ast.Sub):
                return Num(n.c, n.d - kv, rep, lossy) if left else Num(-n.c, kv - n.d, rep, lossy)
            if isinstance(op, ast.Mult):
                return Num(n.c * kv, n.d * kv, rep, lossy)
            if isinstance(op, ast.Div) and left:
                if kv == 0:
                    raise _Raises('ZeroDivisionError')
                return Num(n.c / kv, n.d / kv, rep, lossy)
            if isinstance(op, ast.FloorDiv) and left:
                if kv == 0:
                    raise _Raises('ZeroDivisionError')
                return Rnd('floor', n.c / kv, n.d / kv, 1, 0, lossy)
            if isinstance(op, ast.Pow) and left and kv == 1:
                return n
            raise self.fail(e, 'non-linear use of the number')
        if isinstance(a, Num) and isinstance(b, Num) and isinstance(op, (ast.Add, ast.Sub)):
            if a.rep != b.rep and 'float' not in (a.rep, b.rep):
                raise _Raises('TypeError: Fraction and Decimal do not mix')
            s = 1 if isinstance(op, ast.Add) else -1
            rep = 'float' if 'float' in (a.rep, b.rep) else a.rep
            return Num(a.c + s * b.c, a.d + s * b.d, rep, a.lossy or b.lossy or (_DEC_MSG if rep == 'decimal' else None))
        # k * mode(c*x + d) + j with an integer constant
        if isinstance(a, Rnd) and kb or ka and isinstance(b, Rnd):
            r, k, left = (a, b, True) if isinstance(a, Rnd) else (b, a, False)
            if isinstance(k.v, float) or isinstance(op, ast.Div):
                return FloatU(f'`{pf.nsrc(e)[:60]}` is computed in binary floating point')
            if isinstance(k.v, int):
                if isinstance(op, ast.Add):
                    return Rnd(r.mode, r.c, r.d, r.k, r.j + k.v, r.lossy)
                if isinstance(op, ast.Sub):
                    return Rnd(r.mode, r.c, r.d, r.k, r.j - k.v, r.lossy) if left else self.arith(ast.Add(), self.neg(r, e), k, e)
                if isinstance(op, ast.Mult):
                    if k.v == 0:
                        return K(0)
                    if k.v < 0:
                        nr = self.neg(r, e)
                        return Rnd(nr.mode, nr.c, nr.d, nr.k * -k.v, nr.j * -k.v, nr.lossy)
                    return Rnd(r.mode, r.c, r.d, r.k * k.v, r.j * k.v, r.lossy)
                if isinstance(op, ast.FloorDiv) and left and k.v == 1:
                    return r
            raise self.fail(e, 'arithmetic on a rounded value')
        # integers known by interval
        def as_iv(v: Any) -> Optional[Tuple[Optional[int], Optional[int], str]]:
            if isinstance(v, IntU):
                return v.lo, v.hi, v.what
            if isinstance(v, K) and isinstance(v.v, int) and not isinstance(v.v, bool):
                return v.v, v.v, repr(v.v)
            return None
        ia, ib = as_iv(a), as_iv(b)
        if ia is not None and ib is not None:
            what = f'{ia[2]} {type(op).__name__} {ib[2]}'
            if isinstance(op, ast.Div):
                return FloatU(f'`{pf.nsrc(e)[:60]}` is a true division of integers, i.e. a binary float')
            if isinstance(op, ast.Add):
                return IntU(None if None in (ia[0], ib[0]) else ia[0] + ib[0], None if None in (ia[1], ib[1]) else ia[1] + ib[1], pf.nsrc(e)[:40])
            if isinstance(op, ast.Sub):
                return IntU(None if None in (ia[0], ib[1]) else ia[0] - ib[1], None if None in (ia[1], ib[0]) else ia[1] - ib[0], pf.nsrc(e)[:40])
            if isinstance(op, ast.Mult):
                if ia[0] is not None and ia[0] >= 0 and ib[0] is not None and ib[0] >= 0:
                    return IntU(ia[0] * ib[0], None if None in (ia[1], ib[1]) else ia[1] * ib[1], pf.nsrc(e)[:40])
                return IntU(None, None, pf.nsrc(e)[:40])
            if isinstance(op, ast.Pow) and ia[0] is not None and ia[0] == ia[1] and ia[0] >= 2:
                if ib[0] is None or ib[0] < 0:
                    lim = 'is unbounded' if ib[0] is None else f'can be {ib[0]}'
                    return FloatU(f'`{pf.nsrc(e)[:60]}` has a negative exponent for accepted strings (the exponent {ib[2]} {lim} below 0), and int ** negative int is a binary float')
                return IntU(ia[0] ** min(ib[0], 64), None if ib[1] is None or ib[1] > 64 else ia[0] ** ib[1], pf.nsrc(e)[:40])
            if isinstance(op, (ast.FloorDiv, ast.Mod)):
                return IntU(None, None, what)
            raise self.fail(e, 'operator')
        if isinstance(a, (IntU, Rnd)) and isinstance(b, (IntU, Rnd)) and isinstance(op, (ast.Add, ast.Sub, ast.Mult)):
            return IntU(None, None, pf.nsrc(e)[:40])
        raise self.fail(e, 'arithmetic')

    # ---- calls
    def rounding(self, mode: str, v: Any, e: ast.AST) -> Any:
        """int / math.trunc (mode 'trunc'), math.floor, math.ceil, round of a value."""
        if isinstance(v, Alt):
            return _hull([self.rounding(mode, a, e) for a in v.alts])
        if _is_num_k(v):
            if v.dec and mode == 'nearest':
                raise self.fail(e, 'round() of a Decimal constant')
            f = {'trunc': math.trunc, 'floor': math.floor, 'ceil': math.ceil, 'nearest': round}[mode]
            return K(f(v.v))
        if isinstance(v, (Rnd, IntU)):
            return v
        if isinstance(v, FloatU):
            return IntU(None, None, f'{mode} of a binary float')
        if isinstance(v, Num):
            if mode == 'trunc':
                if v.c >= 0 and v.d >= 0:
                    mode = 'floor'
                elif v.c <= 0 and v.d <= 0:
                    mode = 'ceil'
                else:
                    raise self.fail(e, 'truncation of a value of unknown sign')
            return Rnd(mode, v.c, v.d, 1, 0, v.lossy)
        raise self.fail(e, 'rounding')

    def call(self, e: ast.Call, env: Dict[str, Any], fn: pf.FuncDef) -> Any:
        if e is self.p.call:
            return MatchV() if self.matched else K(None)
        if isinstance(e.func, ast.Name) and e.func.id in ('enumerate', 'zip', 'range', 'tuple', 'list', 'dict') and e.func.id not in env \
                and e.func.id not in pf.assignments(fn) and e.func.id not in self.imports and not self.m.has_func(e.func.id) and not sp.module_bindings(self.m, e.func.id):
            return self.const_builtin(e.func.id, e, env, fn)
        if e.keywords and not (isinstance(e.func, ast.Name) and self.m.has_func(e.func.id)):
            raise self.fail(e, 'keyword arguments')
        if any(isinstance(a, ast.Starred) for a in e.args):
            raise self.fail(e, 'star arguments')
        f = e.func
        # methods
        if isinstance(f, ast.Attribute) and not (pf.dotted(f) and pf.dotted(f).split('.')[0] not in env and self.imports.get(pf.dotted(f).split('.')[0])):
            recv = self.expr(f.value, env, fn)
            args = [self.expr(a, env, fn) for a in e.args]
            return self.method(recv, f.attr, args, e)
        callee = self.expr(f, env, fn)
        if not isinstance(callee, Fn):
            raise self.fail(e, 'call')
        if callee.name.startswith('user:'):
            return self.user_call(callee.name[5:], e, env, fn)
        args = [self.expr(a, env, fn) for a in e.args]
        return self.builtin(callee.name, args, e)

    def user_call(self, name: str, e: ast.Call, env: Dict[str, Any], fn: pf.FuncDef) -> Any:
        h = self.m.func(name)
        if self.depth >= 3 or h.decorator_list or isinstance(h, ast.AsyncFunctionDef) or h.args.vararg or h.args.kwarg or h.args.posonlyargs \
                or any(isinstance(x, (ast.Yield, ast.YieldFrom)) for x in pf.walk_shallow(h)):
            raise self.fail(e, 'call of a helper of this shape')
        if any(sp.regex_call(self.m, h, c) is not None for c in pf.calls_in(h)):
            raise self.fail(e, 'helper that matches a regex itself')
        params = [a.arg for a in h.args.args]
        kwonly = [a.arg for a in h.args.kwonlyargs]
        if len(e.args) > len(params):
            raise _Raises('TypeError: too many arguments')
        new: Dict[str, Any] = {}
        for p_, a in zip(params, e.args):
            new[p_] = self.expr(a, env, fn)
        for k in e.keywords:
            if k.arg is None or k.arg in new or k.arg not in params + kwonly:
                raise self.fail(e, 'keyword arguments')
            new[k.arg] = self.expr(k.value, env, fn)
        defaults = dict(zip(params[len(params) - len(h.args.defaults):], h.args.defaults))
        defaults.update({p_: d for p_, d in zip(kwonly, h.args.kw_defaults) if d is not None})
        for p_ in params + kwonly:
            if p_ not in new:
                if p_ not in defaults:
                    raise _Raises(f'TypeError: missing argument {p_}')
                new[p_] = self.expr(defaults[p_], {}, h)
        self.depth += 1
        try:
            r = self.block(h.body, new, h)
        finally:
            self.depth -= 1
        return r[0] if r is not None else K(None)

    def builtin(self, name: str, args: list, e: ast.Call) -> Any:
        if any(isinstance(a, Alt) for a in args) and len(args) == 1:
            return _hull([self.builtin(name, [a], e) for a in args[0].alts])
        a0 = args[0] if args else None
        if name in ('int', 'math.trunc') and len(args) == 1:
            if isinstance(a0, K) and isinstance(a0.v, str):
                try:
                    return K(int(a0.v))
                except ValueError as ex:
                    raise _Raises(f'ValueError: {ex}')
            if isinstance(a0, Txt):
                if a0.kind == 'digits':
                    if a0.lo == 0:
                        raise _Raises(f"ValueError: int('') - `{a0.src}` is empty for some accepted strings")
                    return IntU(0, None, f'int({a0.src})')
                raise _Raises(f"ValueError: int() of `{a0.src}`, which contains '.' / a sign for accepted strings such as '1.5'")
            return self.rounding('trunc', a0, e)
        if name in ('math.floor', 'math.ceil') and len(args) == 1:
            return self.rounding(name[5:], a0, e)
        if name == 'round' and len(args) == 1:
            return self.rounding('nearest', a0, e)
        if name == 'float' and len(args) == 1:
            if isinstance(a0, Txt) and a0.kind == 'number':
                return Num(1, 0, 'float', _FLOAT_MSG)
            if isinstance(a0, Num):
                return Num(a0.c, a0.d, 'float', a0.lossy or f'`{pf.nsrc(e)[:50]}` converts the exact value to a binary float')
            if _is_num_k(a0) or isinstance(a0, K) and isinstance(a0.v, str):
                try:
                    return K(float(a0.v))
                except (ValueError, OverflowError) as ex:
                    raise _Raises(f'{type(ex).__name__}: {ex}')
            if isinstance(a0, (Rnd, IntU, FloatU)):
                return FloatU(f'`{pf.nsrc(e)[:50]}` is a binary float')
        if name == 'fractions.Fraction':
            if len(args) == 1:
                if isinstance(a0, Txt) and a0.kind == 'number':
                    return Num(1, 0, 'fraction')
                if isinstance(a0, Num):
                    return Num(a0.c, a0.d, 'fraction', a0.lossy)
                if isinstance(a0, K) and isinstance(a0.v, (int, str, float, fractions.Fraction)) and not isinstance(a0.v, bool):
                    try:
                        return K(fractions.Fraction(a0.v))
                    except (ValueError, ZeroDivisionError) as ex:
                        raise _Raises(f'{type(ex).__name__}: {ex}')
                if isinstance(a0, Rnd):
                    return a0
            if len(args) == 2 and all(isinstance(a, K) and isinstance(a.v, int) and not isinstance(a.v, bool) for a in args):
                if args[1].v == 0:
                    raise _Raises('ZeroDivisionError')
                return K(fractions.Fraction(args[0].v, args[1].v))
        if name == 'decimal.Decimal' and len(args) == 1:
            if isinstance(a0, Txt) and a0.kind == 'number':
                return Num(1, 0, 'decimal')
            if isinstance(a0, Num) and a0.rep in ('float', 'decimal'):
                return Num(a0.c, a0.d, 'decimal', a0.lossy)
            if isinstance(a0, K) and isinstance(a0.v, (int, str)) and not isinstance(a0.v, bool):
                try:
                    return K(fractions.Fraction(decimal.Decimal(a0.v)), dec=True)
                except (decimal.InvalidOperation, ValueError) as ex:
                    raise _Raises(f'{type(ex).__name__}: {ex}')
        if name == 'len' and len(args) == 1:
            if isinstance(a0, Txt):
                return IntU(a0.lo, a0.hi, f'len({a0.src})') if a0.lo != a0.hi else K(a0.lo)
            if isinstance(a0, K) and isinstance(a0.v, str):
                return K(len(a0.v))
            if isinstance(a0, Tup):
                return K(len(a0.items))
            if isinstance(a0, DictV):
                return K(len(a0.items))
        if name == 'bool' and len(args) == 1:
            t = self.truth(a0)
            if t is not None:
                return K(t)
        if name == 'str' and len(args) == 1 and isinstance(a0, K) and isinstance(a0.v, (int, str)) and not isinstance(a0.v, bool):
            return K(str(a0.v))
        if name == 'abs' and len(args) == 1:
            if _is_num_k(a0):
                return K(abs(a0.v), a0.dec)
            if isinstance(a0, Num) and a0.c >= 0 and a0.d >= 0:
                return a0
        if name in ('min', 'max') and len(args) >= 2 and all(_is_num_k(a) for a in args):
            return K((min if name == 'min' else max)(a.v for a in args))
        raise self.fail(e, 'call')

    def method(self, recv: Any, attr: str, args: list, e: ast.Call) -> Any:
        if isinstance(recv, MatchV):
            if attr == 'group':
                if not args:
                    return self.group(K(0), e)
                gs = [self.group(a, e) for a in args]
                return gs[0] if len(gs) == 1 else Tup(gs)
            if attr == 'groups' and len(args) <= 1:
                u = K(self.unit)
                if self.unit is None and args:
                    u = args[0]
                n_groups = re.compile(self.p.rd.pattern, self.p.rd.flags).groups
                if n_groups != 2:
                    raise self.fail(e, f'groups() of a pattern with {n_groups} groups')
                return Tup([Txt('number', 1, None, 'group 1'), u])
            raise self.fail(e, 'match method')
        if isinstance(recv, Txt):
            if attr in ('partition', 'rpartition') and len(args) == 1 and isinstance(args[0], K) and args[0].v == '.' and recv.kind == 'number':
                return Tup([Txt('digits', 0, None, f'{recv.src}.{attr}(".")[0]'), _hull([K('.'), K('')]), Txt('digits', 0, None, f'{recv.src}.{attr}(".")[2]')])
            raise self.fail(e, 'string method on the matched text')
        if isinstance(recv, K) and isinstance(recv.v, str) and attr in ('lower', 'upper', 'strip', 'lstrip', 'rstrip', 'casefold', 'title', 'capitalize', 'rstrip', 'removesuffix', 'removeprefix',
                                                                    'startswith', 'endswith', 'replace') and all(isinstance(a, K) and isinstance(a.v, str) for a in args):
            try:
                return K(getattr(recv.v, attr)(*[a.v for a in args]))
            except TypeError as ex:
                raise _Raises(f'TypeError: {ex}')
        if isinstance(recv, K) and recv.v is None:
            raise _Raises(f"AttributeError: 'NoneType' object has no attribute {attr!r}")
        if isinstance(recv, DictV) and attr == 'get' and 1 <= len(args) <= 2 and isinstance(args[0], K) and not isinstance(args[0].v, float):
            return recv.items.get(args[0].v, args[1] if len(args) == 2 else K(None))
        if isinstance(recv, DictV) and attr in ('items', 'keys', 'values') and not args:
            return Tup([Tup([K(k), v]) if attr == 'items' else (K(k) if attr == 'keys' else v) for k, v in recv.items.items()])
        if isinstance(recv, Num) and attr in ('__floor__', '__ceil__', '__trunc__') and not args:
            return self.rounding(attr.strip('_'), recv, e)
        if isinstance(recv, Num) and attr == 'limit_denominator':
            raise self.fail(e, 'limit_denominator (an approximation)')
        raise self.fail(e, 'method call')


def _spec(resource: str, unit: Optional[str]) -> Tuple[str, fractions.Fraction]:
    if resource == 'cpu':
        return 'floor', fractions.Fraction(1000) * (SPEC_CPU_UNITS[unit] if unit is not None else 1)
    return 'ceil', fractions.Fraction(SPEC_UNITS[unit] if unit is not None else 1)


def _nf_value(mode: str, c, d, k: int, j: int, x: fractions.Fraction) -> int:
    y = c * x + d
    r = {'floor': math.floor, 'ceil': math.ceil, 'nearest': round}[mode](y)
    return k * r + j


def _nf_text(r: Rnd) -> str:
    def q(v) -> str:
        return str(v.numerator) if v.denominator == 1 else f'{v.numerator}/{v.denominator}'
    inner = ('value' if r.c == 1 else f'{q(r.c)}*value') if r.c != 0 else ''
    if r.d != 0 or not inner:
        inner = (inner + (' + ' if r.d >= 0 else ' - ') + q(abs(r.d))) if inner else q(r.d)
    s = f'{"round" if r.mode == "nearest" else r.mode}({inner})'
    if r.k != 1:
        s = f'{r.k}*{s}'
    if r.j:
        s += f' {"+" if r.j > 0 else "-"} {abs(r.j)}'
    return s


_WITNESS_NUMBERS = ('1', '0.5', '0.1', '1.5', '0.25', '0.001', '0.0005', '0.0001', '1.0005', '0.3', '3', '0.0000000001', '1.0000000001', '0.00000000000000000001')


def _witness(r: Rnd, mode: str, c: fractions.Fraction, unit: Optional[str], unit_word: str) -> str:
    """A concrete spelling on which the two (already different) normal forms differ - illustration only."""
    for x in _WITNESS_NUMBERS:
        q = fractions.Fraction(x)
        got, want = _nf_value(r.mode, r.c, r.d, r.k, r.j, q), _nf_value(mode, c, 0, 1, 0, q)
        if got != want:
            return f", e.g. '{x}{unit or ''}' -> {got} (exact value {want} {unit_word})"
    return ''


def _check_arithmetic(ctx: Ctx, p: ParseFn, units: List[str]) -> int:
    """R4 (formula) and R3 (exactness) for every value-returning statement of one parse function, by abstract execution per unit case."""
    spec_units = SPEC_CPU_UNITS if p.resource == 'cpu' else SPEC_UNITS
    cases: List[Optional[str]] = [None] + [u for u in units if u in spec_units]  # units outside the statement are R2's business
    unit_word = 'mCPU' if p.resource == 'cpu' else 'bytes'
    rets = [n for n in pf.walk_shallow(p.fn) if isinstance(n, ast.Return) and n.value is not None and not (isinstance(n.value, ast.Constant) and n.value.value is None)]
    per: Dict[int, dict] = {id(r): {'stmt': r, 'n': 0, 'r4': [], 'r3': [], 'open': [], 'nf': set()} for r in rets}
    declined: List[str] = []
    for u in cases:
        mode, c = _spec(p.resource, u)
        label = f"unit {u!r}" if u is not None else 'no unit'
        try:
            val, st = SymExec(p, u).run()
        except _Raises as ex:
            rec = per.setdefault(0, {'stmt': None, 'n': 0, 'r4': [], 'r3': [], 'open': [], 'nf': set()})
            rec['n'] += 1
            rec['r4'].append(f"raises {ex} for accepted strings with {label} (e.g. '1{u or ''}')")
            continue
        except AnalysisError as ex:
            declined.append(f'{label}: {ex}')
            continue
        rec = per[id(st)] if st is not None and id(st) in per else per.setdefault(0, {'stmt': None, 'n': 0, 'r4': [], 'r3': [], 'open': [], 'nf': set()})
        rec['n'] += 1
        want = f'{mode}({"value" if c == 1 else str(c) + "*value"})'
        for v in (val.alts if isinstance(val, Alt) else [val]):
            if isinstance(v, Rnd):
                rec['nf'].add(_nf_text(v))
                if not (v.k == 1 and v.j == 0 and v.mode == mode and v.c == c and v.d == 0):
                    what = 'rounds in the wrong direction' if (v.k, v.j, v.c, v.d) == (1, 0, c, 0) else 'computes the wrong quantity'
                    rec['r4'].append(f'with {label} the statement yields {_nf_text(v)}, the value denoted is {want} {unit_word}: it {what}{_witness(v, mode, c, u, unit_word)}')
                if v.lossy:
                    digits = "'0." + '9' * 30 + (u or '') + "'" if mode == 'floor' else "'1." + '0' * 30 + '1' + (u or '') + "'"
                    rec['r3'].append(f'with {label}: {v.lossy}, before {v.mode}() is applied - the result is wrong for spellings with many digits such as {digits}'
                                     + (" (and for short ones such as '1.001' whenever the binary product lands on the other side of an integer)" if 'float' in v.lossy else ''))
            elif isinstance(v, FloatU):
                rec['r3'].append(f'with {label} the statement returns a binary float, not the exact integer count: {v.why}')
            elif isinstance(v, Num):
                kind = {'fraction': 'Fraction', 'decimal': 'Decimal', 'float': 'float'}[v.rep]
                rec['r4'].append(f'with {label} the statement returns the unrounded {kind} {"value" if v.c == 1 else str(v.c) + "*value"}{"" if v.d == 0 else " + " + str(v.d)}, '
                                 f"not an integer number of {unit_word} (the value denoted is {want}), e.g. for '0.0005{u or ''}'")
            elif isinstance(v, K):
                rec['r4'].append(f"with {label} the statement returns the constant {v.v!r} for every number (the value denoted is {want} {unit_word})")
            elif isinstance(v, IntU):
                rec['open'].append(f'with {label} the result is an integer the analysis only knows as `{v.what}`')
            else:
                rec['open'].append(f'with {label} the result is not a number the analysis tracks')
    for key, rec in per.items():
        st = rec['stmt']
        stext = pf.nsrc(st) if st is not None else 'no value returned'
        cons = f'{F_PARSE}::{p.name}::{stext}'
        if st is not None and rec['n'] == 0:
            if declined:
                continue
            raise AnalysisError(f'{p.name}: `{stext}` is not reached by any unit case')
        line = st.lineno if st is not None else p.fn.lineno
        if rec['r4']:
            ctx.bad('R4', cons, rec['r4'][0] + (f' (+{len(rec["r4"]) - 1} more unit case(s))' if len(rec['r4']) > 1 else ''), p.m.path, line, extra=rec['r4'][:12])
        elif rec['open'] or (rec['r3'] and not rec['nf']):
            ctx.ok('R4', cons, 'formula not decided for this statement', nontrivial=False)
        else:
            ctx.ok('R4', cons, {'unit_cases': rec['n'], 'normal_forms': sorted(rec['nf'])})
        if rec['r3']:
            ctx.bad('R3', cons, rec['r3'][0] + (f' (+{len(rec["r3"]) - 1} more unit case(s))' if len(rec['r3']) > 1 else ''), p.m.path, line, extra=rec['r3'][:12])
        elif rec['r4'] or rec['open']:
            ctx.ok('R3', cons, 'not evaluated: the formula itself fails R4 / is not decided', nontrivial=False)
        else:
            ctx.ok('R3', cons, {'unit_cases': rec['n'], 'exact': 'no float / context-rounded Decimal step between the text and the rounding'})
        if rec['open'] and not rec['r4'] and not rec['r3']:
            declined.append(f'`{stext}`: {rec["open"][0]}')
    if declined:
        raise AnalysisError(f'{p.name}: arithmetic not decided: {declined[0]}' + (f' (+{len(declined) - 1} more)' if len(declined) > 1 else ''))
    return len(cases)


# --------------------------------------------------------------------------------------
# front end call sites
# --------------------------------------------------------------------------------------


def _resources_key(fn: pf.FuncDef, g: pf.CFG, call_node: pf.Node, arg: ast.AST, depth: int = 0) -> Optional[Tuple[str, str]]:
    """Which validated `resources` key does the argument of a parse call hold?  -> (key, how)"""
    if isinstance(arg, ast.Name) and depth < 2:
        d = pf.single_def(fn, arg.id)
        if isinstance(d, ast.expr):
            return _resources_key(fn, g, call_node, d, depth + 1)
        return None
    if isinstance(arg, ast.Call) and pf.dotted(arg.func) == 'resources.get' and len(arg.args) in (1, 2) and isinstance(arg.args[0], ast.Constant):
        return str(arg.args[0].value), pf.nsrc(arg)
    if isinstance(arg, ast.Subscript) and pf.dotted(arg.value) == 'resources' and isinstance(arg.slice, ast.Constant) and isinstance(arg.slice.value, str):
        key = arg.slice.value
        if key in RESOURCES:
            return key, pf.nsrc(arg)
        # resources['req_x'] = resources['x'] must dominate the use
        srcs = []
        for n in g.nodes:
            st = n.ast
            if n.kind == 'stmt' and isinstance(st, ast.Assign) and len(st.targets) == 1 and pf.nsrc(st.targets[0]) == pf.nsrc(arg):
                srcs.append((n, st.value))
        if len(srcs) == 1 and isinstance(srcs[0][1], ast.Subscript) and pf.dotted(srcs[0][1].value) == 'resources' \
                and isinstance(srcs[0][1].slice, ast.Constant) and g.dominated_by(call_node, lambda x: x is srcs[0][0]):
            return str(srcs[0][1].slice.value), f'{pf.nsrc(arg)} = {pf.nsrc(srcs[0][1])}'
    return None


def _check_front_end(ctx: Ctx, parse: Dict[str, ParseFn], server: Dict[str, R.Lang], named_memory: List[str]) -> None:
    mf = pf.load(F_FRONT)
    imps = mf.imports()
    by_fn = {p.name: p for p in parse.values()}
    for name in by_fn:
        ctx.need(imps.get(name) == 'hailtop.batch_client.parse.' + name, f'{F_FRONT}: {name} is not imported from hailtop.batch_client.parse ({imps.get(name)})')
        ctx.need(not mf.has_func(name), f'{F_FRONT}: {name} is redefined locally')
    named = R.lang(R.alt(*[R.lit(s) for s in named_memory]), 'named memory types')
    n_sites = 0
    seen = set()
    for qual, fn in mf.functions():
        calls = [c for c in pf.calls_in(fn) if pf.dotted(c.func) in by_fn]
        if not calls:
            continue
        g = pf.cfg(fn)
        for c in calls:
            p = by_fn[pf.dotted(c.func)]  # type: ignore[index]
            seen.add(p.name)
            nodes = g.node_of(c)
            ctx.need(len(nodes) == 1 and len(c.args) == 1 and not c.keywords, f'{qual}: unrecognised call `{pf.nsrc(c)}`')
            rk = _resources_key(fn, g, nodes[0], c.args[0])
            ctx.need(rk is not None, f'{F_FRONT}::{qual}: cannot tell which validated resources entry `{pf.nsrc(c.args[0])}` holds')
            key, how = rk  # type: ignore[misc]
            ctx.need(key in server, f'{F_FRONT}::{qual}: `{pf.nsrc(c)}` parses resources[{key!r}], which has no size validator')
            validated = server[key] - named if key == 'memory' else server[key]
            w = R.included(validated, p.lang)
            n_sites += 1
            ctx.check(w is None, 'R1', f'{F_FRONT}::{qual}::{pf.nsrc(c)}',
                      f'`{pf.nsrc(c)}` parses the validated resources[{key!r}] ({how}) but {p.name} does not accept {w!r}, which the job validator admits for {key!r}',
                      mf.path, c.lineno, detail={'resources_key': key, 'via': how})
    ctx.need(seen == set(by_fn), f'{F_FRONT}: parse functions never called in the front end: {sorted(set(by_fn) - seen)}')
    ctx.unit('front_end_parse_sites', n_sites)
    # literal defaults
    for key, const in (('cpu', 'BATCH_JOB_DEFAULT_CPU'), ('memory', 'BATCH_JOB_DEFAULT_MEMORY'), ('storage', 'BATCH_JOB_DEFAULT_STORAGE')):
        v = sp.module_const(mf, const)
        lit: Optional[str] = None
        if isinstance(v, ast.Call) and pf.dotted(v.func) == 'os.environ.get' and len(v.args) == 2:
            lit = pf.const_str(v.args[1])
        elif pf.const_str(v) is not None:
            lit = pf.const_str(v)
        ctx.need(lit is not None, f'{F_FRONT}: {const} is not a literal / os.environ.get(NAME, literal)')
        assert lit is not None
        ok = parse[key].lang if key != 'memory' else (parse[key].lang | named)
        ctx.check(R.accepts(ok, lit), 'R1', f'{F_FRONT}::{const}',
                  f'the built-in default {lit!r} substituted for a missing resources[{key!r}] is not accepted by {parse[key].name}', mf.path,
                  getattr(v, 'lineno', 0), detail={'default': lit})


# --------------------------------------------------------------------------------------
# other users of the patterns
# --------------------------------------------------------------------------------------


HAILCTL_KEYS = {'QUERY_BATCH_DRIVER_CORES': 'cpu', 'QUERY_BATCH_WORKER_CORES': 'cpu', 'QUERY_BATCH_DRIVER_MEMORY': 'memory',
                'QUERY_BATCH_WORKER_MEMORY': 'memory'}


def _check_hailctl(ctx: Ctx, client: Dict[str, R.Lang], handled: set) -> int:
    """`hailctl config set query/batch_{driver,worker}_{cores,memory}`: the validation predicate registered for the key - however
    it is written - accepts exactly the client language of that resource (these values are sent to the server as they are)."""
    m = pf.load(F_HAILCTL)
    found: Dict[str, Tuple[ast.AST, ast.AST]] = {}
    for d in ast.walk(m.tree):
        if not isinstance(d, ast.Dict):
            continue
        for k, v in zip(d.keys, d.values):
            name = pf.dotted(k) if k is not None else None
            if name and name.startswith('ConfigVariable.') and name.split('.', 1)[1] in HAILCTL_KEYS:
                ctx.need(name.split('.', 1)[1] not in found, f'{F_HAILCTL}: {name} is registered twice')
                found[name.split('.', 1)[1]] = (k, v)
    ctx.need(set(found) == set(HAILCTL_KEYS), f'{F_HAILCTL}: config variables not found: {sorted(set(HAILCTL_KEYS) - set(found))}')
    n = 0
    for key, res in HAILCTL_KEYS.items():
        _k, v = found[key]
        ctx.need(isinstance(v, ast.Call) and pf.dotted(v.func) == 'ConfigVariableInfo', f'{F_HAILCTL}: {key} is not a ConfigVariableInfo(...)')
        val = next((kw.value for kw in v.keywords if kw.arg == 'validation'), v.args[1] if len(v.args) > 1 else None)  # type: ignore[union-attr]
        ctx.need(isinstance(val, ast.Tuple) and len(val.elts) == 2, f'{F_HAILCTL}: {key}: validation is not a (predicate, message) pair')
        pred = val.elts[0]  # type: ignore[union-attr]
        fn = m.enclosing_func(v)
        where = f'{F_HAILCTL}::{m.qualname(fn) if fn is not None else "<module>"}'
        if isinstance(pred, ast.Lambda):
            ctx.need(len(pred.args.args) == 1 and not pred.args.vararg and not pred.args.kwarg, f'{F_HAILCTL}: {key}: predicate is not a one-parameter lambda')
            x = pred.args.args[0].arg
            tr = sp.Translator(m, fn, x)
            L = tr.cond(pred.body)
            text = f'lambda {x}: {pf.nsrc(pred.body)}'
            for c in ast.walk(pred):
                handled.add(id(c))
        else:
            ctx.need(isinstance(pred, ast.Name) and m.has_func(pred.id), f'{F_HAILCTL}: {key}: predicate `{pf.nsrc(pred)}` is neither a lambda nor a module function')
            h = m.func(pred.id)  # type: ignore[union-attr]
            hp = [a.arg for a in h.args.posonlyargs + h.args.args]
            ctx.need(len(hp) == 1, f'{F_HAILCTL}: {key}: predicate {pred.id} takes {len(hp)} parameters')  # type: ignore[union-attr]
            L, tr = sp.function_language(m, h, hp[0], 'bool')
            text = f'{pred.id}'  # type: ignore[union-attr]
        cmp = R.compare(L, client[res])
        n += 1
        ctx.check(cmp.equal, 'R1', f'{where}::{text}',
                  f'the validation predicate of hailctl config variable {key} (`{text}`) does not accept the same {res} strings as the batch client/server: '
                  + (f'accepts {cmp.only_a!r}, which they reject' if cmp.only_a is not None else f'rejects {cmp.only_b!r}, which they accept'),
                  m.path, getattr(pred, 'lineno', 0), detail={'resource': res, 'config_variable': key, 'idioms': tr.idioms})
    return n


def _check_other_users(ctx: Ctx, parse: Dict[str, ParseFn], client: Dict[str, R.Lang], files: List[str]) -> None:
    """Every other matching call that uses one of the three patterns/objects: when it sits in a one-parameter lambda (a validation
    predicate) the whole lambda body is translated and must accept exactly the client language of that resource (named memory types
    included); otherwise the call alone must accept the parse function's language."""
    sym_to_res = {}
    for res, (_fn, obj, pat) in RESOURCES.items():
        sym_to_res['hailtop.batch_client.parse.' + obj] = res
        sym_to_res['hailtop.batch_client.parse.' + pat] = res
    n = 0
    handled: set = set()
    if F_HAILCTL in files:
        n += _check_hailctl(ctx, client, handled)
    for rel in files:
        m = pf.load(rel)
        local = {name: sym_to_res[o] for name, o in sp.imports_of(m).items() if o in sym_to_res}
        if not local:
            continue
        par = m.parents()
        for node in ast.walk(m.tree):
            if not isinstance(node, ast.Call) or not isinstance(node.func, ast.Attribute) or node.func.attr not in R.MODES:
                continue
            if id(node) in handled:
                continue
            uses = [x.id for a in list(node.args) + [node.func] for x in ast.walk(a) if isinstance(x, ast.Name) and x.id in local]
            if not uses:
                continue
            fn = m.enclosing_func(node)
            rc = sp.regex_call(m, fn, node)
            if rc is None:
                continue
            rd, mode, subject = rc
            res = local[uses[0]]
            where = f'{rel}::{m.qualname(fn) if fn is not None else "<module>"}'
            lam = par.get(node)
            while lam is not None and not isinstance(lam, (ast.Lambda, ast.FunctionDef, ast.AsyncFunctionDef)):
                lam = par.get(lam)
            n += 1
            if isinstance(lam, ast.Lambda) and len(lam.args.args) == 1 and isinstance(subject, ast.Name) and subject.id == lam.args.args[0].arg:
                tr = sp.Translator(m, None, subject.id)
                L = tr.cond(lam.body)
                cmp = R.compare(L, client[res])
                ctx.check(cmp.equal, 'R1', f'{where}::lambda {subject.id}: {pf.nsrc(lam.body)}',
                          f'the validation predicate `{pf.nsrc(lam.body)}` does not accept the same {res} strings as the batch client/server: '
                          + (f'accepts {cmp.only_a!r}, which they reject' if cmp.only_a is not None else f'rejects {cmp.only_b!r}, which they accept'),
                          m.path, node.lineno, detail={'mode': mode, 'resource': res, 'idioms': tr.idioms})
            else:
                cmp = R.compare(R.from_regex(rd.pattern, rd.flags, mode), parse[res].lang)
                ctx.check(cmp.equal, 'R1', f'{where}::{pf.nsrc(node)}',
                          f'`{pf.nsrc(node)}` ({mode}) does not accept the same {res} strings as {parse[res].name}: '
                          + (f'accepts {cmp.only_a!r} which the parser rejects' if cmp.only_a is not None else f'rejects {cmp.only_b!r} which the parser accepts'),
                          m.path, node.lineno, detail={'mode': mode, 'resource': res})
    ctx.unit('other_pattern_uses', n)


# --------------------------------------------------------------------------------------


def _fold_int(m: pf.Module, e: ast.AST) -> int:
    if isinstance(e, ast.Constant) and isinstance(e.value, int) and not isinstance(e.value, bool):
        return e.value
    if isinstance(e, ast.BinOp) and isinstance(e.op, (ast.Pow, ast.Mult, ast.Add, ast.LShift)):
        a, b = _fold_int(m, e.left), _fold_int(m, e.right)
        if isinstance(e.op, ast.Pow):
            if not 0 <= b <= 64:
                raise AnalysisError('constant folding: exponent out of range')
            return a ** b
        if isinstance(e.op, ast.Mult):
            return a * b
        if isinstance(e.op, ast.Add):
            return a + b
        if not 0 <= b <= 128:
            raise AnalysisError('constant folding: shift out of range')
        return a << b
    if isinstance(e, ast.Name):
        return _fold_int(m, sp.module_const(m, e.id))
    raise AnalysisError(f'{m.rel}: cannot fold `{pf.nsrc(e)}` to an integer')


def run(ctx: Ctx) -> None:
    ctx.explanation = ('Regex languages (with the matching mode used at each site) are compared as DFAs over a partition of all Unicode code '
                       'points; the unit table is constant-folded; the parse arithmetic is executed abstractly per unit case with the number as a symbol and the '
                       'resulting normal forms are compared with floor(1000*value) / ceil(factor*value). No repository code is run, no sample inputs are evaluated.')
    ctx.rule('R1', 'client = server: validator language == parse-function language per resource (mode-aware); None iff no match; front-end '
                   'parse sites and defaults are covered; every other use of the patterns accepts the same language; job_validator is applied to every job '
                   'and the deprecated pvc_size key is accepted for exactly the client storage strings', 19)
    ctx.rule('R2', 'L(regex) == documented grammar [+]?(D+|D*.D+)unit?B? ; group 1 == unsigned decimal; group 2 == unit set == keys of '
                   'conv_factor with values 1000^n/1024^n', 12)
    ctx.rule('R3', 'exactness: on no unit case does the number reach its rounding through a lossy step - float() of the text, a float operand, '
                   'context-rounded Decimal arithmetic, int ** negative int, true division of integers (taint over the abstract execution; every '
                   'value-returning statement is an instance)', 3)
    ctx.rule('R4', 'formula: for every unit case the normal form k*mode(c*value+d)+j that each value-returning statement yields is exactly '
                   'floor(1000*value) mCPU (floor(value) with the m suffix) / ceil(1000^n|1024^n * value) bytes - abstract execution with helpers inlined, '
                   'case split over the finite unit set', 3)
    ctx.assume('Python float is IEEE-754 binary64; decimal arithmetic rounds to the context precision; Fraction arithmetic and Decimal(text) / Fraction(text) construction are exact')
    ctx.assume('the strings reach the validators as str; the front end resolves named memory types before calling parse_memory_in_bytes')
    mp = pf.load(F_PARSE)
    mv = pf.load(F_VALIDATE)
    ctx.unit('files', 5)

    parse = {res: ParseFn(ctx, mp, res) for res in RESOURCES}

    # ---------------- R2
    units_by_res: Dict[str, List[str]] = {}
    for res, p in parse.items():
        base = f'{F_PARSE}::{RESOURCES[res][1]}'
        obj_rd = sp.resolve_regex(p.m, None, ast.Name(id=RESOURCES[res][1], ctx=ast.Load()))
        # (the checks below are made on the regex the function really matches with - p.rd -, whatever object that is)
        spec = spec_language(res)
        cmp = R.compare(p.full, spec)
        msg = ''
        if not cmp.equal:
            msg = (f'pattern {p.rd.pattern!r} accepts {cmp.only_a!r}, which is not in the documented grammar {spec.label}' if cmp.only_a is not None
                   else f'pattern {p.rd.pattern!r} rejects {cmp.only_b!r}, which the documented grammar {spec.label} admits')
        ctx.check(cmp.equal, 'R2', base + '::language', msg, mp.path, getattr(obj_rd.node, 'lineno', 0), detail=cmp.describe())
        groups = R.regex_groups(p.rd.pattern, p.rd.flags)
        ctx.need(1 in groups and 2 in groups, f'{RESOURCES[res][1]}: expected capture groups 1 (number) and 2 (unit)')
        c1 = R.compare(R.lang(groups[1], 'group 1'), R.lang(_number_re(), 'D+|D*.D+'))
        ctx.check(c1.equal, 'R2', base + '::group 1 is the unsigned decimal number',
                  f'capture group 1 of {p.rd.pattern!r} ' + (f'can capture {c1.only_a!r}, not an unsigned decimal that float()/Decimal() read as its value'
                                                             if c1.only_a is not None else f'cannot capture the number {c1.only_b!r}'),
                  mp.path, getattr(obj_rd.node, 'lineno', 0))
        units = R.finite_strings(R.lang(groups[2], 'group 2'))
        units_by_res[res] = units
        want = sorted(SPEC_CPU_UNITS if res == 'cpu' else SPEC_UNITS, key=lambda w: (len(w), w))
        ctx.check(units == want, 'R2', base + '::group 2 is the unit set',
                  f'capture group 2 of {p.rd.pattern!r} admits the units {units}, the documented units are {want}', mp.path, getattr(obj_rd.node, 'lineno', 0),
                  detail={'units': units})
        ctx.unit('regexes')
    # conv_factor
    cf = sp.module_const(mp, 'conv_factor')
    if isinstance(cf, ast.Dict) and all(isinstance(k, ast.Constant) and isinstance(k.value, str) for k in cf.keys):
        table = {k.value: _fold_int(mp, v) for k, v in zip(cf.keys, cf.values)}  # type: ignore[union-attr]
        ctx.need(len(table) == len(cf.keys), 'conv_factor has duplicate keys')  # type: ignore[union-attr]
    else:
        # built by a comprehension / dict(...) / a merge of literal tables: a closed expression, constant-folded by the same abstract machine
        # that later reads `conv_factor[suffix]` (no input is involved)
        folded = SymExec(parse['memory'], None).expr(cf, {}, parse['memory'].fn)
        ctx.need(isinstance(folded, DictV) and all(isinstance(k, str) for k in folded.items)
                 and all(isinstance(v, K) and isinstance(v.v, int) and not isinstance(v.v, bool) for v in folded.items.values()),
                 'conv_factor does not fold to a table of string keys and integer factors')
        table = {k: v.v for k, v in folded.items.items()}
    for res in ('memory', 'storage'):
        missing = [u for u in units_by_res[res] if u not in table]
        dead = [u for u in table if u not in units_by_res[res]]
        ctx.check(not missing and not dead, 'R2', f'{F_PARSE}::conv_factor::keys == units of {RESOURCES[res][1]}',
                  (f'units {missing} are admitted by {RESOURCES[res][1]} but have no entry in conv_factor (KeyError at parse time)' if missing
                   else f'conv_factor entries {dead} can never be selected by {RESOURCES[res][1]}'), mp.path, cf.lineno)
    wrong = {u: v for u, v in table.items() if u in SPEC_UNITS and v != SPEC_UNITS[u]}
    ctx.check(not wrong, 'R2', f'{F_PARSE}::conv_factor::values',
              'conv_factor has the wrong multiplier for ' + ', '.join(f'{u!r}: {v} (must be {SPEC_UNITS[u]})' for u, v in wrong.items()), mp.path, cf.lineno,
              detail={'entries': len(table)})
    ctx.unit('unit_table_entries', len(table))

    # ---------------- R1
    vlib = ValidatorLib(ctx)
    server_exprs = _server_validators(ctx, mv)
    imps_v = mv.imports()
    mg = pf.load('batch/batch/globals.py')
    mt = sp.module_const(mg, 'memory_types')
    ctx.need(isinstance(mt, (ast.Tuple, ast.List)) and mt.elts, 'batch/batch/globals.py: memory_types is not a tuple literal')
    named_memory: List[str] = [sp.const_string(mg, None, x) for x in mt.elts]  # type: ignore[union-attr]
    server: Dict[str, R.Lang] = {}
    client_lang: Dict[str, R.Lang] = {}
    for res, p in parse.items():
        _check_none_iff_no_match(ctx, p)
        L, info = vlib.language(ctx, mv, server_exprs[res])
        server[res] = L
        client = p.lang
        if res == 'memory':
            # the front end resolves the named memory types (batch.globals.memory_types) before parsing
            client = client | R.lang(R.alt(*[R.lit(x) for x in named_memory]), 'named memory types')
        client_lang[res] = client
        cmp = R.compare(L, client)
        msg = ''
        if not cmp.equal:
            srv = f"the job validator for resources[{res!r}] (`{pf.nsrc(server_exprs[res])}`: {_describe(info)})"
            msg = (f"{srv} admits {cmp.only_a!r}, which {p.name} (`{pf.nsrc(p.call)}`) rejects" if cmp.only_a is not None else
                   f"{srv} rejects {cmp.only_b!r}, which the client side ({p.name}, `{pf.nsrc(p.call)}`" + (', or a named memory type' if res == 'memory' else '') + ') accepts')
        ctx.check(cmp.equal, 'R1', f"{F_VALIDATE}::job_validator['resources'][{res!r}] == {p.name}", msg, mv.path, getattr(server_exprs[res], 'lineno', 0),
                  detail=dict(cmp.describe(), server=info, client_mode=p.mode))
    _check_validation_applied(ctx, vlib, mv, server, client_lang, server_exprs)
    _check_front_end(ctx, parse, server, named_memory)
    files = [F_HAILCTL, F_VALIDATE, F_FRONT]
    if ctx.tier == 'thorough':
        files = sorted(set(files) | set(pf.walk_py(['hail/python/hailtop', 'batch/batch', 'ci/ci', 'gear/gear'])))
        ctx.unit('files_scanned_for_pattern_uses', len(files))
    _check_other_users(ctx, parse, client_lang, [f for f in files if f != F_PARSE])

    # ---------------- R3
    total = 0
    undecided: List[str] = []
    for res, p in parse.items():
        try:
            total += _check_arithmetic(ctx, p, units_by_res[res])
        except AnalysisError as e:  # one function of an unrecognised shape must not hide what the others establish
            undecided.append(str(e))
    ctx.unit('unit_cases_executed_symbolically', total)
    if undecided:
        raise AnalysisError(undecided[0] + (f' (+{len(undecided) - 1} more)' if len(undecided) > 1 else ''))
