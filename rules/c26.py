"""C26 Service cache is bounded, fresh and single-flight.

Decides from the syntax tree / CFG of gear/gear/time_limited_max_size_cache.py and gear/gear/auth.py (nothing is run):
  R1 bounded   every `_put` in lookup is followed, atomically and on every path, by the capacity test and (when over capacity) an eviction;
               `_over_capacity` is true whenever more than num_slots keys are held; `_evict_oldest` always removes one key;
               `_put` / `_remove` update the three maps together and in the order the SortedSet key function (reads _expiry_time) requires;
               no other method mutates the maps
  R2 fresh     expiry = monotonic clock + lifetime_ns; the cached value is returned only after, atomically, the expiry of the same key
               was compared with the *same* clock and the expired entry removed
  R3 single    the load task is registered with no suspension point after the `k in self._futures` test (absent-edge), `self.load` is
               called only there, a lookup that finds a registered task starts no load, and the registration is removed on every exit
               (normal, error, cancellation) of the loader
  R4 isolation every `await` of a task read from the shared `_futures` map goes through asyncio.shield: otherwise cancelling one
               caller cancels the shared task and the other callers fail although neither their load failed nor they were cancelled
  R5 use site  gear/auth.py builds the cache with positive constant lifetime / capacity and only ever calls `.lookup` on it
Does not decide: which entry is evicted (any one suffices for the bound), behaviour during shutdown(), the loader's own errors.
"""
from __future__ import annotations

import ast
from typing import Dict, List, Optional, Tuple

from engines import asyncfacts as af
from engines import inline
from engines import pyfacts as pf
from engines.common import AnalysisError, Ctx

META = dict(
    category='other',
    text='Structural necessary conditions decided on the CFG: must-pass-through from each insertion to the capacity test/eviction with '
         'await-atomicity, table evaluation of the capacity and expiry comparisons over the order relation, writer/writer agreement of the three '
         'maps and of the clock used by writer and reader, single-flight registration atomicity and removal on every exit (incl. the set of '
         'finally/except blocks that run on CancelledError), and a syntactic closure over every await of a shared task.  Not a proof over schedules.',
    note='Trusted: CPython ast; engines/pyfacts CFG; asyncio switches only at await; awaiting a Task from a cancelled coroutine cancels that Task '
         'unless wrapped in asyncio.shield. Not decided: eviction policy, shutdown().',
    technique='static analysis: CFG must-pass/dominance + await-atomicity + cancellation-exit analysis + finite truth tables',
    design_ref='DESIGN.md §3 C26, §4 F4',
)

F = 'gear/gear/time_limited_max_size_cache.py'
AU = 'gear/gear/auth.py'
CLS = 'TimeLimitedMaxSizeCache'
MAPS = ('self._cache', 'self._expiry_time', 'self._keys_by_expiry')
FUT = 'self._futures'
CLOCK_OK = ('time.monotonic_ns',)
PRIMS = ('_put', '_remove', '_evict_oldest', '_over_capacity', 'shutdown', '__init__')


def _map_writes(m: pf.Module, fn: pf.FuncDef) -> List[Tuple[str, str, str, ast.AST]]:
    """(map, op, key-src, stmt) for every mutation of one of the three maps / _futures in fn, in source order."""
    out = []
    for st in pf.walk_shallow(fn):
        if isinstance(st, ast.Assign):
            for t in st.targets:
                if isinstance(t, ast.Subscript) and pf.nsrc(t.value) in MAPS + (FUT,):
                    out.append((pf.nsrc(t.value), 'set', pf.nsrc(t.slice), st))
                elif isinstance(t, ast.Attribute) and pf.nsrc(t) in MAPS + (FUT,):
                    out.append((pf.nsrc(t), 'rebind', '', st))
        elif isinstance(st, ast.Delete):
            for t in st.targets:
                if isinstance(t, ast.Subscript) and pf.nsrc(t.value) in MAPS + (FUT,):
                    out.append((pf.nsrc(t.value), 'del', pf.nsrc(t.slice), st))
        elif isinstance(st, ast.Call) and isinstance(st.func, ast.Attribute) and pf.nsrc(st.func.value) in MAPS + (FUT,):
            meth = st.func.attr
            if meth in ('add', 'remove', 'discard', 'pop', 'clear', 'update', 'popitem', 'setdefault', '__setitem__', '__delitem__'):
                out.append((pf.nsrc(st.func.value), meth, pf.nsrc(st.args[0]) if st.args else '', st))
    out.sort(key=lambda x: (getattr(x[3], 'lineno', 0), getattr(x[3], 'col_offset', 0)))
    return out


def _stmt_of(m: pf.Module, fn: pf.FuncDef, node: ast.AST) -> ast.stmt:
    par = m.parents()
    cur = node
    while not isinstance(cur, ast.stmt):
        cur = par[cur]
    return cur


def _top_level_unconditional(fn: pf.FuncDef, st: ast.AST, m: pf.Module) -> bool:
    s = _stmt_of(m, fn, st)
    return any(s is x for x in fn.body)


def _r1_maps(ctx: Ctx, m: pf.Module, cls: ast.ClassDef) -> None:
    # key function of the SortedSet
    init = af.method(m, cls, '__init__')
    kdef = [st for st in init.body if isinstance(st, ast.Assign) and pf.nsrc(st.targets[0]) == 'self._keys_by_expiry']
    ctx.need(len(kdef) == 1 and isinstance(kdef[0].value, ast.Call), '__init__: _keys_by_expiry is not built by one constructor call')
    kcall = kdef[0].value
    ctx.need(pf.dotted(kcall.func) in ('sortedcontainers.SortedSet', 'SortedSet'), f'_keys_by_expiry is `{pf.nsrc(kcall)}`, not a SortedSet')
    keyf = [k.value for k in kcall.keywords if k.arg == 'key']
    ctx.need(len(keyf) == 1 and isinstance(keyf[0], ast.Lambda) and len(keyf[0].args.args) == 1, 'SortedSet key is not a one-argument lambda')
    lam = keyf[0]
    reads_expiry = pf.nsrc(lam.body) == f'self._expiry_time[{lam.args.args[0].arg}]'
    ctx.need(reads_expiry, f'SortedSet key function `{pf.nsrc(lam)}` does not read self._expiry_time[k] (ordering by expiry not recognised)')

    put = af.method(m, cls, '_put')
    rem = af.method(m, cls, '_remove')
    kp = [a.arg for a in put.args.args]
    kr = [a.arg for a in rem.args.args]
    ctx.need(len(kp) == 3 and len(kr) == 2, f'_put/_remove parameters changed: {kp} {kr}')
    for fn, key, want, label in ((put, kp[1], {'self._cache': ('set',), 'self._expiry_time': ('set',), 'self._keys_by_expiry': ('add',)}, 'adds'),
                                 (rem, kr[1], {'self._cache': ('del', 'pop'), 'self._expiry_time': ('del', 'pop'), 'self._keys_by_expiry': ('remove', 'discard')}, 'removes')):
        ws = _map_writes(m, fn)
        for mp, ops in want.items():
            hit = [w for w in ws if w[0] == mp and w[1] in ops and w[2] == key and _top_level_unconditional(fn, w[3], m)]
            cons = f'{F}::{CLS}.{fn.name}::{mp}'
            ctx.check(len(hit) == 1, 'R1', cons, f'{fn.name} does not unconditionally {label[:-1]} key `{key}` {"to" if fn is put else "from"} {mp} exactly once '
                      f'(found {[pf.nsrc(w[3]) for w in ws if w[0] == mp]}): the three maps drift apart, so the size test / the expiry test no longer '
                      f'cover what lookup returns', m.path, fn.lineno)
        extra = [w for w in ws if not (w[0] in want and w[1] in want[w[0]] and w[2] == key)]
        ctx.need(not extra, f'{CLS}.{fn.name}: unrecognised map mutation `{pf.nsrc(extra[0][3])}`' if extra else '')
        # order imposed by the key function
        pos = {w[0]: i for i, w in enumerate(ws) if w[0] in want}
        if len(pos) == 3:
            if fn is put:
                ok = pos['self._expiry_time'] < pos['self._keys_by_expiry']
                msg = 'adds the key to the SortedSet before its expiry time is stored: the key function reads self._expiry_time[k] (KeyError / sorted by a stale time)'
            else:
                ok = pos['self._keys_by_expiry'] < pos['self._expiry_time']
                msg = 'deletes the expiry time before removing the key from the SortedSet: the removal evaluates the key function on a deleted entry (KeyError), the lookup fails'
            ctx.check(ok, 'R1', f'{F}::{CLS}.{fn.name}::order', f'{fn.name} {msg}', m.path, fn.lineno)
    # no other method mutates the maps
    for st in cls.body:
        if isinstance(st, (ast.FunctionDef, ast.AsyncFunctionDef)) and st.name not in ('__init__', '_put', '_remove'):
            ws = [w for w in _map_writes(m, st) if w[0] in MAPS]
            ctx.check(not ws, 'R1', f'{F}::{CLS}.{st.name}::no direct map mutation',
                      f'`{pf.nsrc(ws[0][3])}` mutates a cache map outside _put/_remove: the maps can drift apart' if ws else '', m.path, st.lineno)


def _r1_capacity(ctx: Ctx, m: pf.Module, cls: ast.ClassDef) -> None:
    oc = af.method(m, cls, '_over_capacity')
    body = af.body_no_doc(oc)
    ctx.need(len(body) == 1 and isinstance(body[0], ast.Return) and body[0].value is not None, '_over_capacity is not a single return')
    e = body[0].value
    sized = [mp for mp in MAPS if af.mentions(e, f'len({mp})')]
    ctx.need(len(sized) == 1, f'_over_capacity `{pf.nsrc(e)}` does not measure exactly one of the cache maps')
    ctx.need(isinstance(e, ast.Compare), f'_over_capacity `{pf.nsrc(e)}` is not a comparison')
    nz = af.compare_leq_zero(e, {f'len({sized[0]})': 'n', 'self.num_slots': 'S'})
    ctx.need(nz is not None, f'_over_capacity `{pf.nsrc(e)}` is not a linear comparison of len({sized[0]}) with self.num_slots')
    d, strict = nz  # type: ignore[misc]
    a, b, c = d.get('n', 0), d.get('S', 0), d.get('1', 0)
    ctx.need(set(d) <= {'n', 'S', '1'} and a != 0, f'_over_capacity `{pf.nsrc(e)}`: unrecognised linear form {af.lin_str(d)}')
    # condition  a*n + b*S + c  (< | <=) 0  must hold whenever n >= S + 1 (integers), for every S
    holds = a < 0 and a + b == 0 and ((a + c < 0) if strict else (a + c <= 0))
    ctx.check(holds, 'R1', f'{F}::{CLS}._over_capacity', f'`{pf.nsrc(e)}` (i.e. {af.lin_str(d)} {"<" if strict else "<="} 0) is false for len = num_slots + 1: '
              f'the insertion that exceeds the capacity is not compensated and the cache holds more than num_slots entries', m.path, oc.lineno,
              detail={'test': pf.nsrc(e)})
    eo = af.method(m, cls, '_evict_oldest')
    cfg = pf.cfg(eo)
    rm = af.stmt_nodes(cfg, lambda n: af.node_is_call(n, 'self._remove') is not None)
    ok = len(rm) == 1 and cfg.dominated_by(cfg.exit, lambda n: n is rm[0])
    ctx.check(ok, 'R1', f'{F}::{CLS}._evict_oldest', '_evict_oldest does not unconditionally remove one key: an insertion over capacity is not compensated',
              m.path, eo.lineno)
    if ok:
        c = af.node_is_call(rm[0], 'self._remove')
        arg = pf.resolve_expr(eo, c.args[0]) if c is not None and c.args else None
        held = isinstance(arg, ast.Subscript) and pf.nsrc(arg.value) in MAPS
        ctx.need(held, f'_evict_oldest removes `{pf.nsrc(arg) if arg is not None else "?"}`, not a key read from the cache maps')

    lk = af.method(m, cls, 'lookup')
    cfg = pf.cfg(lk)
    puts = af.stmt_nodes(cfg, lambda n: af.node_is_call(n, 'self._put') is not None)
    ctx.need(puts, 'lookup never calls _put (directly or through an inlinable helper)')
    _capacity_after_puts(ctx, m, 'lookup', cfg, puts)


def _capacity_after_puts(ctx: Ctx, m: pf.Module, fname: str, cfg: pf.CFG, puts: List[pf.Node]) -> None:
    for P in puts:
        cons = f'{F}::{CLS}.{fname}::{P.text()}'
        tests = [t for t in cfg.nodes if t.kind == 'test' and af.mentions(t.ast, 'self._over_capacity()')]
        evs = af.stmt_nodes(cfg, lambda n: af.node_is_call(n, 'self._evict_oldest') is not None)
        verdict = None
        for t in tests:
            for lab in ('T', 'F'):
                if af.implied_on_edge(t.ast, 'T' if lab == 'F' else 'F', 'self._over_capacity()', False) and \
                        af.must_pass(cfg, P, lambda n: n is cfg.exit, lambda n: n is t) is None and \
                        evs and af.must_pass(cfg, t, lambda n: n is cfg.exit, lambda n: any(n is x for x in evs), first_label=lab) is None:
                    verdict = (t, lab)
        if verdict is None:
            ctx.bad('R1', cons, 'after the insertion some path returns without `if self._over_capacity(): self._evict_oldest()`: each such lookup leaves one '
                    'more entry than num_slots in the cache', m.path, P.lineno)
            continue
        region = [cfg.nodes[i] for i in cfg.reachable_from(P) if cfg.nodes[i] is not P]
        aw = [x for x in region if pf.node_has_await(x)]
        ctx.check(not aw, 'R1', cons, f'`{aw[0].text() if aw else ""}` suspends between the insertion and the eviction: other lookups observe (and add to) an '
                  f'over-full cache', m.path, P.lineno, detail={'test': pf.nsrc(verdict[0].ast)})


def _only_from_lookup(m: pf.Module, name: str, il, seen: Tuple[str, ...] = ()) -> bool:
    """every call site of method `name` (original class) lies in lookup or in a method that is itself only called from lookup, and the
    inliner expanded all of them: the method has no behaviour of its own beyond what the inlined lookup shows."""
    if name in seen or name in {n for n, _, _ in il.skipped} or name in PRIMS:
        return False
    funcs = [(q, fn) for q, fn in m.functions() if q.startswith(CLS + '.')]
    ss = [(q, c) for q, fn in funcs for c in ast.walk(fn) if isinstance(c, ast.Attribute) and pf.nsrc(c) == f'self.{name}' and m.enclosing_func(c) is fn]
    if not ss:
        return False
    for q, _ in ss:
        parts = q.split('.')
        if len(parts) != 2:
            return False
        if parts[1] == 'lookup':
            continue
        if not _only_from_lookup(m, parts[1], il, seen + (name,)):
            return False
    return True


def _r1_put_callers(ctx: Ctx, m: pf.Module, cls: ast.ClassDef, il) -> None:
    """who-may-call `_put`: `_keys_by_expiry.add(k)` is a no-op for a key that is already filed, which would stay filed under its old expiry
    (SortedSet caches the key function's value).  `_put` is therefore only sound where the key is absent from the index: on lookup's loader
    path (absent at the miss decision, single flight keeps it absent), or right after removing it."""
    put = af.method(m, cls, '_put')
    kp = put.args.args[1].arg
    pcfg = pf.cfg(put)
    adds = af.stmt_nodes(pcfg, lambda n: af.node_is_call(n, 'self._keys_by_expiry.add') is not None)
    ctx.need(len(adds) == 1, '_put: index insertion not found')

    def removes_first(cfg: pf.CFG, node: pf.Node, key: str) -> bool:
        """Forward must-analysis: on every path to `node` the last relevant event is `self._remove(key)` or the absent edge of a
        membership test of `key` in one of the three maps, with no suspension and no insertion afterwards."""
        def is_rm(n: pf.Node) -> bool:
            c = af.node_is_call(n, 'self._remove')
            return c is not None and [pf.nsrc(a) for a in c.args] == [key]
        preds: Dict[int, List[Tuple[pf.Node, str]]] = {}
        for a in cfg.nodes:
            for b, lab in a.succ:
                preds.setdefault(b.id, []).append((a, lab))
        out: Dict[int, bool] = {n.id: True for n in cfg.nodes}  # optimistic start, greatest fixpoint
        out[cfg.entry.id] = False

        def edge_val(a: pf.Node, lab: str) -> bool:
            if a.kind == 'test' and lab in ('T', 'F') and any(af.implied_on_edge(a.ast, lab, f'{key} in {mp}', False) for mp in MAPS):
                return True
            return out[a.id]
        changed = True
        while changed:
            changed = False
            for n in cfg.nodes:
                if n is cfg.entry:
                    continue
                ps = preds.get(n.id, [])
                inn = bool(ps) and all(edge_val(a, lab) for a, lab in ps)
                if is_rm(n):
                    v = True
                elif pf.node_has_await(n) or (n.ast is not None and n.kind != 'test' and any(pf.dotted(c.func) == 'self._put' for c in pf.node_calls(n))):
                    v = False
                else:
                    v = inn
                if n is node:
                    v = inn  # the state in which the insertion itself runs
                if v != out[n.id]:
                    out[n.id] = v
                    changed = True
        return out[node.id]
    self_guarded = removes_first(pcfg, adds[0], kp)
    funcs = [(q, fn) for q, fn in m.functions() if q.startswith(CLS + '.')]

    def sites(name: str):
        return [(q, fn, c) for q, fn in funcs for c in pf.calls_in(fn, False) if pf.dotted(c.func) == f'self.{name}']
    n = 0
    for q, fn, c in sites('_put'):
        n += 1
        parts = q.split('.')
        cons = f'{F}::{q}::{pf.nsrc(c)}'
        if self_guarded:
            ctx.ok('R1', cons + '::key absent', '_put removes an existing entry first')
            continue
        if len(parts) == 2 and (parts[1] == 'lookup' or _only_from_lookup(m, parts[1], il)):
            ctx.ok('R1', cons + '::key absent', 'on lookup\'s loader path (analysed inlined)')
            continue
        fcfg = pf.cfg(fn)
        nodes = [x for x in fcfg.nodes if x.ast is not None and any(y is c for y in ast.walk(x.ast)) and x.kind != 'def']
        key = pf.nsrc(c.args[0]) if c.args else '?'
        ok = bool(nodes) and all(removes_first(fcfg, x, key) for x in nodes)
        ctx.check(ok, 'R1', cons + '::key absent', f'`{pf.nsrc(c)}` in {q} can run while `{key}` is still filed in the expiry index: SortedSet.add is a no-op for a member, so the key '
                  'stays filed under its old expiry while _expiry_time changes; the next _remove/_evict_oldest of it raises, eviction stops working (unbounded growth) and lookups '
                  'of unrelated keys fail', m.path, c.lineno)
        if ok and nodes:
            _capacity_after_puts(ctx, m, q.split('.', 1)[1], fcfg, nodes)
    ctx.need(n >= 1, '_put is never called')


def _r2_fresh(ctx: Ctx, m: pf.Module, cls: ast.ClassDef) -> None:
    put = af.method(m, cls, '_put')
    kp = [a.arg for a in put.args.args]
    ws = [w for w in _map_writes(m, put) if w[0] == 'self._expiry_time' and w[1] == 'set']
    ctx.need(len(ws) == 1, '_put: expiry write not found')
    val = pf.resolve_expr(put, ws[0][3].value)  # type: ignore[attr-defined]
    clocks = [c for c in ast.walk(val) if isinstance(c, ast.Call) and (pf.dotted(c.func) or '').startswith('time.')]
    ctx.need(len(clocks) == 1, f'_put: expiry `{pf.nsrc(val)}` does not read exactly one clock')
    clock_src = pf.nsrc(clocks[0])
    lin = af.linear(val, {clock_src: 'clock', 'self.lifetime_ns': 'L'})
    cons = f'{F}::{CLS}._put::expiry `{pf.nsrc(val)}`'
    ctx.need(lin is not None, f'{cons}: not linear in clock / lifetime_ns')
    ctx.check(lin == {'clock': 1, 'L': 1}, 'R2', cons, f'expiry is {af.lin_str(lin)}, not clock + lifetime_ns: entries outlive (or never reach) their lifetime',  # type: ignore[arg-type]
              m.path, put.lineno)
    ctx.check(pf.dotted(clocks[0].func) in CLOCK_OK, 'R2', f'{F}::{CLS}._put::clock', f'expiry uses `{clock_src}`, whose unit/epoch does not match lifetime_ns '
              f'(a monotonic nanosecond clock is required)', m.path, put.lineno)

    lk = af.method(m, cls, 'lookup')
    cfg = pf.cfg(lk)
    k = [a.arg for a in lk.args.args][1]
    hits = af.stmt_nodes(cfg, lambda n: n.kind == 'return' and n.ast.value is not None and any(
        isinstance(x, ast.Subscript) and pf.nsrc(x.value) == 'self._cache' for x in ast.walk(n.ast.value)))
    ctx.need(len(hits) == 1, f'lookup: expected one return of a cached value, found {len(hits)}')
    H = hits[0]
    cons = f'{F}::{CLS}.lookup::{H.text()}'
    ctx.need(pf.nsrc(H.ast.value) == f'self._cache[{k}]', f'{cons}: returns a cached value for a different key')  # type: ignore[union-attr]
    # membership test on the expiry map (or cache map) dominating the hit
    exp_src = f'self._expiry_time[{k}]'
    # tests are read through single-definition locals (`left = self._expiry_time[k] - time.monotonic_ns(); if left <= 0:`)
    rexp = {t.id: pf.expand_locals(lk, t.ast) for t in cfg.nodes if t.kind == 'test'}
    xs = [t for t in cfg.nodes if t.kind == 'test' and af.mentions(rexp[t.id], exp_src)]
    if not xs:
        ctx.bad('R2', cons, 'the cached value is returned without comparing its expiry time with the clock: values older than lifetime_ns are served', m.path, H.lineno)
        af.blocked(ctx, 'R2', 'R2')
        return
    ctx.need(len(xs) == 1, f'lookup: {len(xs)} tests read {exp_src}')
    X = xs[0]
    Xe = rexp[X.id]
    cl = [c for c in ast.walk(Xe) if isinstance(c, ast.Call) and (pf.dotted(c.func) or '').startswith('time.')]
    ctx.need(len(cl) == 1, f'lookup: expiry test `{pf.nsrc(Xe)}` does not read exactly one clock')
    ctx.check(pf.nsrc(cl[0]) == clock_src, 'R2', f'{F}::{CLS}.lookup::same clock', f'lookup compares the expiry with `{pf.nsrc(cl[0])}` but _put computes it from '
              f'`{clock_src}`: the comparison is meaningless', m.path, X.lineno)
    rms = af.stmt_nodes(cfg, lambda n: (c := af.node_is_call(n, 'self._remove')) is not None and [pf.nsrc(a) for a in c.args] == [k])
    lab = None
    for cand in ('T', 'F'):
        if rms and af.must_pass(cfg, X, lambda n: n is H, lambda n: any(n is r for r in rms), first_label=cand) is None and af.direct(cfg, X, rms[0], cand):
            lab = cand
    consx = f'{F}::{CLS}.lookup::expiry test `{pf.nsrc(Xe)}`'
    if lab is None:
        ctx.bad('R2', consx, f'no branch of the expiry test removes the entry before the hit test: an expired value is still returned by `{H.text()}`', m.path, X.lineno)
        af.blocked(ctx, 'R2', 'R2')
        return
    ev = af.TestEval(exp_src, pf.nsrc(cl[0]), [])
    rows = ev.rows(Xe)
    stale = [r for r in rows if r[0] == '<' and r[2] != (lab == 'T')]
    ctx.check(not stale, 'R2', consx, f'an entry whose expiry time is before the current clock value is not removed (branch {lab} removes, but the test is '
              f'{stale[0][2] if stale else ""} for expiry < now): a value older than its lifetime is returned', m.path, X.lineno)
    if Xe is not X.ast:
        # the comparison was read through locals: their definitions must not be separated from the test by a suspension
        defs = [n for n in cfg.nodes if n.kind == 'stmt' and isinstance(n.ast, ast.Assign) and any(isinstance(t2, ast.Name) and t2.id in pf.names_in(X.ast) for t2 in n.ast.targets)]
        ctx.need(bool(defs), f'{consx}: definitions of the locals not found')
        st_aw = [x for d in defs for x in af.between(cfg, d, X) if pf.node_has_await(x)]
        ctx.check(not st_aw, 'R2', consx + '::clock read fresh', f'`{st_aw[0].text() if st_aw else ""}` suspends between reading the clock/expiry into a local and testing it', m.path, X.lineno)
    # every path to the hit evaluates the expiry test, unless the key has no expiry entry at all
    ms = [t for t in cfg.nodes if t.kind == 'test' and pf.nsrc(t.ast) in (f'{k} in self._expiry_time', f'{k} in self._cache', f'{k} in self._keys_by_expiry')
          and af.direct(cfg, t, X, 'T') and cfg.dominated_by(X, lambda n, t=t: n is t)]
    skip = cfg.path_avoiding(cfg.entry, lambda n: n is H, lambda n: n is X,
                             edge_ok=lambda a, b, l2: not (any(a is t for t in ms) and l2 == 'F'))
    ctx.check(skip is None, 'R2', cons + '::dominated by expiry test',
              'a path reaches the cached-value return without evaluating the expiry test (other than through "key has no entry"): stale values are served'
              + (f' (via `{skip[-2].text()}`)' if skip and len(skip) > 1 else ''), m.path, H.lineno)
    aw = [x for x in af.between(cfg, X, H) if pf.node_has_await(x)]
    ctx.check(not aw, 'R2', cons + '::atomic', f'`{aw[0].text() if aw else ""}` suspends between the expiry test and the return: the value can expire (or be replaced) '
              'in between', m.path, H.lineno)
    # the hit is guarded by membership in the cache
    g = [t for t in cfg.nodes if t.kind == 'test' and pf.nsrc(t.ast) == f'{k} in self._cache' and af.every_path_uses_edge(cfg, H, t, 'T')]
    ctx.need(bool(g), f'{cons}: not guarded by `{k} in self._cache`')


def _r3_single_flight(ctx: Ctx, m: pf.Module, cls: ast.ClassDef, m0: pf.Module, cls0: ast.ClassDef, il) -> None:
    lk = af.method(m, cls, 'lookup')
    cfg = pf.cfg(lk)
    k = [a.arg for a in lk.args.args][1]
    regs = af.stmt_nodes(cfg, lambda n: n.kind == 'stmt' and isinstance(n.ast, ast.Assign) and any(
        isinstance(t, ast.Subscript) and pf.nsrc(t.value) == FUT for t in n.ast.targets))
    ctx.need(len(regs) >= 1, f'lookup: no registration `{FUT}[k] = ...` found')
    # every call of the loader is the task of a registration analysed below
    inreg = {id(c) for G in regs for c in ast.walk(G.ast) if isinstance(c, ast.Call)}
    loads = [c for c in pf.calls_in(lk, True) if pf.dotted(c.func) == 'self.load']
    free = [c for c in loads if id(c) not in inreg]
    ctx.check(bool(loads) and not free, 'R3', f'{F}::{CLS}::self.load only as a registered task', f'self.load is called at line {free[0].lineno if free else 0} outside a `{FUT}[k] = '
              'asyncio.create_task(self.load(k))` registration: that load is not shared with concurrent lookups of the key', m.path, lk.lineno)
    for st in cls0.body:
        if isinstance(st, (ast.FunctionDef, ast.AsyncFunctionDef)) and st.name != 'lookup' and not _only_from_lookup(m0, st.name, il):
            ctx.need(not [c for c in pf.calls_in(st, True) if pf.dotted(c.func) == 'self.load'], f'{CLS}.{st.name} calls self.load outside lookup (not analysed)')
    for G in regs:
        _r3_one(ctx, m, lk, cfg, k, G, len(regs))


def _r3_one(ctx: Ctx, m: pf.Module, lk: pf.FuncDef, cfg: pf.CFG, k: str, G: pf.Node, nregs: int) -> None:
    cons = f'{F}::{CLS}.lookup::{G.text()}'
    ctx.need(pf.nsrc(G.ast.targets[0].slice) == k, f'{cons}: registers under a different key')  # type: ignore[union-attr]
    val = G.ast.value  # type: ignore[union-attr]
    ok_task = isinstance(val, ast.Call) and pf.dotted(val.func) in ('asyncio.create_task', 'asyncio.ensure_future') and len(val.args) == 1 \
        and isinstance(val.args[0], ast.Call) and pf.dotted(val.args[0].func) == 'self.load' and [pf.nsrc(a) for a in val.args[0].args] == [k]
    ctx.need(ok_task, f'{cons}: registered value is not asyncio.create_task(self.load({k}))')
    cbs = [c for n in cfg.nodes if n.ast is not None for c in ast.walk(n.ast) if isinstance(c, ast.Call) and isinstance(c.func, ast.Attribute) and c.func.attr == 'add_done_callback'
           and pf.nsrc(c.func.value).startswith(FUT)]
    ctx.need(not cbs, f'{cons}: the registered task is completed through add_done_callback (deregistration outside the CFG of lookup: not analysed)')
    # guard: absent-edge of `k in self._futures`, atomically
    tests = [t for t in cfg.nodes if t.kind == 'test' and af.mentions(t.ast, FUT)]
    guard = None
    for t in tests:
        for lab in ('T', 'F'):
            if af.every_path_uses_edge(cfg, G, t, lab) and af.direct(cfg, t, G, lab) and af.implied_on_edge(t.ast, lab, f'{k} in {FUT}', False):
                guard = (t, lab)
    if guard is None:
        ctx.bad('R3', cons + '::guard', f'the load is registered without first finding `{k} in {FUT}` false: concurrent lookups of one key each start a load '
                '(and overwrite each other\'s registration)', m.path, G.lineno)
        af.blocked(ctx, 'R3', 'R3')
    else:
        t, lab = guard
        aw = [x for x in af.between(cfg, t, G, lab) if pf.node_has_await(x)]
        ctx.check(not aw, 'R3', cons + '::guard', f'`{aw[0].text() if aw else ""}` suspends between the `{k} in {FUT}` test and the registration: two lookups both '
                  'see "no load in flight" and both load', m.path, G.lineno, detail={'test': pf.nsrc(t.ast), 'edge': lab})
        # the other edge: no load started
        other = 'F' if lab == 'T' else 'T'
        starts = af.direct(cfg, t, G, other)
        ctx.check(not starts, 'R3', f'{F}::{CLS}.lookup::waiter starts no load', 'a lookup that finds a task in flight can still reach the registration and start another load',
                  m.path, t.lineno)
        # also atomic from the cache-miss decision
        miss = [x for x in cfg.nodes if x.kind == 'test' and pf.nsrc(x.ast) == f'{k} in self._cache']
        if miss:
            aw2 = [x for x in af.between(cfg, miss[0], G, 'F') if pf.node_has_await(x)]
            ctx.check(not aw2, 'R3', cons + '::atomic since miss', f'`{aw2[0].text() if aw2 else ""}` suspends between the cache-miss decision and the registration: '
                      'a load that completes in between is repeated', m.path, G.lineno)
    # removal on every exit
    dels = af.stmt_nodes(cfg, lambda n: (isinstance(n.ast, ast.Delete) and any(isinstance(t, ast.Subscript) and pf.nsrc(t.value) == FUT and pf.nsrc(t.slice) == k for t in n.ast.targets))
                         or ((c := af.node_is_call(n, f'{FUT}.pop')) is not None and c.args and pf.nsrc(c.args[0]) == k))
    consd = f'{F}::{CLS}.lookup::deregistration'
    leak = cfg.path_avoiding(G, lambda n: n is cfg.exit or n is cfg.raise_exit, lambda n: any(n is d for d in dels))
    ctx.check(bool(dels) and leak is None, 'R3', consd, 'some exit of the loader leaves the finished/failed task registered: later lookups of that key await the old task for ever '
              '(stale value after expiry, or the old error)' + (f' (via `{leak[-2].text()}`)' if leak and len(leak) > 1 else ''), m.path, G.lineno)
    # cancellation exits of the awaits after the registration
    for n in af.stmt_nodes(cfg, pf.node_has_await):
        if not af.direct(cfg, G, n):
            continue
        if dels and all(cfg.dominated_by(n, lambda x, d=d: x is d) for d in dels if af.direct(cfg, G, d)) and any(af.direct(cfg, d, n) for d in dels):
            continue  # after the deregistration
        for a in pf.walk_shallow(n.ast):
            if isinstance(a, ast.Await):
                blocks, _ = af.cancel_blocks(m, lk, a)
                cleaned = any(isinstance(s, ast.Delete) and any(isinstance(t, ast.Subscript) and pf.nsrc(t.value) == FUT for t in s.targets)
                              or (isinstance(s, ast.Call) and pf.dotted(s.func) == f'{FUT}.pop')
                              for _, b in blocks for st in b for s in ast.walk(st))
                ctx.check(cleaned, 'R3', consd + f'::on cancellation of `{pf.nsrc(a)}`',
                          'when the loader is cancelled at this await no finally/except removes the registration', m.path, a.lineno)


def _r4_shield(ctx: Ctx, m: pf.Module, cls: ast.ClassDef, m0: pf.Module, il) -> None:
    par = m.parents()
    n = 0
    for st in cls.body:
        if not isinstance(st, (ast.FunctionDef, ast.AsyncFunctionDef)):
            continue
        if st.name != 'lookup' and _only_from_lookup(m0, st.name, il):
            continue  # a helper with no other caller: its awaits are judged where they were inlined into lookup
        for a in pf.walk_shallow(st):
            if not isinstance(a, ast.Await):
                continue
            for x in ast.walk(a.value):
                if isinstance(x, ast.Subscript) and isinstance(x.ctx, ast.Load) and pf.nsrc(x.value) == FUT:
                    n += 1
                    cur = par.get(x)
                    shielded = False
                    while cur is not None and cur is not a:
                        if isinstance(cur, ast.Call) and pf.dotted(cur.func) in ('asyncio.shield', 'shield'):
                            shielded = True
                        cur = par.get(cur)
                    role = 'loader' if any(isinstance(w, ast.Assign) and any(isinstance(t, ast.Subscript) and pf.nsrc(t.value) == FUT for t in w.targets)
                                           for w in pf.walk_shallow(st)) and not isinstance(_stmt_of(m, st, a), ast.Return) else 'waiter'
                    cons = f'{F}::{CLS}.{st.name}::{pf.nsrc(a)}'
                    if role == 'waiter':
                        msg = (f'`{pf.nsrc(a)}` awaits the shared load task without asyncio.shield: if this waiting lookup is cancelled the await cancels the shared task, '
                               'so the loader and every other waiter get CancelledError although their load did not fail and they were not cancelled')
                    else:
                        msg = (f'`{pf.nsrc(a)}` awaits the shared load task without asyncio.shield: if the lookup that started the load is cancelled the task is cancelled '
                               'with it, and every concurrent lookup waiting on the same key gets CancelledError although it was not cancelled and its load did not fail')
                    ctx.check(shielded, 'R4', cons, msg, m.path, a.lineno)
    ctx.need(n >= 1, 'no await of a task read from _futures found (idiom not recognised)')


def _r5_auth(ctx: Ctx) -> None:
    m = pf.load(AU)
    par = m.parents()
    sites = [c for c in ast.walk(m.tree) if isinstance(c, ast.Call) and pf.dotted(c.func) == CLS]
    ctx.need(len(sites) >= 1, f'{AU}: no construction of {CLS}')
    cm = pf.load(F)
    init = af.method(cm, cm.cls(CLS), '__init__')
    pnames = [a.arg for a in init.args.args][1:]
    ctx.need(pnames == ['load', 'lifetime_ns', 'num_slots', 'cache_name'], f'{CLS}.__init__ parameters changed: {pnames}')
    attrs = []
    for c in sites:
        fn = m.enclosing_func(c)
        q = m.qualname(fn) if fn is not None else '<module>'
        bound: Dict[str, ast.AST] = dict(zip(pnames, c.args))
        for kw in c.keywords:
            if kw.arg:
                bound[kw.arg] = kw.value
        for pname in ('lifetime_ns', 'num_slots'):
            cons = f'{AU}::{q}::{CLS}({pname}={pf.nsrc(bound[pname]) if pname in bound else "?"})'
            ctx.need(pname in bound, f'{cons}: argument not passed')
            v = af.const_number(m, bound[pname])
            ctx.need(v is not None, f'{cons}: not a constant expression')
            ctx.check(v > 0 and v.denominator == 1, 'R5', cons, f'{pname} = {v}: the class asserts {pname} > 0 (the bound and freshness arguments need a positive '  # type: ignore[union-attr,operator]
                      f'integer)', m.path, c.lineno, detail={'value': int(v)})  # type: ignore[arg-type]
        p = par.get(c)
        if isinstance(p, ast.Assign) and len(p.targets) == 1 and isinstance(p.targets[0], ast.Attribute):
            attrs.append(p.targets[0].attr)
    ctx.need(attrs, f'{AU}: the cache is not stored in an attribute')
    for n in ast.walk(m.tree):
        if isinstance(n, ast.Attribute) and n.attr in attrs and isinstance(n.ctx, ast.Load):
            fn = m.enclosing_func(n)
            q = m.qualname(fn) if fn is not None else '<module>'
            p = par.get(n)
            cons = f'{AU}::{q}::{pf.nsrc(p) if p is not None else pf.nsrc(n)}'
            okuse = isinstance(p, ast.Attribute) and p.value is n and p.attr in ('lookup', 'shutdown') and isinstance(par.get(p), ast.Call) \
                and (p.attr != 'lookup' or isinstance(par.get(par[p]), ast.Await))
            ctx.check(okuse, 'R5', cons, f'`{pf.nsrc(p) if p is not None else pf.nsrc(n)}` uses the cache other than through `await ....lookup(k)`: internal maps are '
                      f'read/written without the expiry, capacity and single-flight logic', m.path, n.lineno)


def run(ctx: Ctx) -> None:
    ctx.explanation = ('Must-pass-through / dominance on the CFG of lookup with await-atomicity, truth tables of the capacity and expiry comparisons, agreement of the '
                       'three maps in _put/_remove, registration/deregistration analysis of the in-flight map including cancellation exits, and a closure over '
                       'every await of a shared task.')
    ctx.rule('R1', 'every insertion is followed atomically by capacity test + eviction; _put/_remove keep the three maps in step (and in key-function order); '
                   'no other mutation', 13)
    ctx.rule('R2', 'expiry = monotonic_ns + lifetime_ns; a cached value is returned only after, atomically, its expiry was compared with the same clock '
                   'and expired entries removed', 6)
    ctx.rule('R3', 'single flight: registration atomic after the in-flight test, one load call site, waiters start no load, registration removed on every exit', 6)
    ctx.rule('R4', 'every await of a task read from the shared _futures map is shielded', 1)
    ctx.rule('R5', 'gear/auth.py builds the cache with positive constant lifetime/capacity and only calls lookup', 3)
    ctx.assume('asyncio switches only at await; cancelling a coroutine that awaits a Task cancels that Task unless the await goes through asyncio.shield')
    ctx.assume('shutdown() is outside the property; the loader coroutine does not touch the cache')
    m = pf.load(F)
    cls = m.cls(CLS)
    ctx.unit('files', 2)
    # lookup is analysed with its same-class helpers inlined; the primitives the rules speak about stay calls
    mi, il = inline.inline_methods(m, CLS, 'lookup', exclude=PRIMS)
    clsi = mi.cls(CLS)
    ctx.unit('helpers_inlined_into_lookup', len(il.inlined))
    _r1_maps(ctx, m, cls)
    _r1_put_callers(ctx, m, cls, il)
    _r1_capacity(ctx, mi, clsi)
    _r2_fresh(ctx, mi, clsi)
    _r3_single_flight(ctx, mi, clsi, m, cls, il)
    _r4_shield(ctx, mi, clsi, m, il)
    _r5_auth(ctx)
    ctx.unit('functions', 8)
