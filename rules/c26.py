"""C26 Service cache is bounded, fresh and single-flight.

Decides from the syntax tree / CFG of gear/gear/time_limited_max_size_cache.py, gear/gear/auth.py and the JAR-cache site in
batch/front_end.py (nothing is run).  The class is analysed under the constructor options the two sites pass (constant propagation of
`self.<option>` into the methods, branches decided by the constants pruned); options that are not plain constants stay symbolic, i.e.
both branches are analysed.  `lookup` is analysed with its same-class helpers inlined; a coroutine that lookup registers as the shared
task (`self._futures[k] = asyncio.create_task(self.X(k))`) "runs later as a task" and is analysed as a second root for the insertion /
capacity / value obligations, while the registration frame keeps the deregistration obligation.
  R1 bounded   every `_put` (in lookup or in the task body) is followed, atomically and on every path, by the capacity test and (when over
               capacity) an eviction; `_over_capacity` is true whenever more than num_slots keys are held; `_evict_oldest` always removes one
               key; `_put` / `_remove` update the three maps together and in the order the SortedSet key function (reads _expiry_time)
               requires; no other method mutates the maps; the maps are per-instance (created in __init__); lookup files no per-key state that
               decides an outcome (branch / returned / raised value) in a table of its own unless `_remove` drops the key from it too
  R2 fresh     expiry = monotonic clock + lifetime_ns; the cached value is returned only after, atomically, the expiry of the same key
               was compared with the *same* clock and the expired entry removed; every value returned by lookup / stored by `_put` is the
               result of the awaited load (of this call or of the shared task) -- reaching definitions over all returns and `_put`s: a
               value read from `_cache` and carried in a local across the expiry removal or a suspension, a cached value re-`_put` with
               a fresh lifetime, or an exception object, is not
  R3 single    the load task is registered with no suspension point after the `k in self._futures` test (absent-edge), `self.load` is
               called only there (or awaited inside the registered task body), a lookup that finds a registered task starts no load, and
               the registration is removed on every exit (normal, error, cancellation) of the REGISTERING frame or by a done-callback
               attached before any suspension; a removal that lives only inside the registered task's own body does not run when the
               task is cancelled before its first step (possible whenever some await of the shared task is unshielded); the registering frame
               removes the registration NOT BEFORE the task has ended: every CFG path registration -> removal traverses the normal completion of
               an await of the task or the exceptional exit of an unshielded one (the exceptional exit of a shielded await -- caller cancelled,
               wait_for timeout -- or of a foreign suspension point leaves the task running, and unregistering it lets the next lookup load again)
  R4 isolation every `await` of a task read from the shared `_futures` map goes through asyncio.shield: otherwise cancelling one
               caller cancels the shared task and the other callers fail although neither their load failed nor they were cancelled
  R5 use site  gear/auth.py (session cache) and batch/front_end.py (JAR cache) build the cache with positive constant lifetime /
               capacity; auth.py only ever calls `.lookup` on it; constructor options are resolved per site
  R6 own fail  every `raise` statement of lookup (helpers inlined) / the task body is classified by the provenance of the raised object (reaching
               definitions, tuple unpacking, .get/[...] reads) and by what its guards read: a re-raise of the exception being handled is the
               lookup's own failure; an object read out of instance state that some method fills is a REMEMBERED failure; a fresh exception
               whose guard reads state written on the lookup path fails the lookup because of other lookups (circuit breaker, admission limit);
               the shutdown guard (state written only off the lookup path) is outside the property; anything else is declined
Does not decide: which entry is evicted (any one suffices for the bound), behaviour during shutdown(), the loader's own errors.
"""
from __future__ import annotations

import ast
from typing import Any, Dict, List, Optional, Set, Tuple

from engines import asyncfacts as af
from engines import c2426facts as cf
from engines import inline
from engines import pyfacts as pf
from engines.common import AnalysisError, Ctx

META = dict(
    category='other',
    text='Structural necessary conditions decided on the CFG: must-pass-through from each insertion to the capacity test/eviction with '
         'await-atomicity, table evaluation of the capacity and expiry comparisons over the order relation, writer/writer agreement of the three '
         'maps and of the clock used by writer and reader, reaching-definition provenance of every returned / stored value, single-flight '
         'registration atomicity and removal on every exit of the registering frame (incl. the set of finally/except blocks that run on '
         'CancelledError, done-callbacks, the never-started-task case for removals inside the task body, and registration-lifetime >= task-lifetime on the '
         'exceptional exits of shielded awaits), provenance of every raised object and of the state its guards read, a syntactic closure over every '
         'await of a shared task, constant propagation of the constructor options used at the session / JAR sites.  Not a proof over schedules.',
    note='Trusted: CPython ast; engines/pyfacts CFG; asyncio switches only at await; awaiting a Task from a cancelled coroutine cancels that Task '
         'unless wrapped in asyncio.shield; a Task cancelled before its first step never runs its body. Not decided: eviction policy, shutdown().',
    technique='static analysis: CFG must-pass/dominance + await-atomicity + cancellation-exit analysis + reaching definitions + constant propagation + finite truth tables',
    design_ref='DESIGN.md §3 C26, §4 F4',
)

F = 'gear/gear/time_limited_max_size_cache.py'
AU = 'gear/gear/auth.py'
JAR = 'batch/batch/front_end/front_end.py'
CLS = 'TimeLimitedMaxSizeCache'
MAPS = ('self._cache', 'self._expiry_time', 'self._keys_by_expiry')
FUT = 'self._futures'
CLOCK_OK = ('time.monotonic_ns',)
PRIMS = ('_put', '_remove', '_evict_oldest', '_over_capacity', 'shutdown', '__init__')
BASE_PARAMS = ['load', 'lifetime_ns', 'num_slots', 'cache_name']
TASK_MAKERS = ('asyncio.create_task', 'asyncio.ensure_future')


class _Sfx:
    """ctx proxy that marks the constructs of a second option configuration"""

    def __init__(self, ctx: Ctx, sfx: str):
        self._ctx, self._sfx = ctx, sfx

    def __getattr__(self, name: str) -> Any:
        return getattr(self._ctx, name)

    def ok(self, rule, construct, detail=None, nontrivial=True):
        return self._ctx.ok(rule, construct + self._sfx, detail, nontrivial)

    def bad(self, rule, construct, message, file='', line=0, extra=None):
        if any(f.rule == rule and f.construct == construct for f in self._ctx.findings):
            return None  # the same construct already fails under the first configuration: one report
        return self._ctx.bad(rule, construct + self._sfx, message + self._sfx, file, line, extra)

    def check(self, cond, rule, construct, message, file='', line=0, detail=None, extra=None):
        if cond:
            self.ok(rule, construct, detail)
        else:
            self.bad(rule, construct, message, file, line, extra)
        return bool(cond)


class Body:
    """A coroutine method registered by lookup as the shared task."""

    def __init__(self, name: str, m: pf.Module, fn: pf.FuncDef, il):
        self.name, self.m, self.fn, self.il = name, m, fn, il
        self.cfg = pf.cfg(fn)
        self.k = fn.args.args[1].arg


class View:
    def __init__(self) -> None:
        self.m: pf.Module = None  # type: ignore[assignment]
        self.cls: ast.ClassDef = None  # type: ignore[assignment]
        self.mi: pf.Module = None  # type: ignore[assignment]
        self.clsi: ast.ClassDef = None  # type: ignore[assignment]
        self.il: Any = None
        self.lk: pf.FuncDef = None  # type: ignore[assignment]
        self.cfg: pf.CFG = None  # type: ignore[assignment]
        self.k = 'k'
        self.bodies: Dict[str, Body] = {}
        self.absorbed: Set[str] = set()
        self.deferred: List[str] = []

    def roots(self) -> List[Tuple[str, pf.Module, pf.FuncDef, pf.CFG, str]]:
        return [('lookup', self.mi, self.lk, self.cfg, self.k)] + [(b.name, b.m, b.fn, b.cfg, b.k) for b in self.bodies.values()]


def _is_fut_store(t: ast.AST) -> bool:
    return isinstance(t, ast.Subscript) and pf.nsrc(t.value) == FUT


def _regs(cfg: pf.CFG) -> List[pf.Node]:
    return af.stmt_nodes(cfg, lambda n: n.kind == 'stmt' and isinstance(n.ast, ast.Assign) and any(_is_fut_store(t) for t in n.ast.targets))


def _task_call(fn: pf.FuncDef, G: pf.Node) -> Optional[ast.Call]:
    """the coroutine call C in `self._futures[k] = asyncio.create_task(C)` (the task may go through a single-definition local)"""
    val = pf.resolve_expr(fn, G.ast.value)  # type: ignore[union-attr]
    if isinstance(val, ast.Call) and pf.dotted(val.func) in TASK_MAKERS and len(val.args) == 1 and isinstance(val.args[0], ast.Call):
        return val.args[0]
    return None


def _self_refs(node: ast.AST, name: str) -> List[ast.Attribute]:
    return [x for x in ast.walk(node) if isinstance(x, ast.Attribute) and x.attr == name and isinstance(x.value, ast.Name) and x.value.id == 'self'
            and isinstance(x.ctx, ast.Load)]


def _view(ctx: Ctx, m: pf.Module) -> View:
    v = View()
    v.m, v.cls = m, m.cls(CLS)
    # lookup is analysed with its same-class helpers inlined; the primitives the rules speak about stay calls
    v.mi, v.il = inline.inline_methods(m, CLS, 'lookup', exclude=PRIMS)
    v.clsi = v.mi.cls(CLS)
    v.lk = af.method(v.mi, v.clsi, 'lookup')
    ctx.need(len(v.lk.args.args) == 2, 'lookup parameters changed')
    v.k = v.lk.args.args[1].arg
    v.cfg = pf.cfg(v.lk)
    methods = {f.name: f for f in v.cls.body if isinstance(f, (ast.FunctionDef, ast.AsyncFunctionDef))}
    for G in _regs(v.cfg):
        tc = _task_call(v.lk, G)
        d = pf.dotted(tc.func) if tc is not None else None
        if d and d.startswith('self.') and d != 'self.load' and d[5:] in methods and d[5:] not in v.bodies:
            X = d[5:]
            ctx.need(isinstance(methods[X], ast.AsyncFunctionDef) and X not in PRIMS and X != 'lookup' and not methods[X].decorator_list,
                     f'lookup registers `{pf.nsrc(tc)}` as the shared task: not a plain coroutine method')
            mx, ilx = inline.inline_methods(m, CLS, X, exclude=PRIMS + ('lookup',))
            fx = af.method(mx, mx.cls(CLS), X)
            ctx.need(len(fx.args.args) == 2 and not fx.args.kwonlyargs and not fx.args.vararg and not fx.args.kwarg, f'{CLS}.{X}: task body does not take exactly the key')
            ctx.need(tc is not None and [pf.nsrc(a) for a in tc.args] == [v.k] and not tc.keywords, f'lookup registers `{pf.nsrc(tc)}`: the task body is not started for the key `{v.k}`')
            v.bodies[X] = Body(X, mx, fx, ilx)
    # helpers that have no life of their own: every reference was expanded into a root (lookup / a task body)
    roots = {'lookup': (v.lk, v.il)}
    roots.update({b.name: (b.fn, b.il) for b in v.bodies.values()})
    inl: Set[str] = set()
    skipped: Set[str] = set()
    for _, il in roots.values():
        inl |= {n for n, _ in il.inlined}
        skipped |= {n for n, _, _ in il.skipped}
    cand = {h for h in inl - skipped if h not in PRIMS and h not in roots and not any(_self_refs(fn, h) for fn, _ in roots.values())}
    refs = {h: {f.name for f in methods.values() if _self_refs(f, h)} for h in cand}
    changed = True
    while changed:
        changed = False
        for h in cand - v.absorbed:
            if refs[h] and all(r in roots or r in v.absorbed for r in refs[h]):
                v.absorbed.add(h)
                changed = True
    # a task body is only ever started by lookup's registration
    for X in v.bodies:
        users = {f.name for f in methods.values() if _self_refs(f, X)}
        ctx.need(all(u == 'lookup' or u in v.absorbed for u in users), f'{CLS}.{X} is also referenced outside lookup ({sorted(users)}): not analysed')
        started = {id(tc.func) for G in _regs(v.cfg) for tc in [_task_call(v.lk, G)] if tc is not None}
        ctx.need(all(id(r) in started for r in _self_refs(v.lk, X)), f'{CLS}.{X} is used in lookup other than as the registered task: not analysed')
    return v


def _map_writes(m: pf.Module, fn: pf.FuncDef) -> List[Tuple[str, str, str, ast.AST]]:
    """(map, op, key-src, stmt) for every mutation of one of the three maps / _futures in fn, in source order."""
    out = []
    for st in pf.walk_shallow(fn):
        if isinstance(st, ast.Assign):
            for t in st.targets:
                if isinstance(t, ast.Subscript) and pf.nsrc(t.value) in MAPS + (FUT,):
                    out.append((pf.nsrc(t.value), 'set', pf.nsrc(t.slice), st))
                elif isinstance(t, ast.Attribute) and pf.nsrc(t) in MAPS + (FUT,):
                    out.append((pf.nsrc(t), 'rebind', '', st))
        elif isinstance(st, ast.Delete):
            for t in st.targets:
                if isinstance(t, ast.Subscript) and pf.nsrc(t.value) in MAPS + (FUT,):
                    out.append((pf.nsrc(t.value), 'del', pf.nsrc(t.slice), st))
        elif isinstance(st, ast.Call) and isinstance(st.func, ast.Attribute) and pf.nsrc(st.func.value) in MAPS + (FUT,):
            meth = st.func.attr
            if meth in ('add', 'remove', 'discard', 'pop', 'clear', 'update', 'popitem', 'setdefault', '__setitem__', '__delitem__'):
                out.append((pf.nsrc(st.func.value), meth, pf.nsrc(st.args[0]) if st.args else '', st))
    out.sort(key=lambda x: (getattr(x[3], 'lineno', 0), getattr(x[3], 'col_offset', 0)))
    return out


def _stmt_of(m: pf.Module, fn: pf.FuncDef, node: ast.AST) -> ast.stmt:
    par = m.parents()
    cur = node
    while not isinstance(cur, ast.stmt):
        cur = par[cur]
    return cur


def _top_level_unconditional(fn: pf.FuncDef, st: ast.AST, m: pf.Module) -> bool:
    s = _stmt_of(m, fn, st)
    return any(s is x for x in fn.body)


def _r1_maps(ctx: Ctx, m: pf.Module, cls: ast.ClassDef) -> None:
    # key function of the SortedSet
    init = af.method(m, cls, '__init__')
    kdef = [st for st in init.body if isinstance(st, ast.Assign) and pf.nsrc(st.targets[0]) == 'self._keys_by_expiry']
    ctx.need(len(kdef) == 1 and isinstance(kdef[0].value, ast.Call), '__init__: _keys_by_expiry is not built by one constructor call')
    kcall = kdef[0].value
    ctx.need(pf.dotted(kcall.func) in ('sortedcontainers.SortedSet', 'SortedSet'), f'_keys_by_expiry is `{pf.nsrc(kcall)}`, not a SortedSet')
    keyf = [k.value for k in kcall.keywords if k.arg == 'key']
    ctx.need(len(keyf) == 1 and isinstance(keyf[0], ast.Lambda) and len(keyf[0].args.args) == 1, 'SortedSet key is not a one-argument lambda')
    lam = keyf[0]
    reads_expiry = pf.nsrc(lam.body) == f'self._expiry_time[{lam.args.args[0].arg}]'
    ctx.need(reads_expiry, f'SortedSet key function `{pf.nsrc(lam)}` does not read self._expiry_time[k] (ordering by expiry not recognised)')

    # the maps belong to the instance: created empty in __init__, not shared through a mutable class attribute
    for mp in ('_futures', '_cache', '_expiry_time'):
        own = [st for st in init.body if isinstance(st, (ast.Assign, ast.AnnAssign)) and st.value is not None
               and any(pf.nsrc(t) == f'self.{mp}' for t in (st.targets if isinstance(st, ast.Assign) else [st.target]))]
        fresh = [st for st in own if (isinstance(st.value, ast.Dict) and not st.value.keys) or (isinstance(st.value, ast.Call) and pf.dotted(st.value.func) in ('dict', 'collections.OrderedDict', 'OrderedDict')
                                                                                              and not st.value.args and not st.value.keywords)]
        shared = [st for st in cls.body if isinstance(st, (ast.Assign, ast.AnnAssign)) and getattr(st, 'value', None) is not None
                  and any(isinstance(t, ast.Name) and t.id == mp for t in (st.targets if isinstance(st, ast.Assign) else [st.target]))]
        cons = f'{F}::{CLS}::self.{mp} is per instance'
        if fresh and len(own) == len(fresh):
            ctx.ok('R1', cons, 'fresh dict in __init__')
        elif not own and shared:
            ctx.bad('R1', cons, f'`{pf.nsrc(shared[0])}` is a mutable class attribute and __init__ does not create a dict of its own: every {CLS} of the process '
                    '(session cache, JAR cache, k8s caches) shares it, so one cache serves/evicts the other\'s entries, the shared dict holds up to the SUM of the '
                    'capacities and a key collision returns a value loaded by a different loader', m.path, getattr(shared[0], 'lineno', 0))
        else:
            raise AnalysisError(f'{cons}: not initialised with an empty dict in __init__ (found {[pf.nsrc(s) for s in own + shared]})')

    put = af.method(m, cls, '_put')
    rem = af.method(m, cls, '_remove')
    kp = [a.arg for a in put.args.args]
    kr = [a.arg for a in rem.args.args]
    ctx.need(len(kp) == 3 and len(kr) == 2, f'_put/_remove parameters changed: {kp} {kr}')
    for fn, key, want, label in ((put, kp[1], {'self._cache': ('set',), 'self._expiry_time': ('set',), 'self._keys_by_expiry': ('add',)}, 'adds'),
                                 (rem, kr[1], {'self._cache': ('del', 'pop'), 'self._expiry_time': ('del', 'pop'), 'self._keys_by_expiry': ('remove', 'discard')}, 'removes')):
        ws = _map_writes(m, fn)
        for mp, ops in want.items():
            hit = [w for w in ws if w[0] == mp and w[1] in ops and w[2] == key and _top_level_unconditional(fn, w[3], m)]
            cons = f'{F}::{CLS}.{fn.name}::{mp}'
            ctx.check(len(hit) == 1, 'R1', cons, f'{fn.name} does not unconditionally {label[:-1]} key `{key}` {"to" if fn is put else "from"} {mp} exactly once '
                      f'(found {[pf.nsrc(w[3]) for w in ws if w[0] == mp]}): the three maps drift apart, so the size test / the expiry test no longer '
                      f'cover what lookup returns', m.path, fn.lineno)
        extra = [w for w in ws if not (w[0] in want and w[1] in want[w[0]] and w[2] == key)]
        ctx.need(not extra, f'{CLS}.{fn.name}: unrecognised map mutation `{pf.nsrc(extra[0][3])}`' if extra else '')
        # order imposed by the key function
        pos = {w[0]: i for i, w in enumerate(ws) if w[0] in want}
        if len(pos) == 3:
            if fn is put:
                ok = pos['self._expiry_time'] < pos['self._keys_by_expiry']
                msg = 'adds the key to the SortedSet before its expiry time is stored: the key function reads self._expiry_time[k] (KeyError / sorted by a stale time)'
            else:
                ok = pos['self._keys_by_expiry'] < pos['self._expiry_time']
                msg = 'deletes the expiry time before removing the key from the SortedSet: the removal evaluates the key function on a deleted entry (KeyError), the lookup fails'
            ctx.check(ok, 'R1', f'{F}::{CLS}.{fn.name}::order', f'{fn.name} {msg}', m.path, fn.lineno)
    # no other method mutates the maps
    for st in cls.body:
        if isinstance(st, (ast.FunctionDef, ast.AsyncFunctionDef)) and st.name not in ('__init__', '_put', '_remove'):
            ws = [w for w in _map_writes(m, st) if w[0] in MAPS]
            ctx.check(not ws, 'R1', f'{F}::{CLS}.{st.name}::no direct map mutation',
                      f'`{pf.nsrc(ws[0][3])}` mutates a cache map outside _put/_remove: the maps can drift apart (and an expiry time rewritten in place keeps a value '
                      f'alive beyond lifetime_ns since its load)' if ws else '', m.path, st.lineno)


def _r1_capacity(ctx: Ctx, v: View) -> None:
    m, cls = v.mi, v.clsi
    oc = af.method(m, cls, '_over_capacity')
    body = af.body_no_doc(oc)
    ctx.need(len(body) == 1 and isinstance(body[0], ast.Return) and body[0].value is not None, '_over_capacity is not a single return')
    e = body[0].value
    sized = [mp for mp in MAPS if af.mentions(e, f'len({mp})')]
    ctx.need(len(sized) == 1, f'_over_capacity `{pf.nsrc(e)}` does not measure exactly one of the cache maps')
    ctx.need(isinstance(e, ast.Compare), f'_over_capacity `{pf.nsrc(e)}` is not a comparison')
    nz = af.compare_leq_zero(e, {f'len({sized[0]})': 'n', 'self.num_slots': 'S'})
    ctx.need(nz is not None, f'_over_capacity `{pf.nsrc(e)}` is not a linear comparison of len({sized[0]}) with self.num_slots')
    d, strict = nz  # type: ignore[misc]
    a, b, c = d.get('n', 0), d.get('S', 0), d.get('1', 0)
    ctx.need(set(d) <= {'n', 'S', '1'} and a != 0, f'_over_capacity `{pf.nsrc(e)}`: unrecognised linear form {af.lin_str(d)}')
    # condition  a*n + b*S + c  (< | <=) 0  must hold whenever n >= S + 1 (integers), for every S
    holds = a < 0 and a + b == 0 and ((a + c < 0) if strict else (a + c <= 0))
    ctx.check(holds, 'R1', f'{F}::{CLS}._over_capacity', f'`{pf.nsrc(e)}` (i.e. {af.lin_str(d)} {"<" if strict else "<="} 0) is false for len = num_slots + 1: '
              f'the insertion that exceeds the capacity is not compensated and the cache holds more than num_slots entries', m.path, oc.lineno,
              detail={'test': pf.nsrc(e)})
    eo = af.method(m, cls, '_evict_oldest')
    cfg = pf.cfg(eo)
    rm = af.stmt_nodes(cfg, lambda n: af.node_is_call(n, 'self._remove') is not None)
    ok = len(rm) == 1 and cfg.dominated_by(cfg.exit, lambda n: n is rm[0])
    ctx.check(ok, 'R1', f'{F}::{CLS}._evict_oldest', '_evict_oldest does not unconditionally remove one key: an insertion over capacity is not compensated',
              m.path, eo.lineno)
    if ok:
        c = af.node_is_call(rm[0], 'self._remove')
        arg = pf.resolve_expr(eo, c.args[0]) if c is not None and c.args else None
        held = isinstance(arg, ast.Subscript) and pf.nsrc(arg.value) in MAPS
        ctx.need(held, f'_evict_oldest removes `{pf.nsrc(arg) if arg is not None else "?"}`, not a key read from the cache maps')

    n = 0
    for name, mm, fn, fcfg, _ in v.roots():
        puts = af.stmt_nodes(fcfg, lambda x: af.node_is_call(x, 'self._put') is not None)
        n += len(puts)
        _capacity_after_puts(ctx, mm, name, fcfg, puts)
    ctx.need(n >= 1, 'neither lookup nor the task it registers calls _put (directly or through an inlinable helper)')


def _capacity_after_puts(ctx: Ctx, m: pf.Module, fname: str, cfg: pf.CFG, puts: List[pf.Node]) -> None:
    for P in puts:
        cons = f'{F}::{CLS}.{fname}::{P.text()}'
        pc = af.node_is_call(P, 'self._put')
        if pc is not None and pc.args and _removes_first(cfg, P, pf.nsrc(pc.args[0]), absent_edges=False):
            ctx.ok('R1', cons, 'replaces the entry it has just removed: the number of entries does not grow')
            continue
        tests = [t for t in cfg.nodes if t.kind == 'test' and af.mentions(t.ast, 'self._over_capacity()')]
        evs = af.stmt_nodes(cfg, lambda n: af.node_is_call(n, 'self._evict_oldest') is not None)
        verdict = None
        for t in tests:
            for lab in ('T', 'F'):
                if af.implied_on_edge(t.ast, 'T' if lab == 'F' else 'F', 'self._over_capacity()', False) and \
                        af.must_pass(cfg, P, lambda n: n is cfg.exit, lambda n: n is t) is None and \
                        evs and af.must_pass(cfg, t, lambda n: n is cfg.exit, lambda n: any(n is x for x in evs), first_label=lab) is None:
                    verdict = (t, lab)
        if verdict is None:
            ctx.bad('R1', cons, 'after the insertion some path returns without `if self._over_capacity(): self._evict_oldest()`: each such lookup leaves one '
                    'more entry than num_slots in the cache', m.path, P.lineno)
            continue
        region = [cfg.nodes[i] for i in cfg.reachable_from(P) if cfg.nodes[i] is not P]
        aw = [x for x in region if pf.node_has_await(x)]
        ctx.check(not aw, 'R1', cons, f'`{aw[0].text() if aw else ""}` suspends between the insertion and the eviction: other lookups observe (and add to) an '
                  f'over-full cache', m.path, P.lineno, detail={'test': pf.nsrc(verdict[0].ast)})


def _removes_first(cfg: pf.CFG, node: pf.Node, key: str, absent_edges: bool = True) -> bool:
    """Forward must-analysis: on every path to `node` the last relevant event is `self._remove(key)` or the absent edge of a
    membership test of `key` in one of the three maps, with no suspension and no insertion afterwards."""
    def is_rm(n: pf.Node) -> bool:
        c = af.node_is_call(n, 'self._remove')
        return c is not None and [pf.nsrc(a) for a in c.args] == [key]
    preds: Dict[int, List[Tuple[pf.Node, str]]] = {}
    for a in cfg.nodes:
        for b, lab in a.succ:
            preds.setdefault(b.id, []).append((a, lab))
    out: Dict[int, bool] = {n.id: True for n in cfg.nodes}  # optimistic start, greatest fixpoint
    out[cfg.entry.id] = False

    def edge_val(a: pf.Node, lab: str) -> bool:
        if absent_edges and a.kind == 'test' and lab in ('T', 'F') and any(cf.implied(a.ast, lab, f'{key} in {mp}', False) for mp in MAPS):
            return True
        return out[a.id]
    changed = True
    while changed:
        changed = False
        for n in cfg.nodes:
            if n is cfg.entry:
                continue
            ps = preds.get(n.id, [])
            inn = bool(ps) and all(edge_val(a, lab) for a, lab in ps)
            if is_rm(n):
                val = True
            elif pf.node_has_await(n) or (n.ast is not None and n.kind != 'test' and any(pf.dotted(c.func) == 'self._put' for c in pf.node_calls(n))):
                val = False
            else:
                val = inn
            if n is node:
                val = inn  # the state in which the insertion itself runs
            if val != out[n.id]:
                out[n.id] = val
                changed = True
    return out[node.id]


def _on_loader_path(v: View, name: str) -> bool:
    return name == 'lookup' or name in v.bodies or name in v.absorbed


def _r1_put_callers(ctx: Ctx, v: View) -> None:
    """who-may-call `_put`: `_keys_by_expiry.add(k)` is a no-op for a key that is already filed, which would stay filed under its old expiry
    (SortedSet caches the key function's value).  `_put` is therefore only sound where the key is absent from the index: on lookup's loader
    path (absent at the miss decision, single flight keeps it absent; the registered task body is part of that path), or right after removing it."""
    m, cls = v.m, v.cls
    put = af.method(m, cls, '_put')
    kp = put.args.args[1].arg
    pcfg = pf.cfg(put)
    adds = af.stmt_nodes(pcfg, lambda n: af.node_is_call(n, 'self._keys_by_expiry.add') is not None)
    ctx.need(len(adds) == 1, '_put: index insertion not found')

    self_guarded = _removes_first(pcfg, adds[0], kp)
    funcs = [(q, fn) for q, fn in m.functions() if q.startswith(CLS + '.')]

    def sites(name: str):
        return [(q, fn, c) for q, fn in funcs for c in pf.calls_in(fn, False) if pf.dotted(c.func) == f'self.{name}']
    n = 0
    for q, fn, c in sites('_put'):
        n += 1
        parts = q.split('.')
        cons = f'{F}::{q}::{pf.nsrc(c)}'
        if self_guarded:
            ctx.ok('R1', cons + '::key absent', '_put removes an existing entry first')
            continue
        fcfg = pf.cfg(fn)
        nodes = [x for x in fcfg.nodes if x.ast is not None and any(y is c for y in ast.walk(x.ast)) and x.kind != 'def']
        key = pf.nsrc(c.args[0]) if c.args else '?'
        if len(parts) == 2 and _on_loader_path(v, parts[1]):
            # absent at the miss decision -- unless this very frame read the key's entry as still present before (a hit that re-inserts)
            ctx.ok('R1', cons + '::key absent', 'on lookup\'s loader path (analysed inlined)' if parts[1] not in v.bodies else 'in the task body registered by lookup on a miss')
            continue
        ok = bool(nodes) and all(_removes_first(fcfg, x, key) for x in nodes)
        ctx.check(ok, 'R1', cons + '::key absent', f'`{pf.nsrc(c)}` in {q} can run while `{key}` is still filed in the expiry index: SortedSet.add is a no-op for a member, so the key '
                  'stays filed under its old expiry while _expiry_time changes; the next _remove/_evict_oldest of it raises, eviction stops working (unbounded growth) and lookups '
                  'of unrelated keys fail', m.path, c.lineno)
        if ok and nodes:
            _capacity_after_puts(ctx, m, q.split('.', 1)[1], fcfg, nodes)
    ctx.need(n >= 1, '_put is never called')
    # on the loader path itself: a `_put` that is reachable from the HIT side of the `k in self._cache` test re-files a key that is still filed
    cfg, k = v.cfg, v.k
    hits = [t for t in cfg.nodes if t.kind == 'test' and pf.nsrc(t.ast) == f'{k} in self._cache']
    for P in af.stmt_nodes(cfg, lambda x: (c := af.node_is_call(x, 'self._put')) is not None and bool(c.args) and pf.nsrc(c.args[0]) == k):
        for t in hits:
            if af.direct(cfg, t, P, 'T') and not _removes_first(cfg, P, k):
                ctx.bad('R1', f'{F}::{CLS}.lookup::{P.text()}::key absent', f'`{P.text()}` is reachable from the hit side of `{k} in self._cache` without removing `{k}` first: '
                        'SortedSet.add is a no-op for a member, the key stays filed under its old expiry while _expiry_time changes; the next _remove/_evict_oldest of it raises '
                        'and eviction stops working', v.mi.path, P.lineno)
                break


def _r2_fresh(ctx: Ctx, v: View) -> Optional[Tuple[pf.Node, str, pf.Node]]:
    """returns (expiry test node, label of the edge that removes the expired entry) when recognised"""
    m, cls = v.mi, v.clsi
    put = af.method(m, cls, '_put')
    ws = [w for w in _map_writes(m, put) if w[0] == 'self._expiry_time' and w[1] == 'set']
    ctx.need(len(ws) == 1, '_put: expiry write not found')
    val = pf.resolve_expr(put, ws[0][3].value)  # type: ignore[attr-defined]
    clocks = [c for c in ast.walk(val) if isinstance(c, ast.Call) and (pf.dotted(c.func) or '').startswith('time.')]
    ctx.need(len(clocks) == 1, f'_put: expiry `{pf.nsrc(val)}` does not read exactly one clock')
    clock_src = pf.nsrc(clocks[0])
    lin = af.linear(val, {clock_src: 'clock', 'self.lifetime_ns': 'L'})
    cons = f'{F}::{CLS}._put::expiry `{pf.nsrc(val)}`'
    ctx.need(lin is not None, f'{cons}: not linear in clock / lifetime_ns')
    ctx.check(lin == {'clock': 1, 'L': 1}, 'R2', cons, f'expiry is {af.lin_str(lin)}, not clock + lifetime_ns: entries outlive (or never reach) their lifetime',  # type: ignore[arg-type]
              m.path, put.lineno)
    ctx.check(pf.dotted(clocks[0].func) in CLOCK_OK, 'R2', f'{F}::{CLS}._put::clock', f'expiry uses `{clock_src}`, whose unit/epoch does not match lifetime_ns '
              f'(a monotonic nanosecond clock is required)', m.path, put.lineno)

    lk, cfg, k = v.lk, v.cfg, v.k
    hits = af.stmt_nodes(cfg, lambda n: n.kind == 'return' and n.ast.value is not None and any(
        isinstance(x, ast.Subscript) and pf.nsrc(x.value) == 'self._cache' for x in ast.walk(n.ast.value)))
    if not hits:
        # the hit read through a local: `hit = self._cache[k]; ...; return hit` (the flow from the read to the return is judged by the provenance rule)
        hits = af.stmt_nodes(cfg, lambda n: n.kind == 'stmt' and isinstance(n.ast, ast.Assign) and len(n.ast.targets) == 1 and isinstance(n.ast.targets[0], ast.Name)
                             and isinstance(n.ast.value, ast.Subscript) and pf.nsrc(n.ast.value.value) == 'self._cache')
    ctx.need(len(hits) == 1, f'lookup: expected one return of a cached value, found {len(hits)}')
    H = hits[0]
    cons = f'{F}::{CLS}.lookup::{H.text()}'
    ctx.need(pf.nsrc(H.ast.value) == f'self._cache[{k}]', f'{cons}: returns a cached value for a different key')  # type: ignore[union-attr]
    # membership test on the expiry map (or cache map) dominating the hit
    exp_src = f'self._expiry_time[{k}]'
    # tests are read through single-definition locals (`left = self._expiry_time[k] - time.monotonic_ns(); if left <= 0:`)
    rexp = {t.id: pf.expand_locals(lk, t.ast) for t in cfg.nodes if t.kind == 'test'}
    xs = [t for t in cfg.nodes if t.kind == 'test' and af.mentions(rexp[t.id], exp_src)]
    if not xs:
        ctx.bad('R2', cons, 'the cached value is returned without comparing its expiry time with the clock: values older than lifetime_ns are served', m.path, H.lineno)
        af.blocked(ctx, 'R2', 'R2')
        return None
    ctx.need(len(xs) == 1, f'lookup: {len(xs)} tests read {exp_src}')
    X = xs[0]
    Xe = rexp[X.id]
    cl = [c for c in ast.walk(Xe) if isinstance(c, ast.Call) and (pf.dotted(c.func) or '').startswith('time.')]
    ctx.need(len(cl) == 1, f'lookup: expiry test `{pf.nsrc(Xe)}` does not read exactly one clock')
    ctx.check(pf.nsrc(cl[0]) == clock_src, 'R2', f'{F}::{CLS}.lookup::same clock', f'lookup compares the expiry with `{pf.nsrc(cl[0])}` but _put computes it from '
              f'`{clock_src}`: the comparison is meaningless', m.path, X.lineno)
    rms = af.stmt_nodes(cfg, lambda n: (c := af.node_is_call(n, 'self._remove')) is not None and [pf.nsrc(a) for a in c.args] == [k])
    lab = None
    for cand in ('T', 'F'):
        if rms and af.must_pass(cfg, X, lambda n: n is H, lambda n: any(n is r for r in rms), first_label=cand) is None and af.direct(cfg, X, rms[0], cand):
            lab = cand
    consx = f'{F}::{CLS}.lookup::expiry test `{pf.nsrc(Xe)}`'
    if lab is None:
        ctx.bad('R2', consx, f'no branch of the expiry test removes the entry before the hit test: an expired value is still returned by `{H.text()}`', m.path, X.lineno)
        af.blocked(ctx, 'R2', 'R2')
        return None
    if isinstance(Xe, ast.Compare):
        # an expiry test with a grace term:  expiry + c <= now  removes only entries that are more than c past their expiry
        nzg = af.compare_leq_zero(Xe, {exp_src: 'E', pf.nsrc(cl[0]): 'N', 'self.lifetime_ns': 'Lt'})
        if nzg is not None and set(nzg[0]) <= {'E', 'N', 'Lt', '1'} and set(nzg[0]) - {'E', 'N'}:
            dg = nzg[0]
            sign = 1 if lab == 'T' else -1
            if dg.get('E', 0) == sign and dg.get('N', 0) == -sign:
                slack = [sign * dg.get('1', 0), sign * dg.get('Lt', 0)]
                if all(x >= 0 for x in slack) and any(x > 0 for x in slack):
                    ctx.bad('R2', consx, f'the expired entry is removed only when {af.lin_str(dg)} {"<" if nzg[1] else "<="} 0 is {lab == "T"}: an entry is still served '
                            f'{"for " + str(slack[0]) + " ns" if slack[0] else ""}{" and " if slack[0] and slack[1] else ""}{"for " + str(slack[1]) + " lifetimes" if slack[1] else ""} after its '
                            f'expiry time, i.e. a value older than lifetime_ns is returned', m.path, X.lineno)
                    af.blocked(ctx, 'R2', 'R2')
                    return None
    ev = af.TestEval(exp_src, pf.nsrc(cl[0]), [])
    rows = ev.rows(Xe)
    stale = [r for r in rows if r[0] == '<' and r[2] != (lab == 'T')]
    ctx.check(not stale, 'R2', consx, f'an entry whose expiry time is before the current clock value is not removed (branch {lab} removes, but the test is '
              f'{stale[0][2] if stale else ""} for expiry < now): a value older than its lifetime is returned', m.path, X.lineno)
    if Xe is not X.ast:
        # the comparison was read through locals: their definitions must not be separated from the test by a suspension
        defs = [n for n in cfg.nodes if n.kind == 'stmt' and isinstance(n.ast, ast.Assign) and any(isinstance(t2, ast.Name) and t2.id in pf.names_in(X.ast) for t2 in n.ast.targets)]
        ctx.need(bool(defs), f'{consx}: definitions of the locals not found')
        st_aw = [x for d in defs for x in af.between(cfg, d, X) if pf.node_has_await(x)]
        ctx.check(not st_aw, 'R2', consx + '::clock read fresh', f'`{st_aw[0].text() if st_aw else ""}` suspends between reading the clock/expiry into a local and testing it', m.path, X.lineno)
    # every path to the hit evaluates the expiry test, unless the key has no expiry entry at all
    ms = [t for t in cfg.nodes if t.kind == 'test' and pf.nsrc(t.ast) in (f'{k} in self._expiry_time', f'{k} in self._cache', f'{k} in self._keys_by_expiry')
          and af.direct(cfg, t, X, 'T') and cfg.dominated_by(X, lambda n, t=t: n is t)]
    skip = cfg.path_avoiding(cfg.entry, lambda n: n is H, lambda n: n is X,
                             edge_ok=lambda a, b, l2: not (any(a is t for t in ms) and l2 == 'F'))
    ctx.check(skip is None, 'R2', cons + '::dominated by expiry test',
              'a path reaches the cached-value return without evaluating the expiry test (other than through "key has no entry"): stale values are served'
              + (f' (via `{skip[-2].text()}`)' if skip and len(skip) > 1 else ''), m.path, H.lineno)
    aw = [x for x in af.between(cfg, X, H) if pf.node_has_await(x)]
    ctx.check(not aw, 'R2', cons + '::atomic', f'`{aw[0].text() if aw else ""}` suspends between the expiry test and the return: the value can expire (or be replaced) '
              'in between', m.path, H.lineno)
    # the hit is guarded by membership in the cache
    g = [t for t in cfg.nodes if t.kind == 'test' and pf.nsrc(t.ast) == f'{k} in self._cache' and af.every_path_uses_edge(cfg, H, t, 'T')]
    ctx.need(bool(g), f'{cons}: not guarded by `{k} in self._cache`')
    return X, lab, H


def _is_load_await(e: ast.AST, alias: Set[str] = frozenset()) -> bool:  # type: ignore[assignment]
    """`await <expr>` whose operand waits for the load: it mentions the shared task `self._futures[...]` (or a local holding it) or calls `self.load(...)`"""
    if not isinstance(e, ast.Await):
        return False
    for x in ast.walk(e.value):
        if isinstance(x, ast.Subscript) and pf.nsrc(x.value) == FUT:
            return True
        if isinstance(x, ast.Name) and x.id in alias:
            return True
        if isinstance(x, ast.Call) and pf.dotted(x.func) == 'self.load':
            return True
    return False


def _r2_provenance(ctx: Ctx, v: View, xinfo: Optional[Tuple[pf.Node, str, pf.Node]]) -> None:
    """Every value lookup returns (directly or as the result of the shared task) and every value handed to `_put` is the result of the
    awaited load.  The one direct `return self._cache[k]` is the hit judged by the freshness rules above."""
    for name, mm, fn, cfg, k in v.roots():
        alias: Set[str] = set()
        for w in pf.walk_shallow(fn):
            if isinstance(w, ast.Assign) and any(_is_fut_store(t) for t in w.targets):
                alias |= {t.id for t in w.targets if isinstance(t, ast.Name)} | ({w.value.id} if isinstance(w.value, ast.Name) else set())
        uses: List[Tuple[pf.Node, ast.AST, str]] = []
        for n in af.stmt_nodes(cfg, lambda n: n.kind == 'return' and n.ast.value is not None):
            uses.append((n, n.ast.value, 'return'))  # type: ignore[union-attr]
        for n in af.stmt_nodes(cfg, lambda n: af.node_is_call(n, 'self._put') is not None):
            c = af.node_is_call(n, 'self._put')
            val = c.args[1] if c is not None and len(c.args) >= 2 else next((kw.value for kw in c.keywords if kw.arg == 'v'), None)  # type: ignore[union-attr]
            if val is None:
                v.deferred.append(f'{CLS}.{name}: `{n.text()}`: stored value not found')
                continue
            uses.append((n, val, 'put'))
        for U, e, role in uses:
            cons = f'{F}::{CLS}.{name}::{U.text()}::value is the loaded one'
            if role == 'return' and isinstance(e, ast.Subscript) and pf.nsrc(e.value) == 'self._cache':
                continue  # the hit
            stale: List[str] = []
            unknown: List[str] = []
            for o in cf.origins(fn, cfg, U, e):
                if o.kind == 'await' and _is_load_await(o.expr, alias):  # type: ignore[arg-type]
                    continue
                is_cache = (o.kind == 'subscript' and pf.nsrc(o.expr.value) == 'self._cache') or \
                    (o.kind == 'call' and (pf.dotted(o.expr.func) or '') in ('self._cache.get', 'self._cache.pop', 'self._cache.setdefault'))  # type: ignore[union-attr]
                if is_cache:
                    where = f'`{o.node.text()}`'
                    on_removed = xinfo is not None and name == 'lookup' and o.node is not xinfo[0] and af.every_path_uses_edge(cfg, o.node, xinfo[0], xinfo[1])
                    susp = [x for x in af.between(cfg, o.node, U) if pf.node_has_await(x)] if o.node is not U else []
                    if role == 'put' and on_removed:
                        stale.append(f'{where} keeps the value of an entry that the expiry test has just found EXPIRED, and `{U.text()}` stores it again with a fresh expiry time: '
                                     f't=0 lookup({k}) loads v0; t>lifetime lookup({k}) finds it expired, remembers v0, the reload does not deliver, v0 is re-inserted and served as a '
                                     f'hit for another lifetime_ns (and renewed again at the next failing reload): the age of the served value is unbounded')
                    elif role == 'put':
                        stale.append(f'{where} reads a value from the cache and `{U.text()}` stores it again with a fresh expiry time: its age since it was loaded then exceeds '
                                     f'lifetime_ns while every hit still serves it (t=0 load v0; t=L-1 hit re-inserts v0 with expiry 2L-1; t=2L-2 hit returns v0, loaded 2L-2 > L ago)')
                    elif on_removed:
                        stale.append(f'{where} keeps the value of an entry that the expiry test has just found EXPIRED, and `{U.text()}` returns it: t=0 lookup({k}) loads v0; '
                                     f't>lifetime lookup({k}) finds the entry expired, remembers v0, the reload does not deliver, v0 (older than lifetime_ns) is returned')
                    elif susp:
                        stale.append(f'{where} reads the cached value, `{susp[0].text()}` suspends, then `{U.text()}` returns it: it can be older than lifetime_ns by then')
                    elif xinfo is not None and name == 'lookup' and o.node is xinfo[2]:
                        pass  # the hit read judged by the freshness rules, returned without a suspension in between
                    else:
                        unknown.append(f'`{U.text()}` returns a cached value through a local ({where}): freshness of that path not analysed')
                    continue
                if o.kind == 'except':
                    stale.append(f'`{U.text()}` {"stores" if role == "put" else "returns"} the exception object caught by `{o.text()}` as if it were a loaded value: later lookups of `{k}` '
                                 f'get the failure of an earlier load (negative caching) although their own load did not fail -- no load is even attempted for them')
                    continue
                unknown.append(f'`{U.text()}`: value can come from `{o.text()}` ({o.kind}), which is neither the awaited load nor the freshness-guarded cache read')
            if stale:
                ctx.bad('R2', cons, stale[0], mm.path, U.lineno)
            elif unknown:
                v.deferred.append(f'{CLS}.{name}: {unknown[0]}')
            else:
                ctx.ok('R2', cons, role)


# --------------------------------------------------------------------------------------
# R3 / R4
# --------------------------------------------------------------------------------------


def _fut_awaits(v: View) -> List[Tuple[str, pf.Module, pf.FuncDef, ast.Await, bool]]:
    """(function, module, fn, await node, shielded) for every await of a task read from the shared _futures map"""
    fns: List[Tuple[str, pf.Module, pf.FuncDef]] = [('lookup', v.mi, v.lk)] + [(b.name, b.m, b.fn) for b in v.bodies.values()]
    for st in v.cls.body:
        if isinstance(st, (ast.FunctionDef, ast.AsyncFunctionDef)) and st.name != 'lookup' and st.name not in v.bodies and st.name not in v.absorbed:
            fns.append((st.name, v.m, st))
    out = []
    for name, mm, fn in fns:
        par = mm.parents()
        # locals that hold the registered task (`task = create_task(...); self._futures[k] = task` / `t = self._futures[k] = ...`)
        alias: Set[str] = set()
        for w in pf.walk_shallow(fn):
            if isinstance(w, ast.Assign) and any(_is_fut_store(t) for t in w.targets):
                alias |= {t.id for t in w.targets if isinstance(t, ast.Name)}
                if isinstance(w.value, ast.Name):
                    alias.add(w.value.id)
        for a in pf.walk_shallow(fn):
            if not isinstance(a, ast.Await):
                continue
            for x in ast.walk(a.value):
                if (isinstance(x, ast.Subscript) and isinstance(x.ctx, ast.Load) and pf.nsrc(x.value) == FUT) or (isinstance(x, ast.Name) and x.id in alias):
                    cur = par.get(x)
                    shielded = False
                    while cur is not None and cur is not a:
                        if isinstance(cur, ast.Call) and pf.dotted(cur.func) in ('asyncio.shield', 'shield'):
                            shielded = True
                        cur = par.get(cur)
                    out.append((name, mm, fn, a, shielded))
    return out


def _is_dereg(n: pf.Node, k: str) -> bool:
    return (isinstance(n.ast, ast.Delete) and any(isinstance(t, ast.Subscript) and pf.nsrc(t.value) == FUT and pf.nsrc(t.slice) == k for t in n.ast.targets)) \
        or ((c := af.node_is_call(n, f'{FUT}.pop')) is not None and bool(c.args) and pf.nsrc(c.args[0]) == k)


def _stmt_deregs(st: ast.AST) -> bool:
    return any(isinstance(s, ast.Delete) and any(isinstance(t, ast.Subscript) and pf.nsrc(t.value) == FUT for t in s.targets)
               or (isinstance(s, ast.Call) and pf.dotted(s.func) == f'{FUT}.pop') for s in ast.walk(st))


def _r3_single_flight(ctx: Ctx, v: View) -> None:
    lk, cfg, k, m = v.lk, v.cfg, v.k, v.mi
    regs = _regs(cfg)
    ctx.need(len(regs) >= 1, f'lookup: no registration `{FUT}[k] = ...` found')
    # every call of the loader is the task of a registration analysed below, or is awaited inside the task body a registration starts
    inreg = {id(c) for G in regs for c in ast.walk(pf.resolve_expr(lk, G.ast.value)) if isinstance(c, ast.Call)}  # type: ignore[union-attr]
    loads = [c for c in pf.calls_in(lk, True) if pf.dotted(c.func) == 'self.load']
    free = [(c, 'lookup') for c in loads if id(c) not in inreg]
    for b in v.bodies.values():
        par = b.m.parents()
        for c in [c for c in pf.calls_in(b.fn, True) if pf.dotted(c.func) == 'self.load']:
            loads.append(c)
            cur: Optional[ast.AST] = c
            awaited = False
            while cur is not None and cur is not b.fn:
                if isinstance(cur, ast.Await):
                    awaited = True
                cur = par.get(cur)
            if not awaited or [pf.nsrc(a) for a in c.args] != [b.k] or b.m.enclosing_func(c) is not b.fn:
                free.append((c, b.name))
    ctx.check(bool(loads) and not free, 'R3', f'{F}::{CLS}::self.load only as a registered task',
              (f'self.load is called at line {free[0][0].lineno} in {free[0][1]} outside a `{FUT}[k] = asyncio.create_task(...)` registration (or not awaited for the task\'s own '
               'key): that load is not shared with concurrent lookups of the key') if free else 'self.load is never called', m.path, lk.lineno)
    for st in v.cls.body:
        if isinstance(st, (ast.FunctionDef, ast.AsyncFunctionDef)) and not _on_loader_path(v, st.name):
            ctx.need(not [c for c in pf.calls_in(st, True) if pf.dotted(c.func) == 'self.load'], f'{CLS}.{st.name} calls self.load outside lookup (not analysed)')
    unshielded = [x for x in _fut_awaits(v) if not x[4]]
    for G in regs:
        _r3_one(ctx, v, G, unshielded)


def _callback_removes(v: View, cb: ast.AST, k: str) -> Optional[bool]:
    """does the done-callback always remove the registration of `k`?  None = shape not recognised"""
    if isinstance(cb, ast.Lambda):
        b = cb.body
        if isinstance(b, ast.Call) and pf.dotted(b.func) in (f'{FUT}.pop', f'{FUT}.__delitem__') and b.args and pf.nsrc(b.args[0]) == k:
            return True
        return None
    if isinstance(cb, ast.Name):
        defs = [s for s in ast.walk(v.lk) if isinstance(s, ast.FunctionDef) and s.name == cb.id]
        if len(defs) != 1:
            return None
        c2 = pf.cfg(defs[0])
        dn = [n for n in c2.nodes if n.ast is not None and _is_dereg(n, k)]
        if not dn:
            return False
        first = af.body_no_doc(defs[0])
        return bool(first) and any(first[0] is n.ast or (isinstance(first[0], ast.Expr) and first[0].value is getattr(n.ast, 'value', None)) for n in dn)
    return None


def _r3_one(ctx: Ctx, v: View, G: pf.Node, unshielded) -> None:
    lk, cfg, k, m = v.lk, v.cfg, v.k, v.mi
    cons = f'{F}::{CLS}.lookup::{G.text()}'
    tgt = [t for t in G.ast.targets if _is_fut_store(t)][0]  # type: ignore[union-attr]
    ctx.need(pf.nsrc(tgt.slice) == k, f'{cons}: registers under a different key')
    tc = _task_call(lk, G)
    d = pf.dotted(tc.func) if tc is not None else None
    body = v.bodies.get(d[5:]) if d and d.startswith('self.') else None
    ok_task = tc is not None and [pf.nsrc(a) for a in tc.args] == [k] and (d == 'self.load' or body is not None)
    ctx.need(ok_task, f'{cons}: registered value is not asyncio.create_task(self.load({k})) / create_task(self.<coroutine method>({k}))')
    # guard: absent-edge of `k in self._futures`, atomically
    tests = [t for t in cfg.nodes if t.kind == 'test' and af.mentions(t.ast, FUT)]
    guard = None
    for t in tests:
        for lab in ('T', 'F'):
            if af.every_path_uses_edge(cfg, G, t, lab) and af.direct(cfg, t, G, lab) and cf.implied(t.ast, lab, f'{k} in {FUT}', False):
                guard = (t, lab)
    if guard is None:
        ctx.bad('R3', cons + '::guard', f'the load is registered without first finding `{k} in {FUT}` false: concurrent lookups of one key each start a load '
                '(and overwrite each other\'s registration)', m.path, G.lineno)
        af.blocked(ctx, 'R3', 'R3')
    else:
        t, lab = guard
        aw = [x for x in af.between(cfg, t, G, lab) if pf.node_has_await(x)]
        ctx.check(not aw, 'R3', cons + '::guard', f'`{aw[0].text() if aw else ""}` suspends between the `{k} in {FUT}` test and the registration: two lookups both '
                  'see "no load in flight" and both load', m.path, G.lineno, detail={'test': pf.nsrc(t.ast), 'edge': lab})
        # the other edge: no load started
        other = 'F' if lab == 'T' else 'T'
        starts = af.direct(cfg, t, G, other)
        ctx.check(not starts, 'R3', f'{F}::{CLS}.lookup::waiter starts no load', 'a lookup that finds a task in flight can still reach the registration and start another load',
                  m.path, t.lineno)
        # also atomic from the cache-miss decision
        miss = [x for x in cfg.nodes if x.kind == 'test' and pf.nsrc(x.ast) == f'{k} in self._cache']
        if miss:
            aw2 = [x for x in af.between(cfg, miss[0], G, 'F') if pf.node_has_await(x)]
            ctx.check(not aw2, 'R3', cons + '::atomic since miss', f'`{aw2[0].text() if aw2 else ""}` suspends between the cache-miss decision and the registration: '
                      'a load that completes in between is repeated', m.path, G.lineno)

    # ---- removal of the registration ------------------------------------------------------------------------------------
    consd = f'{F}::{CLS}.lookup::deregistration'
    dels = af.stmt_nodes(cfg, lambda n: _is_dereg(n, k))
    # (ii) a done-callback attached to the task before anything can suspend or leave
    aliases = {pf.nsrc(t) for t in G.ast.targets}  # type: ignore[union-attr]
    if isinstance(G.ast.value, ast.Name):  # type: ignore[union-attr]
        aliases.add(G.ast.value.id)  # type: ignore[union-attr]
    cbn = [n for n in af.stmt_nodes(cfg, lambda n: any(isinstance(c.func, ast.Attribute) and c.func.attr == 'add_done_callback' and pf.nsrc(c.func.value) in aliases
                                                        for c in pf.node_calls(n))) if af.direct(cfg, G, n)]
    cb_verdicts: List[Optional[bool]] = []
    for n in cbn:
        c = [c for c in pf.node_calls(n) if isinstance(c.func, ast.Attribute) and c.func.attr == 'add_done_callback'][0]
        before = af.must_pass(cfg, G, lambda x: x is cfg.exit or x is cfg.raise_exit or pf.node_has_await(x), lambda x, n=n: x is n) is None
        r = _callback_removes(v, c.args[0], k) if c.args else None
        cb_verdicts.append(r if before or r is None else False)
    if any(r is None for r in cb_verdicts):
        v.deferred.append(f'{cons}: the registered task is completed through add_done_callback with a callback that is not a recognised removal (not analysed)')
    callback_ok = any(r is True for r in cb_verdicts)
    frame_dels = [dn for dn in dels if af.direct(cfg, G, dn)]
    body_dels = [n for n in body.cfg.nodes if n.ast is not None and _is_dereg(n, body.k)] if body is not None else []

    if frame_dels or not (callback_ok or body_dels):
        # (i) the registering frame removes it: on every exit, and on cancellation at each of its suspension points
        leak = cfg.path_avoiding(G, lambda n: n is cfg.exit or n is cfg.raise_exit, lambda n: any(n is dn for dn in dels))
        ctx.check(bool(dels) and leak is None or callback_ok, 'R3', consd, 'some exit of the loader leaves the finished/failed task registered: later lookups of that key await the '
                  'old task for ever (stale value after expiry, or the old error)' + (f' (via `{leak[-2].text()}`)' if leak and len(leak) > 1 else ''), m.path, G.lineno)
        for n in af.stmt_nodes(cfg, pf.node_has_await):
            if not af.direct(cfg, G, n):
                continue
            if dels and all(cfg.dominated_by(n, lambda x, dn=dn: x is dn) for dn in dels if af.direct(cfg, G, dn)) and any(af.direct(cfg, dn, n) for dn in dels):
                continue  # after the deregistration
            for a in pf.walk_shallow(n.ast):
                if isinstance(a, ast.Await):
                    blocks, _ = af.cancel_blocks(m, lk, a)
                    cleaned = any(_stmt_deregs(st) for _, b in blocks for st in b)
                    ctx.check(cleaned or callback_ok, 'R3', consd + f'::on cancellation of `{pf.nsrc(a)}`',
                              'when the loader is cancelled at this await no finally/except removes the registration', m.path, a.lineno)
        if frame_dels:
            _r3_not_before_task_end(ctx, v, G, frame_dels, consd)
        raising = [x for x in frame_dels if isinstance(x.ast, ast.Delete) or ((c2 := af.node_is_call(x, f'{FUT}.pop')) is not None and len(c2.args) == 1)]
        if raising and body_dels:
            ctx.bad('R3', consd + '::once', f'the registration of `{k}` is removed inside the task body {body.name} (`{body_dels[0].text()}`) and again by the registering frame '  # type: ignore[union-attr]
                    f'(`{raising[0].text()}`): the task finishes first, so the frame\'s removal raises KeyError on every miss and the lookup fails although its load succeeded',
                    m.path, G.lineno)
        return
    if callback_ok:
        ctx.ok('R3', consd, 'done-callback attached before any suspension removes the registration (runs even if the task never starts)')
        ctx.ok('R3', consd + '::not before the task ends', 'a done-callback runs when the task has ended, not earlier')
        return
    # (iii) only the registered task's own body removes the registration
    assert body is not None
    bcfg = body.cfg
    leak = bcfg.path_avoiding(bcfg.entry, lambda n: n is bcfg.exit or n is bcfg.raise_exit, lambda n: any(n is dn for dn in body_dels))
    uncovered = []
    for n in af.stmt_nodes(bcfg, pf.node_has_await):
        if all(bcfg.dominated_by(n, lambda x, dn=dn: x is dn) for dn in body_dels):
            continue
        for a in pf.walk_shallow(n.ast):
            if isinstance(a, ast.Await):
                blocks, _ = af.cancel_blocks(body.m, body.fn, a)
                if not any(_stmt_deregs(st) for _, b in blocks for st in b):
                    uncovered.append(a)
    if leak is not None or uncovered:
        ctx.bad('R3', consd, f'the task body {body.name} leaves the finished/failed task registered on some exit'
                + (f' (via `{leak[-2].text()}`)' if leak and len(leak) > 1 else f' (cancellation at `{pf.nsrc(uncovered[0])}`)' if uncovered else '')
                + ': later lookups of that key await the old task for ever', body.m.path, body.fn.lineno)
        return
    if unshielded:
        u = unshielded[0]
        ctx.bad('R3', consd, f'the registration `{G.text()}` is only removed inside the registered task itself (`{body_dels[0].text()}` in {body.name}), and '
                f'`{pf.nsrc(u[3])}` in {u[0]} awaits the shared task without asyncio.shield: if that caller is cancelled before the task has run its first step '
                f'(same event-loop iteration, e.g. wait_for(timeout=0) or a disconnect), CancelledError is thrown into a coroutine that has not started, its try/finally is '
                f'never entered and the cancelled task stays in {FUT}[{k}] for ever: every later lookup({k}) raises CancelledError although it was not cancelled and no load '
                f'failed.  Remove the registration in the registering frame (try/finally around its await) or with task.add_done_callback', m.path, G.lineno)
    else:
        ctx.ok('R3', consd, f'removed in the task body {body.name}; every await of the shared task is shielded, so no caller can cancel it before it starts')
        ctx.ok('R3', consd + '::not before the task ends', f'removed by the task itself on leaving {body.name}')


def _node_awaits(n: pf.Node) -> List[ast.Await]:
    return [a for e in pf.node_exprs(n) for a in pf.walk_shallow(e) if isinstance(a, ast.Await)]


def _r3_not_before_task_end(ctx: Ctx, v: View, G: pf.Node, frame_dels: List[pf.Node], consd: str) -> None:
    """The registration is what makes a later lookup JOIN the running load instead of starting another one, so the registering frame may
    remove it only once the registered task has ended.  Decided on the CFG: a path registration -> removal is harmless only if it traverses
    an edge on which the task is known to have ended -- the normal completion of an await of the task, or the exceptional exit of an
    UNSHIELDED await of it (a coroutine cancelled while awaiting a Task gets its CancelledError only after that Task has finished).  The
    exceptional exit of a shielded await of the task (caller cancelled, wait_for timeout) or of any other suspension point leaves the task
    running.  Exception edges out of plain synchronous statements are not followed (an internal error, not a schedule)."""
    cfg, k, m = v.cfg, v.k, v.mi
    shield_of = {id(a): sh for name, _, _, a, sh in _fut_awaits(v) if name == 'lookup'}

    def task_awaits(n: pf.Node) -> List[Tuple[ast.Await, bool]]:
        return [(a, shield_of[id(a)]) for a in _node_awaits(n) if id(a) in shield_of] if n.ast is not None else []

    def edge_ok(a: pf.Node, b: pf.Node, lab: str) -> bool:
        ta = task_awaits(a)
        if lab == 'exc':
            if a.ast is None or a.kind == 'raise':
                return True  # continuation of an exception already in flight (finally copies, re-raise in a handler)
            if not pf.node_has_await(a):
                return False
            return not ta or any(sh for _, sh in ta)
        return not ta

    cons = consd + '::not before the task ends'
    for dn in frame_dels:
        p = cfg.path_avoiding(G, lambda n, dn=dn: n is dn, lambda n: False, edge_ok=edge_ok)
        if p is None:
            continue
        cancels = [x for x in p if x.ast is not None and any(isinstance(c.func, ast.Attribute) and c.func.attr == 'cancel' for c in pf.node_calls(x))]
        ctx.need(not cancels, f'{cons}: `{cancels[0].text() if cancels else ""}` cancels something on the way to the removal (task torn down by hand: not analysed)')
        exits = [(x, y) for x, y in zip(p, p[1:]) if any(lab == 'exc' and b is y for b, lab in x.succ) and x.ast is not None and pf.node_has_await(x)]
        if exits:
            x = exits[0][0]
            ta = task_awaits(x)
            if ta:
                why = (f'`{pf.nsrc(ta[0][0])}` awaits the shared task through asyncio.shield, so when the lookup that registered the load is cancelled there (client hangs up; '
                       f'or a wait_for around it times out) the await raises while the load task KEEPS RUNNING')
            else:
                why = (f'`{x.text()}` is a suspension point between the registration and the removal that does not wait for the task: when the lookup is cancelled there '
                       f'the load task keeps running (nobody cancels it)')
        else:
            why = 'the removal is reached without waiting for the registered task at all, the load task is still running'
        ctx.bad('R3', cons, f'{why}, and `{dn.text()}` removes the registration of the running task.  The next lookup({k}) finds neither a cached value nor a load in flight '
                f'and starts a SECOND load of {k} while the first is still in flight (L1=lookup({k}) starts load #1; L1 is cancelled; L2=lookup({k}) starts load #2; a waiter that '
                f'joined #1 and L2 are pending together but served by two different loads; repeat for #3...).  The registration must live as long as the task: remove it with '
                f'task.add_done_callback(...) or at the end of the task body, not in the frame of a caller that can leave early', m.path, dn.lineno)
        return
    ctx.ok('R3', cons, 'every path registration -> removal passes the end of the registered task')


def _r4_shield(ctx: Ctx, v: View) -> None:
    n = 0
    for name, mm, fn, a, shielded in _fut_awaits(v):
        n += 1
        role = 'loader' if any(isinstance(w, ast.Assign) and any(_is_fut_store(t) for t in w.targets)
                               for w in pf.walk_shallow(fn)) and not isinstance(_stmt_of(mm, fn, a), ast.Return) else 'waiter'
        cons = f'{F}::{CLS}.{name}::{pf.nsrc(a)}'
        if role == 'waiter':
            msg = (f'`{pf.nsrc(a)}` awaits the shared load task without asyncio.shield: if this waiting lookup is cancelled the await cancels the shared task, '
                   'so the loader and every other waiter get CancelledError although their load did not fail and they were not cancelled')
        else:
            msg = (f'`{pf.nsrc(a)}` awaits the shared load task without asyncio.shield: if the lookup that started the load is cancelled the task is cancelled '
                   'with it, and every concurrent lookup waiting on the same key gets CancelledError although it was not cancelled and its load did not fail')
        ctx.check(shielded, 'R4', cons, msg, mm.path, a.lineno)
    ctx.need(n >= 1, 'no await of a task read from _futures found (idiom not recognised)')


# --------------------------------------------------------------------------------------
# instance state other than the three maps / _futures: side tables (R1) and remembered failures (R6)
# --------------------------------------------------------------------------------------

MUTATORS = ('add', 'remove', 'discard', 'pop', 'clear', 'update', 'popitem', 'setdefault', 'append', 'appendleft', 'extend', 'insert', 'move_to_end',
            '__setitem__', '__delitem__')
LOOKUP_PRIMS = ('_put', '_remove', '_evict_oldest', '_over_capacity')


def _self_base(e: ast.AST) -> Tuple[Optional[str], Optional[ast.AST], int]:
    """Descend `X[...]`, `X.m(...)`, `X.a` to the object the value is read from / written into:
    ('attr', None, depth) for `self.attr...`, (None, <Name>, depth) for a local, (None, None, depth) otherwise."""
    cur, depth = e, 0
    while True:
        if isinstance(cur, ast.Subscript):
            cur, depth = cur.value, depth + 1
        elif isinstance(cur, ast.Call) and isinstance(cur.func, ast.Attribute):
            cur, depth = cur.func.value, depth + 1
        elif isinstance(cur, ast.Attribute):
            if isinstance(cur.value, ast.Name) and cur.value.id == 'self':
                return cur.attr, None, depth
            cur, depth = cur.value, depth + 1
        elif isinstance(cur, ast.Name):
            return None, cur, depth
        else:
            return None, None, depth


def _state_writes(fn: ast.AST) -> List[Tuple[str, str, ast.AST, ast.AST]]:
    """(attr, how, written expression, statement) for every write into instance state `self.<attr>` in fn:
    how = 'bind' (self.X = / del self.X), 'item' (self.X[..] = / del self.X[..] / self.X.y = ..), a mutator method name."""
    out: List[Tuple[str, str, ast.AST, ast.AST]] = []
    for st in pf.walk_shallow(fn):
        tg: List[ast.AST] = []
        if isinstance(st, ast.Assign):
            tg = list(st.targets)
        elif isinstance(st, (ast.AugAssign, ast.AnnAssign)):
            tg = [st.target] if not (isinstance(st, ast.AnnAssign) and st.value is None) else []
        elif isinstance(st, ast.Delete):
            tg = list(st.targets)
        elif isinstance(st, ast.Call) and isinstance(st.func, ast.Attribute) and st.func.attr in MUTATORS:
            attr, _, _ = _self_base(st.func.value)
            if attr is not None:
                out.append((attr, st.func.attr, st, st))
        flat: List[ast.AST] = []
        for t in tg:
            flat += list(t.elts) if isinstance(t, (ast.Tuple, ast.List)) else [t]
        for t in flat:
            if isinstance(t, (ast.Subscript, ast.Attribute)):
                attr, _, depth = _self_base(t)
                if attr is not None:
                    out.append((attr, 'bind' if depth == 0 else 'item', t, st))
    return out


def _self_reads(e: ast.AST, methods: Set[str]) -> Tuple[Set[str], Set[str]]:
    """(instance attributes read in e, same-class methods called in e)"""
    called = {x.func.attr for x in ast.walk(e) if isinstance(x, ast.Call) and isinstance(x.func, ast.Attribute) and isinstance(x.func.value, ast.Name)
              and x.func.value.id == 'self' and x.func.attr in methods}
    reads = {x.attr for x in ast.walk(e) if isinstance(x, ast.Attribute) and isinstance(x.value, ast.Name) and x.value.id == 'self' and isinstance(x.ctx, ast.Load)}
    return reads - called, called


class _ClassState:
    """who writes which instance attribute (on the class as specialised for one option configuration)"""

    def __init__(self, v: View):
        self.methods = {f.name: f for f in v.cls.body if isinstance(f, (ast.FunctionDef, ast.AsyncFunctionDef))}
        self.writers: Dict[str, List[Tuple[str, str, ast.AST, ast.AST]]] = {}  # attr -> (method, how, expr, stmt)
        for name, f in self.methods.items():
            for attr, how, e, st in _state_writes(f):
                self.writers.setdefault(attr, []).append((name, how, e, st))
        self.v = v

    def on_path(self, meth: str) -> bool:
        return _on_loader_path(self.v, meth) or meth in LOOKUP_PRIMS

    def filled_by(self, attr: str) -> List[Tuple[str, str, ast.AST, ast.AST]]:
        """writes outside __init__ that can put something into the attribute (removals do not)"""
        return [w for w in self.writers.get(attr, []) if w[0] != '__init__' and not isinstance(w[3], ast.Delete)
                and w[1] not in ('remove', 'discard', 'pop', 'clear', 'popitem', '__delitem__')]


def _r1_side_tables(ctx: Ctx, v: View, cs: _ClassState) -> None:
    """Per-key state that lookups file OUTSIDE the three maps and consult again is cache content too (remembered failures, negative entries,
    per-key deadlines).  `_over_capacity` counts, and `_evict_oldest`/`_remove` drop, only what is in the three maps: such a table is bounded
    only if `_remove` drops the key from it as well (then it never holds a key the index does not hold)."""
    rem = af.method(v.m, v.cls, '_remove')
    kr = rem.args.args[1].arg if len(rem.args.args) == 2 else None
    known = {mp[5:] for mp in MAPS} | {FUT[5:]}
    seen: Set[str] = set()
    judged: Set[str] = set()
    for name, mm, fn, cfg, k in v.roots():
        for attr, how, e, st in _state_writes(fn):
            if attr in known or attr in seen:
                continue
            keyed = (how == 'item' and isinstance(e, ast.Subscript) and not isinstance(st, ast.Delete) and _self_base(e.value)[2] == 0) or \
                    (how in ('add', 'setdefault', '__setitem__', 'append', 'update') and _self_base(e.func.value)[2] == 0)  # type: ignore[attr-defined]
            if not keyed:
                continue
            kexpr = e.slice if isinstance(e, ast.Subscript) else (e.args[0] if e.args else None)  # type: ignore[attr-defined]
            if kexpr is None or k not in pf.names_in(pf.expand_locals(fn, kexpr)):
                continue  # not filed per lookup key
            seen.add(attr)
            # does the table decide an outcome?  read by a branch condition (through single-definition locals) or by a returned / raised value
            consulted = []
            for _, _, rfn, rcfg, _ in v.roots():
                for t in rcfg.nodes:
                    if t.ast is None or t.kind not in ('test', 'return', 'raise'):
                        continue
                    ex = pf.expand_locals(rfn, t.ast) if t.kind == 'test' else t.ast
                    if attr in _self_reads(ex, set(cs.methods))[0]:
                        consulted.append(t)
            if not consulted:
                continue  # bookkeeping (metrics, locks): no branch, returned or raised value of lookup reads it
            judged.add(attr)
            cons = f'{F}::{CLS}.{name}::self.{attr} (per-key state outside the three maps)'
            own_bound = [w for w in cs.writers.get(attr, []) if w[1] in ('clear', 'popitem')] or \
                [x for f in cs.methods.values() for x in ast.walk(f) if isinstance(x, ast.Call) and pf.dotted(x.func) == 'len' and x.args and pf.nsrc(x.args[0]) == f'self.{attr}']
            ctx.need(not own_bound, f'{cons}: the table has a size test / clear of its own (bound not analysed)')
            dropped = kr is not None and any(w[0] == '_remove' and (isinstance(w[3], ast.Delete) or w[1] in ('pop', 'discard', 'remove', '__delitem__'))
                                             and kr in pf.names_in(w[2]) and _top_level_unconditional(rem, w[3], v.m) for w in cs.writers.get(attr, []))
            ctx.check(dropped, 'R1', cons,
                      f'`{pf.nsrc(st)}` in {name} files per-key state in self.{attr}, which lookup consults again, but `_remove` never drops the key from it and `_over_capacity` '
                      f'does not count it: the table is not covered by num_slots.  Every distinct key that gets an entry and is not looked up again stays for ever '
                      f'(num_slots+N distinct keys -> the cache object holds state for num_slots+N keys), an unbounded number of entries', mm.path, getattr(st, 'lineno', 0))
    if not judged:
        ctx.ok('R1', f'{F}::{CLS}::no per-key state outside the three maps', 'lookup (with helpers / task body) files nothing per key that decides an outcome besides '
               '_cache/_expiry_time/_keys_by_expiry/_futures' + (f' (bookkeeping only: {sorted(seen)})' if seen else ''))


def _value_sources(fn: pf.FuncDef, cfg: pf.CFG, use: pf.Node, e: ast.AST, cs: _ClassState, depth: int = 4) -> List[Tuple[str, str]]:
    """Where can the object `e` evaluates to at `use` come from?  ('except', _) the exception being handled; ('state', attr) read out of
    instance state; ('fresh', _) constructed here by calling something that is not a method/attribute of the cache; ('unknown', text)."""
    out: List[Tuple[str, str]] = []

    def from_expr(x: ast.AST, at: pf.Node, top: bool) -> None:
        attr, local, dp = _self_base(x)
        if attr is not None:
            out.append(('unknown', f'self.{attr}(...)') if attr in cs.methods else ('state', attr))
        elif local is not None and (dp > 0 or not top) and depth > 0:
            out.extend(_value_sources(fn, cfg, at, local, cs, depth - 1))
        elif top and isinstance(x, ast.Call) and pf.dotted(x.func) is not None:
            out.append(('fresh', pf.nsrc(x)))
        else:
            out.append(('unknown', pf.nsrc(x)))

    for o in cf.origins(fn, cfg, use, e):
        if o.kind == 'except':
            out.append(('except', o.text()))
        elif o.kind in ('subscript', 'call'):
            from_expr(o.expr, o.node, True)  # type: ignore[arg-type]
        elif o.kind == 'other' and isinstance(o.expr, (ast.Assign, ast.AnnAssign)) and o.expr.value is not None:
            val = o.expr.value  # tuple unpacking: `deadline, exc = self._failed[k]`
            for part in (val.elts if isinstance(val, (ast.Tuple, ast.List)) else [val]):
                from_expr(part, o.node, False)
        elif o.kind == 'other' and isinstance(o.expr, ast.Attribute):
            from_expr(o.expr, o.node, True)
        elif o.kind == 'free':
            out.append(('fresh', o.text()))  # a global: an exception class raised without arguments
        else:
            out.append(('unknown', o.text()))
    return out


def _r6_own_failure(ctx: Ctx, v: View, cs: _ClassState) -> None:
    """A lookup may fail only with what its own (shared) load raised or with its own cancellation.  Those reach the caller by propagation
    through the awaits, or through a re-raise inside the handler that caught them.  Every `raise` statement of lookup (helpers inlined) and of
    the task body is therefore classified by the provenance of the raised object and by what its guards read."""
    for name, mm, fn, cfg, k in v.roots():
        par = mm.parents()
        for R in af.stmt_nodes(cfg, lambda n: n.kind == 'raise' and isinstance(n.ast, ast.Raise)):
            cons = f'{F}::{CLS}.{name}::{R.text()}'
            cur: Optional[ast.AST] = R.ast
            handler = None
            while cur is not None and cur is not fn and handler is None:
                cur = par.get(cur)
                if isinstance(cur, ast.ExceptHandler):
                    handler = cur
            exc = R.ast.exc  # type: ignore[union-attr]
            if exc is None:
                ctx.need(handler is not None, f'{cons}: bare raise outside a handler')
                ctx.ok('R6', cons, 're-raises the exception being handled')
                continue
            srcs = _value_sources(fn, cfg, R, exc, cs)
            kinds = {s[0] for s in srcs}
            state = sorted({s[1] for s in srcs if s[0] == 'state'})
            filled = [(a, cs.filled_by(a)) for a in state if cs.filled_by(a)]
            if filled:
                a, ws = filled[0]
                w = next((x for x in ws if cs.on_path(x[0])), ws[0])
                ctx.bad('R6', cons, f'`{R.text()}` raises an object read out of self.{a}, which `{pf.nsrc(w[3])}` in {w[0]} fills: the lookup fails with something remembered from '
                        f'EARLIER lookups -- no load was started or joined on its behalf and it was not cancelled (t0: lookup({k}) -> its load fails, allowed; the backend recovers; '
                        f't1: lookup({k}) -> raises the old exception, 0 loads attempted)', mm.path, R.lineno)
                continue
            if state and kinds <= {'state', 'except'}:
                ctx.ok('R6', cons, f'self.{state[0]} is never filled under this configuration: unreachable')
                continue
            if kinds == {'except'}:
                ctx.ok('R6', cons, 're-raises the exception being handled (by name)')
                continue
            if handler is not None and kinds <= {'except', 'fresh'}:
                ctx.ok('R6', cons, 'raised inside an except handler: converts the failure this lookup has just caught')
                continue
            tname = pf.dotted(exc.func) if isinstance(exc, ast.Call) else pf.dotted(exc)
            if kinds == {'fresh'} and tname in ('AssertionError', 'builtins.AssertionError'):
                ctx.ok('R6', cons, 'explicit assertion (the assert statement spelled out): invariants are not analysed')
                continue
            if kinds != {'fresh'}:
                v.deferred.append(f'{cons}: provenance of the raised object not recognised ({[s for s in srcs if s[0] == "unknown"][:1]})')
                continue
            # a fresh exception outside any handler: what decides that this lookup fails?
            reads: Set[str] = set()
            opaque: Set[str] = set()
            guards = []
            for t in cfg.nodes:
                if t.kind != 'test':
                    continue
                for lab in ('T', 'F'):
                    if af.every_path_uses_edge(cfg, R, t, lab):
                        guards.append(t)
                        r, c = _self_reads(pf.expand_locals(fn, t.ast), set(cs.methods))
                        reads |= r
                        opaque |= c
            onp = [(a, w) for a in sorted(reads) for w in cs.writers.get(a, []) if w[0] != '__init__' and cs.on_path(w[0])]
            if onp:
                a, w = onp[0]
                ctx.bad('R6', cons, f'`{R.text()}` makes the lookup fail depending on self.{a} (test `{pf.nsrc(guards[0].ast)}`), which `{pf.nsrc(w[3])}` in {w[0]} writes during other '
                        f'lookups: this lookup fails although no load of its own failed and it was not cancelled (failure memory / circuit breaker / admission limit)', mm.path, R.lineno)
                continue
            admin = [a for a in sorted(reads) if any(w[0] != '__init__' for w in cs.writers.get(a, []))]
            if admin and len(admin) == len(reads) and not opaque:
                ctx.ok('R6', cons, f'only under administrative state self.{admin[0]} (written outside the lookup path, e.g. shutdown): outside the property')
                continue
            v.deferred.append(f'{cons}: a lookup fails here without a failed load or a cancellation; the guard {[pf.nsrc(g.ast) for g in guards]} is not attributable to '
                              f'shutdown or to other lookups (not analysed)')


# --------------------------------------------------------------------------------------
# R5 use sites and constructor options
# --------------------------------------------------------------------------------------


def _const_expr(m: pf.Module, e: ast.AST) -> Optional[ast.Constant]:
    if isinstance(e, ast.Constant):
        return e
    num = af.const_number(m, e)
    if num is not None:
        return ast.Constant(value=int(num) if num.denominator == 1 else float(num))
    if isinstance(e, ast.Name):
        try:
            g = m.global_assign(e.id)
        except AnalysisError:
            return None
        return g if isinstance(g, ast.Constant) else None
    return None


def _r5_sites(ctx: Ctx, cm: pf.Module) -> List[Tuple[str, Dict[str, ast.Constant]]]:
    """R5 at the construction sites; returns the option configuration (attr -> constant) of each site, first the session cache."""
    ccls = cm.cls(CLS)
    init = af.method(cm, ccls, '__init__')
    ia = init.args
    ctx.need(not ia.vararg and not ia.kwarg and not ia.posonlyargs, f'{CLS}.__init__ takes star arguments')
    pnames = [a.arg for a in ia.args][1:]
    kwonly = [a.arg for a in ia.kwonlyargs]
    ctx.need(pnames[:4] == BASE_PARAMS, f'{CLS}.__init__ parameters changed: {pnames}')
    opts = cf.option_attrs(ccls, BASE_PARAMS)
    configs: List[Tuple[str, Dict[str, ast.Constant]]] = []
    for rel, what in ((AU, 'session'), (JAR, 'jar')):
        m = pf.load(rel)
        par = m.parents()
        sites = [c for c in ast.walk(m.tree) if isinstance(c, ast.Call) and pf.dotted(c.func) == CLS]
        ctx.need(len(sites) >= 1, f'{rel}: no construction of {CLS}')
        attrs = []
        for c in sites:
            fn = m.enclosing_func(c)
            q = m.qualname(fn) if fn is not None else '<module>'
            ctx.need(not any(isinstance(a, ast.Starred) for a in c.args) and all(kw.arg for kw in c.keywords) and len(c.args) <= len(pnames),
                     f'{rel}::{q}: {CLS}(...) with star arguments')
            bound: Dict[str, ast.AST] = dict(zip(pnames, c.args))
            for kw in c.keywords:
                ctx.need(kw.arg in pnames + kwonly, f'{rel}::{q}: {CLS}({kw.arg}=...) is not a constructor parameter')
                bound[kw.arg] = kw.value  # type: ignore[index]
            for pname in ('lifetime_ns', 'num_slots'):
                cons = f'{rel}::{q}::{CLS}({pname}={pf.nsrc(bound[pname]) if pname in bound else "?"})'
                ctx.need(pname in bound, f'{cons}: argument not passed')
                val = af.const_number(m, bound[pname])
                ctx.need(val is not None, f'{cons}: not a constant expression')
                ctx.check(val > 0 and val.denominator == 1, 'R5', cons, f'{pname} = {val}: the class asserts {pname} > 0 (the bound and freshness arguments need a positive '  # type: ignore[union-attr,operator]
                          f'integer)', m.path, c.lineno, detail={'value': int(val)})  # type: ignore[arg-type]
            conf: Dict[str, ast.Constant] = {}
            for p, (attr, default) in opts.items():
                e = bound.get(p, default)
                ce = _const_expr(m if p in bound else cm, e) if e is not None else None
                if ce is not None:
                    conf[attr] = ce
                    if p in bound:
                        ctx.ok('R5', f'{rel}::{q}::{CLS}({p}={pf.nsrc(e)})', {'option': attr, 'value': repr(ce.value), 'propagated': True})
                # otherwise the option stays symbolic: both branches of every test on it are analysed
            label = f'{what} cache options: ' + (', '.join(f'{a}={conf[a].value!r}' for a in sorted(conf)) or 'none')
            configs.append((label, conf))
            p = par.get(c)
            if isinstance(p, ast.Assign) and len(p.targets) == 1 and isinstance(p.targets[0], ast.Attribute):
                attrs.append(p.targets[0].attr)
        if rel != AU:
            continue
        ctx.need(attrs, f'{AU}: the cache is not stored in an attribute')
        for n in ast.walk(m.tree):
            if isinstance(n, ast.Attribute) and n.attr in attrs and isinstance(n.ctx, ast.Load):
                fn = m.enclosing_func(n)
                q = m.qualname(fn) if fn is not None else '<module>'
                p = par.get(n)
                cons = f'{AU}::{q}::{pf.nsrc(p) if p is not None else pf.nsrc(n)}'
                okuse = isinstance(p, ast.Attribute) and p.value is n and p.attr in ('lookup', 'shutdown') and isinstance(par.get(p), ast.Call) \
                    and (p.attr != 'lookup' or isinstance(par.get(par[p]), ast.Await))
                ctx.check(okuse, 'R5', cons, f'`{pf.nsrc(p) if p is not None else pf.nsrc(n)}` uses the cache other than through `await ....lookup(k)`: internal maps are '
                          f'read/written without the expiry, capacity and single-flight logic', m.path, n.lineno)
    return configs


def _class_side(ctx: Ctx, m: pf.Module) -> None:
    cls = m.cls(CLS)
    v = _view(ctx, m)
    ctx.unit('helpers_inlined_into_lookup', len(v.il.inlined))
    ctx.unit('task_bodies', len(v.bodies))
    cs = _ClassState(v)
    _r1_maps(ctx, m, cls)
    _r1_put_callers(ctx, v)
    _r1_capacity(ctx, v)
    _r1_side_tables(ctx, v, cs)
    xinfo = _r2_fresh(ctx, v)
    _r2_provenance(ctx, v, xinfo)
    _r3_single_flight(ctx, v)
    _r4_shield(ctx, v)
    _r6_own_failure(ctx, v, cs)
    if v.deferred:
        raise AnalysisError(v.deferred[0])


def run(ctx: Ctx) -> None:
    ctx.explanation = ('Must-pass-through / dominance on the CFG of lookup (and of the coroutine it registers as the shared task) with await-atomicity, truth tables of the '
                       'capacity and expiry comparisons, agreement of the three maps in _put/_remove, reaching-definition provenance of returned and stored values, '
                       'registration/deregistration ownership of the in-flight map including cancellation exits and never-started tasks, a closure over every await of a '
                       'shared task, constant propagation of constructor options from the session and JAR sites.')
    ctx.rule('R1', 'every insertion is followed atomically by capacity test + eviction; _put/_remove keep the three maps in step (and in key-function order); '
                   'no other mutation; per-instance maps; no per-key side table that the capacity does not cover', 20)
    ctx.rule('R2', 'expiry = monotonic_ns + lifetime_ns; a cached value is returned only after, atomically, its expiry was compared with the same clock '
                   'and expired entries removed; every returned / stored value is the awaited load result', 9)
    ctx.rule('R3', 'single flight: registration atomic after the in-flight test, one load call site, waiters start no load, registration removed on every exit '
                   'of the registering frame (or by a done-callback), and by that frame not before the registered task has ended', 6)
    ctx.rule('R4', 'every await of a task read from the shared _futures map is shielded', 1)
    ctx.rule('R5', 'gear/auth.py and the JAR cache site build the cache with positive constant lifetime/capacity; auth.py only calls lookup', 5)
    ctx.rule('R6', 'a lookup fails only with its own load\'s failure or its own cancellation: every raise in lookup / the task body re-raises the exception being handled '
                   '(shutdown guard excepted); nothing remembered in instance state is raised, no failure is decided by what other lookups wrote', 1)
    ctx.assume('asyncio switches only at await; cancelling a coroutine that awaits a Task cancels that Task unless the await goes through asyncio.shield; '
               'a Task cancelled before its first step never executes its body')
    ctx.assume('shutdown() is outside the property; the loader coroutine does not touch the cache')
    m = pf.load(F)
    ctx.unit('files', 3)
    configs = _r5_sites(ctx, m)
    seen: List[Dict[str, Any]] = []
    for label, conf in configs:
        key = {a: c.value for a, c in conf.items()}
        if key in seen:
            continue
        first = not seen
        seen.append(key)
        ms = cf.specialise(m, CLS, conf)
        _class_side(ctx if first else _Sfx(ctx, f' [{label}]'), ms)  # type: ignore[arg-type]
    ctx.unit('option_configurations', len(seen))
    ctx.unit('functions', 8)
