"""C26 Service cache is bounded, fresh and single-flight.

Decides from the syntax tree / CFG of gear/gear/time_limited_max_size_cache.py, gear/gear/auth.py and the JAR-cache site in
batch/front_end.py (nothing is run).  The class is analysed under the constructor options the two sites pass (constant propagation of
`self.<option>` into the methods, branches decided by the constants pruned); options that are not plain constants stay symbolic, i.e.
both branches are analysed.  `lookup` is analysed with its same-class helpers inlined; a coroutine that lookup registers as the shared
task (`self._futures[k] = asyncio.create_task(self.X(k))`) "runs later as a task" and is analysed as a second root for the insertion /
capacity / value obligations, while the registration frame keeps the deregistration obligation.
  R1 bounded   every `_put` (in lookup or in the task body) is followed, atomically and on every path, by the capacity test and (when over
               capacity) an eviction; `_over_capacity` is true whenever more than num_slots keys are held; `_evict_oldest` always removes one
               key; `_put` / `_remove` update the three maps together and in the order the SortedSet key function (reads _expiry_time)
               requires; no other method mutates the maps; the maps are per-instance (created in __init__); lookup files no per-key state that
               decides an outcome (branch / returned / raised value) in a table of its own unless `_remove` drops the key from it too
  R2 fresh     expiry = monotonic clock + lifetime_ns; the cached value is returned only after, atomically, the expiry of the same key
               was compared with the *same* clock and the expired entry removed; every value returned by lookup / stored by `_put` is the
               result of the awaited load (of this call or of the shared task) -- reaching definitions over all returns and `_put`s: a
               value read from `_cache` and carried in a local across the expiry removal or a suspension, a cached value re-`_put` with
               a fresh lifetime, or an exception object, is not
  R3 single    the load task is registered with no suspension point after the `k in self._futures` test (absent-edge), `self.load` is
               called only there (or awaited inside the registered task body), a lookup that finds a registered task starts no load, and
               the registration is removed on every exit (normal, error, cancellation) of the REGISTERING frame or by a done-callback
               attached before any suspension; a removal that lives only inside the registered task's own body does not run when the
               task is cancelled before its first step (possible whenever some await of the shared task is unshielded); the registering frame
               removes the registration NOT BEFORE the task has ended: every CFG path registration -> removal traverses the normal completion of
               an await of the task or the exceptional exit of an unshielded one (the exceptional exit of a shielded await -- caller cancelled,
               wait_for timeout -- or of a foreign suspension point leaves the task running, and unregistering it lets the next lookup load again)
  R4 isolation every `await` of a task read from the shared `_futures` map goes through asyncio.shield: otherwise cancelling one
               caller cancels the shared task and the other callers fail although neither their load failed nor they were cancelled
  R5 use site  gear/auth.py (session cache) and batch/front_end.py (JAR cache) build the cache with positive constant lifetime /
               capacity; auth.py only ever calls `.lookup` on it; constructor options are resolved per site
  R6 own fail  every `raise` statement of lookup (helpers inlined) / the task body is classified by the provenance of the raised object (reaching
               definitions, tuple unpacking, .get/[...] reads) and by what its guards read: a re-raise of the exception being handled is the
               lookup's own failure; an object read out of instance state that some method fills is a REMEMBERED failure; a fresh exception
               whose guard reads state written on the lookup path fails the lookup because of other lookups (circuit breaker, admission limit);
               the shutdown guard (state written only off the lookup path) is outside the property; anything else is declined
Does not decide: which entry is evicted (any one suffices for the bound), behaviour during shutdown(), the loader's own errors.
Normal forms (engines/c26norm): membership of the key in a map is one atom whatever its spelling (`k not in M`, `M.get(k) is None` also through a
local, truthiness of a task); predicate / accessor helpers called in a test are read as the expression they return; the capacity test is any linear
comparison of len(map) with num_slots (inlined or in `_over_capacity`), decided per branch edge; `_put` / `_remove` are read with their helpers inlined.
A FAIL needs a recognised shape that breaks the obligation; a shape that is merely different declines.  R4 / R3 constructs are keyed by role
(`waiter / loader awaits the shared task`, `registration`), not by statement text.
"""
from __future__ import annotations

import ast
from typing import Any, Dict, List, Optional, Set, Tuple

from engines import asyncfacts as af
from engines import c2426facts as cf
from engines import c26norm as cn
from engines import inline
from engines import pyfacts as pf
from engines.common import AnalysisError, Ctx

META = dict(
    category='other',
    text='Structural necessary conditions decided on the CFG: must-pass-through from each insertion to the capacity test/eviction with '
         'await-atomicity, table evaluation of the capacity and expiry comparisons over the order relation, writer/writer agreement of the three '
         'maps and of the clock used by writer and reader, reaching-definition provenance of every returned / stored value, single-flight '
         'registration atomicity and removal on every exit of the registering frame (incl. the set of finally/except blocks that run on '
         'CancelledError, done-callbacks, the never-started-task case for removals inside the task body, and registration-lifetime >= task-lifetime on the '
         'exceptional exits of shielded awaits), provenance of every raised object and of the state its guards read, a syntactic closure over every '
         'await of a shared task, constant propagation of the constructor options used at the session / JAR sites.  Not a proof over schedules.',
    note='Trusted: CPython ast; engines/pyfacts CFG; asyncio switches only at await; awaiting a Task from a cancelled coroutine cancels that Task '
         'unless wrapped in asyncio.shield; a Task cancelled before its first step never runs its body. Not decided: eviction policy, shutdown().',
    technique='static analysis: CFG must-pass/dominance + await-atomicity + cancellation-exit analysis + reaching definitions + constant propagation + finite truth tables',
    design_ref='DESIGN.md §3 C26, §4 F4',
)

F = 'gear/gear/time_limited_max_size_cache.py'
AU = 'gear/gear/auth.py'
JAR = 'batch/batch/front_end/front_end.py'
CLS = 'TimeLimitedMaxSizeCache'
MAPS = ('self._cache', 'self._expiry_time', 'self._keys_by_expiry')
FUT = 'self._futures'
CLOCK_OK = ('time.monotonic_ns',)
PRIMS = ('_put', '_remove', '_evict_oldest', '_over_capacity', 'shutdown', '__init__')
BASE_PARAMS = ['load', 'lifetime_ns', 'num_slots', 'cache_name']
TASK_MAKERS = ('asyncio.create_task', 'asyncio.ensure_future')
EXP = 'self._expiry_time'
CACHE = 'self._cache'
NONE_FREE = (FUT, EXP)   # maps whose values are never None (tasks; clock + lifetime): `M.get(k) is None` is `k not in M`
TRUTHY = (FUT,)          # maps whose values are always truthy (asyncio tasks)
FUT_READERS = ('get', 'pop', 'setdefault', '__getitem__')


class _Sfx:
    """ctx proxy that marks the constructs of a second option configuration"""

    def __init__(self, ctx: Ctx, sfx: str):
        self._ctx, self._sfx = ctx, sfx

    def __getattr__(self, name: str) -> Any:
        return getattr(self._ctx, name)

    def ok(self, rule, construct, detail=None, nontrivial=True):
        return self._ctx.ok(rule, construct + self._sfx, detail, nontrivial)

    def bad(self, rule, construct, message, file='', line=0, extra=None):
        if any(f.rule == rule and f.construct == construct for f in self._ctx.findings):
            return None  # the same construct already fails under the first configuration: one report
        return self._ctx.bad(rule, construct + self._sfx, message + self._sfx, file, line, extra)

    def check(self, cond, rule, construct, message, file='', line=0, detail=None, extra=None):
        if cond:
            self.ok(rule, construct, detail)
        else:
            self.bad(rule, construct, message, file, line, extra)
        return bool(cond)


class Body:
    """A coroutine method registered by lookup as the shared task."""

    def __init__(self, name: str, m: pf.Module, fn: pf.FuncDef, il):
        self.name, self.m, self.fn, self.il = name, m, fn, il
        self.cfg = pf.cfg(fn)
        self.k = fn.args.args[1].arg


class View:
    def __init__(self) -> None:
        self.m: pf.Module = None  # type: ignore[assignment]
        self.cls: ast.ClassDef = None  # type: ignore[assignment]
        self.mi: pf.Module = None  # type: ignore[assignment]
        self.clsi: ast.ClassDef = None  # type: ignore[assignment]
        self.il: Any = None
        self.lk: pf.FuncDef = None  # type: ignore[assignment]
        self.cfg: pf.CFG = None  # type: ignore[assignment]
        self.k = 'k'
        self.bodies: Dict[str, Body] = {}
        self.absorbed: Set[str] = set()
        self.deferred: List[str] = []
        self.tt: Dict[str, cn.MapTests] = {}     # root name -> membership facts of its tests (canonical forms)
        self.prim: Dict[str, Tuple[pf.Module, pf.FuncDef]] = {}   # `_put` / `_remove` with their own helpers inlined
        self.prim_helpers: Set[str] = set()      # helpers that exist only as part of `_put` / `_remove`
        self.preds: List[str] = []               # predicate / accessor helpers expanded into the roots

    def roots(self) -> List[Tuple[str, pf.Module, pf.FuncDef, pf.CFG, str]]:
        return [('lookup', self.mi, self.lk, self.cfg, self.k)] + [(b.name, b.m, b.fn, b.cfg, b.k) for b in self.bodies.values()]


def _is_fut_store(t: ast.AST) -> bool:
    return isinstance(t, ast.Subscript) and pf.nsrc(t.value) == FUT


def _regs(cfg: pf.CFG) -> List[pf.Node]:
    return af.stmt_nodes(cfg, lambda n: n.kind == 'stmt' and isinstance(n.ast, ast.Assign) and any(_is_fut_store(t) for t in n.ast.targets))


def _task_call(fn: pf.FuncDef, G: pf.Node) -> Optional[ast.Call]:
    """the coroutine call C in `self._futures[k] = asyncio.create_task(C)` (the task may go through a single-definition local)"""
    val = pf.resolve_expr(fn, G.ast.value)  # type: ignore[union-attr]
    if isinstance(val, ast.Call) and pf.dotted(val.func) in TASK_MAKERS and len(val.args) == 1:
        arg = pf.resolve_expr(fn, val.args[0])
        if isinstance(arg, ast.Call):
            return arg
    return None


def _reads_fut(e: ast.AST) -> bool:
    """e evaluates to a task read out of the shared map: `self._futures[x]`, `self._futures.get(x)` / .pop / .setdefault"""
    if isinstance(e, ast.Subscript) and isinstance(e.ctx, ast.Load) and pf.nsrc(e.value) == FUT:
        return True
    return isinstance(e, ast.Call) and isinstance(e.func, ast.Attribute) and e.func.attr in FUT_READERS and pf.nsrc(e.func.value) == FUT


def _task_aliases(fn: ast.AST) -> Set[str]:
    """locals that may hold a shared task (flow-insensitive may-alias): stored into / read out of `self._futures`, and copies of those"""
    alias: Set[str] = set()
    copies: List[Tuple[str, str]] = []
    for w in pf.walk_shallow(fn):
        if isinstance(w, ast.NamedExpr) and isinstance(w.target, ast.Name):
            tg: List[ast.AST] = [w.target]
            val: Optional[ast.AST] = w.value
        elif isinstance(w, ast.Assign):
            tg, val = list(w.targets), w.value
        elif isinstance(w, ast.AnnAssign) and w.value is not None:
            tg, val = [w.target], w.value
        else:
            continue
        names = {t.id for t in tg if isinstance(t, ast.Name)}
        if any(_is_fut_store(t) for t in tg):
            alias |= names
            if isinstance(val, ast.Name):
                alias.add(val.id)
        elif val is not None and _reads_fut(val):
            alias |= names
        elif isinstance(val, ast.Name):
            copies += [(n, val.id) for n in names]
    changed = True
    while changed:
        changed = False
        for a, b in copies:
            if b in alias and a not in alias:
                alias.add(a)
                changed = True
    return alias


def _task_mentions(fn: pf.FuncDef, e: ast.AST, alias: Set[str]) -> List[bool]:
    """for every mention of a shared task in the awaited expression e (read through single-definition locals, e.g. a wrapper coroutine
    built in a statement of its own): is it wrapped in asyncio.shield?"""
    out: List[bool] = []
    params = {a.arg for a in fn.args.posonlyargs + fn.args.args + fn.args.kwonlyargs}

    def walk(x: ast.AST, shielded: bool, depth: int) -> None:
        if isinstance(x, ast.Lambda):
            return
        if _reads_fut(x) or (isinstance(x, ast.Name) and x.id in alias):
            out.append(shielded)
            return
        if isinstance(x, ast.Name) and isinstance(x.ctx, ast.Load) and x.id not in params and depth > 0:
            d = pf.single_def(fn, x.id)
            if isinstance(d, ast.expr) and not isinstance(d, (ast.Await, ast.Yield, ast.YieldFrom)):
                walk(d, shielded, depth - 1)
            return
        if isinstance(x, ast.Call) and pf.dotted(x.func) in ('asyncio.shield', 'shield'):
            shielded = True
        for c in ast.iter_child_nodes(x):
            walk(c, shielded, depth)
    walk(e, False, 3)
    return out


def _calls_loader(fn: pf.FuncDef, e: ast.AST, depth: int = 3) -> bool:
    """e (read through single-definition locals) contains the call `self.load(...)`"""
    for x in ast.walk(e):
        if isinstance(x, ast.Call) and pf.dotted(x.func) == 'self.load':
            return True
        if isinstance(x, ast.Name) and isinstance(x.ctx, ast.Load) and depth > 0:
            d = pf.single_def(fn, x.id)
            if isinstance(d, ast.expr) and not isinstance(d, (ast.Await, ast.Yield, ast.YieldFrom)) and _calls_loader(fn, d, depth - 1):
                return True
    return False


def _self_refs(node: ast.AST, name: str) -> List[ast.Attribute]:
    return [x for x in ast.walk(node) if isinstance(x, ast.Attribute) and x.attr == name and isinstance(x.value, ast.Name) and x.value.id == 'self'
            and isinstance(x.ctx, ast.Load)]


def _view(ctx: Ctx, m: pf.Module) -> View:
    v = View()
    v.m, v.cls = m, m.cls(CLS)
    # lookup is analysed with its same-class helpers inlined; the primitives the rules speak about stay calls
    v.mi, v.il = inline.inline_methods(m, CLS, 'lookup', exclude=PRIMS)
    v.clsi = v.mi.cls(CLS)
    v.lk = af.method(v.mi, v.clsi, 'lookup')
    ctx.need(len(v.lk.args.args) == 2, 'lookup parameters changed')
    v.k = v.lk.args.args[1].arg
    methods = {f.name: f for f in v.cls.body if isinstance(f, (ast.FunctionDef, ast.AsyncFunctionDef))}
    # helpers that abbreviate one expression (`self._is_expired(k)`, `self._over_capacity()`) are read as that expression
    v.preds += cn.inline_predicates(v.lk, {n: f for n, f in methods.items() if n != 'lookup'}, v.lk.args.args[0].arg)
    v.cfg = pf.cfg(v.lk)
    for G in _regs(v.cfg):
        tc = _task_call(v.lk, G)
        d = pf.dotted(tc.func) if tc is not None else None
        if d and d.startswith('self.') and d != 'self.load' and d[5:] in methods and d[5:] not in v.bodies:
            X = d[5:]
            ctx.need(isinstance(methods[X], ast.AsyncFunctionDef) and X not in PRIMS and X != 'lookup' and not methods[X].decorator_list,
                     f'lookup registers `{pf.nsrc(tc)}` as the shared task: not a plain coroutine method')
            mx, ilx = inline.inline_methods(m, CLS, X, exclude=PRIMS + ('lookup',))
            fx = af.method(mx, mx.cls(CLS), X)
            v.preds += cn.inline_predicates(fx, {n: f for n, f in methods.items() if n not in ('lookup', X)}, fx.args.args[0].arg if fx.args.args else 'self')
            ctx.need(len(fx.args.args) == 2 and not fx.args.kwonlyargs and not fx.args.vararg and not fx.args.kwarg, f'{CLS}.{X}: task body does not take exactly the key')
            ctx.need(tc is not None and [pf.nsrc(a) for a in tc.args] == [v.k] and not tc.keywords, f'lookup registers `{pf.nsrc(tc)}`: the task body is not started for the key `{v.k}`')
            v.bodies[X] = Body(X, mx, fx, ilx)
    # helpers that have no life of their own: every reference was expanded into a root (lookup / a task body)
    roots = {'lookup': (v.lk, v.il)}
    roots.update({b.name: (b.fn, b.il) for b in v.bodies.values()})
    inl: Set[str] = set()
    skipped: Set[str] = set()
    for _, il in roots.values():
        inl |= {n for n, _ in il.inlined}
        skipped |= {n for n, _, _ in il.skipped}
    cand = {h for h in inl - skipped if h not in PRIMS and h not in roots and not any(_self_refs(fn, h) for fn, _ in roots.values())}
    refs = {h: {f.name for f in methods.values() if _self_refs(f, h)} for h in cand}
    changed = True
    while changed:
        changed = False
        for h in cand - v.absorbed:
            if refs[h] and all(r in roots or r in v.absorbed for r in refs[h]):
                v.absorbed.add(h)
                changed = True
    # a task body is only ever started by lookup's registration
    for X in v.bodies:
        users = {f.name for f in methods.values() if _self_refs(f, X)}
        ctx.need(all(u == 'lookup' or u in v.absorbed for u in users), f'{CLS}.{X} is also referenced outside lookup ({sorted(users)}): not analysed')
        started = {id(tc.func) for G in _regs(v.cfg) for tc in [_task_call(v.lk, G)] if tc is not None}
        ctx.need(all(id(r) in started for r in _self_refs(v.lk, X)), f'{CLS}.{X} is used in lookup other than as the registered task: not analysed')
    for name, _, fn, cfg, k in v.roots():
        v.tt[name] = cn.MapTests(fn, cfg, k, MAPS + (FUT,), NONE_FREE, TRUTHY)
        # a same-class call that could be neither inlined nor read as an expression hides what the path rules reason about
        for c in pf.calls_in(fn, False):
            d = pf.dotted(c.func) or ''
            if d.startswith('self.') and d[5:] in methods and d[5:] not in PRIMS and d[5:] not in v.bodies:
                why = next((w for n2, _, w in roots[name][1].skipped if n2 == d[5:]), 'not a statement-level call')
                v.deferred.append(f'{CLS}.{name}: `{pf.nsrc(c)}` calls a helper that could not be inlined ({why}): not analysed')
    return v


def _map_writes(m: pf.Module, fn: ast.AST, nested: bool = False) -> List[Tuple[str, str, str, ast.AST]]:
    """(map, op, key-src, stmt) for every mutation of one of the three maps / _futures in fn, in source order."""
    out = []
    for st in pf.walk_shallow(fn, nested):
        if isinstance(st, ast.Assign):
            for t in st.targets:
                if isinstance(t, ast.Subscript) and pf.nsrc(t.value) in MAPS + (FUT,):
                    out.append((pf.nsrc(t.value), 'set', pf.nsrc(t.slice), st))
                elif isinstance(t, ast.Attribute) and pf.nsrc(t) in MAPS + (FUT,):
                    out.append((pf.nsrc(t), 'rebind', '', st))
        elif isinstance(st, ast.Delete):
            for t in st.targets:
                if isinstance(t, ast.Subscript) and pf.nsrc(t.value) in MAPS + (FUT,):
                    out.append((pf.nsrc(t.value), 'del', pf.nsrc(t.slice), st))
        elif isinstance(st, ast.Call) and isinstance(st.func, ast.Attribute) and pf.nsrc(st.func.value) in MAPS + (FUT,):
            meth = st.func.attr
            if meth in ('add', 'remove', 'discard', 'pop', 'clear', 'update', 'popitem', 'setdefault', '__setitem__', '__delitem__'):
                out.append((pf.nsrc(st.func.value), meth, pf.nsrc(st.args[0]) if st.args else '', st))
    return out  # pf.walk_shallow is a pre-order walk: statement order (line numbers would misplace the body of an inlined helper)


def _stmt_of(m: pf.Module, fn: pf.FuncDef, node: ast.AST) -> ast.stmt:
    par = m.parents()
    cur = node
    while not isinstance(cur, ast.stmt):
        cur = par[cur]
    return cur


def _top_level_unconditional(fn: pf.FuncDef, st: ast.AST, m: pf.Module) -> bool:
    s = _stmt_of(m, fn, st)
    return any(s is x for x in fn.body)


def _prims(ctx: Ctx, v: View) -> None:
    """`_put` / `_remove` are read with their own helpers inlined (an index update extracted into a helper is still part of them)"""
    m, cls = v.m, v.cls
    names = {f.name for f in cls.body if isinstance(f, (ast.FunctionDef, ast.AsyncFunctionDef))}
    inl: Set[str] = set()
    for nm in ('_put', '_remove'):
        af.method(m, cls, nm)
        mx, ilx = inline.inline_methods(m, CLS, nm, exclude=tuple(x for x in PRIMS if x != nm) + ('lookup',))
        fx = af.method(mx, mx.cls(CLS), nm)
        left = [c for c in pf.calls_in(fx, True) if (pf.dotted(c.func) or '').startswith('self.') and (pf.dotted(c.func) or '')[5:] in names]
        ctx.need(not left, f'{CLS}.{nm} calls `{pf.nsrc(left[0]) if left else ""}`, which could not be inlined: map updates not analysed')
        v.prim[nm] = (mx, fx)
        inl |= {h for h, _ in ilx.inlined}
    refs = {h: {f.name for f in cls.body if isinstance(f, (ast.FunctionDef, ast.AsyncFunctionDef)) and _self_refs(f, h)} for h in inl}
    changed = True
    while changed:
        changed = False
        for h in inl - v.prim_helpers:
            if refs[h] and all(r in ('_put', '_remove') or r in v.prim_helpers for r in refs[h]):
                v.prim_helpers.add(h)
                changed = True


def _r1_maps(ctx: Ctx, v: View) -> None:
    m, cls = v.m, v.cls
    # key function of the SortedSet
    init = af.method(m, cls, '__init__')
    kdef = [st for st in init.body if isinstance(st, ast.Assign) and pf.nsrc(st.targets[0]) == 'self._keys_by_expiry']
    ctx.need(len(kdef) == 1 and isinstance(kdef[0].value, ast.Call), '__init__: _keys_by_expiry is not built by one constructor call')
    kcall = kdef[0].value
    ctx.need(pf.dotted(kcall.func) in ('sortedcontainers.SortedSet', 'SortedSet'), f'_keys_by_expiry is `{pf.nsrc(kcall)}`, not a SortedSet')
    keyf = [k.value for k in kcall.keywords if k.arg == 'key']
    ctx.need(len(keyf) == 1, 'SortedSet is not built with one key= function')
    kf = keyf[0]
    if isinstance(kf, ast.Lambda):
        ctx.need(len(kf.args.args) == 1, 'SortedSet key is not a one-argument lambda')
        kbody, kparam = kf.body, kf.args.args[0].arg
    else:
        # a bound method / accessor helper that abbreviates one expression: `key=self._expiry_time_of`
        d = pf.dotted(kf) or ''
        hs = [f for f in cls.body if isinstance(f, ast.FunctionDef) and d == f'self.{f.name}']
        ctx.need(len(hs) == 1 and len(hs[0].args.args) == 2, f'SortedSet key `{pf.nsrc(kf)}` is neither a one-argument lambda nor a one-argument method of the class')
        pe = cn.predicate_expr(hs[0])
        ctx.need(pe is not None, f'SortedSet key `{pf.nsrc(kf)}`: the method does not abbreviate one expression')
        recv = hs[0].args.args[0].arg
        ctx.need(recv == 'self' or recv not in pf.names_in(pe), f'SortedSet key `{pf.nsrc(kf)}`: receiver is not called self')
        kbody, kparam = pe, hs[0].args.args[1].arg
    # `.get(k)` would order a missing key as None: only the subscript spelling is the recognised read of the expiry time
    reads_expiry = pf.nsrc(kbody) == f'self._expiry_time[{kparam}]'
    ctx.need(reads_expiry, f'SortedSet key function `{pf.nsrc(kf)}` does not read self._expiry_time[k] (ordering by expiry not recognised)')

    # the maps belong to the instance: created empty in __init__, not shared through a mutable class attribute
    for mp in ('_futures', '_cache', '_expiry_time'):
        own = [st for st in init.body if isinstance(st, (ast.Assign, ast.AnnAssign)) and st.value is not None
               and any(pf.nsrc(t) == f'self.{mp}' for t in (st.targets if isinstance(st, ast.Assign) else [st.target]))]
        fresh = [st for st in own if (isinstance(st.value, ast.Dict) and not st.value.keys) or (isinstance(st.value, ast.Call) and pf.dotted(st.value.func) in ('dict', 'collections.OrderedDict', 'OrderedDict')
                                                                                              and not st.value.args and not st.value.keywords)]
        shared = [st for st in cls.body if isinstance(st, (ast.Assign, ast.AnnAssign)) and getattr(st, 'value', None) is not None
                  and any(isinstance(t, ast.Name) and t.id == mp for t in (st.targets if isinstance(st, ast.Assign) else [st.target]))]
        cons = f'{F}::{CLS}::self.{mp} is per instance'
        if fresh and len(own) == len(fresh):
            ctx.ok('R1', cons, 'fresh dict in __init__')
        elif not own and shared:
            ctx.bad('R1', cons, f'`{pf.nsrc(shared[0])}` is a mutable class attribute and __init__ does not create a dict of its own: every {CLS} of the process '
                    '(session cache, JAR cache, k8s caches) shares it, so one cache serves/evicts the other\'s entries, the shared dict holds up to the SUM of the '
                    'capacities and a key collision returns a value loaded by a different loader', m.path, getattr(shared[0], 'lineno', 0))
        else:
            raise AnalysisError(f'{cons}: not initialised with an empty dict in __init__ (found {[pf.nsrc(s) for s in own + shared]})')

    prim = v.prim
    (pm, put), (rm_, rem) = prim['_put'], prim['_remove']
    kp = [a.arg for a in put.args.args]
    kr = [a.arg for a in rem.args.args]
    ctx.need(len(kp) == 3 and len(kr) == 2, f'_put/_remove parameters changed: {kp} {kr}')
    for fm, fn, key, want, label in ((pm, put, kp[1], {'self._cache': ('set',), 'self._expiry_time': ('set',), 'self._keys_by_expiry': ('add',)}, 'adds'),
                                     (rm_, rem, kr[1], {'self._cache': ('del', 'pop'), 'self._expiry_time': ('del', 'pop'), 'self._keys_by_expiry': ('remove', 'discard')}, 'removes')):
        ws = _map_writes(fm, fn)
        extra = [w for w in ws if not (w[0] in want and w[1] in want[w[0]] and w[2] == key)]
        ctx.need(not extra, f'{CLS}.{fn.name}: unrecognised map mutation `{pf.nsrc(extra[0][3])}`' if extra else '')
        allhit = True
        for mp, ops in want.items():
            every = [w for w in ws if w[0] == mp]
            hit = [w for w in every if _top_level_unconditional(fn, w[3], fm)]
            cons = f'{F}::{CLS}.{fn.name}::{mp}'
            if len(hit) == 1 and len(every) == 1:
                ctx.ok('R1', cons, label)
                continue
            allhit = False
            # a conditional / repeated update has the right operation but a shape this rule does not decide; only "never touches the map" is a verdict
            ctx.need(not every, f'{cons}: `{pf.nsrc(every[0][3]) if every else ""}` is conditional or repeated (shape not recognised)')
            ctx.bad('R1', cons, f'{fn.name} never {label[:-1]} key `{key}` {"to" if fn is put else "from"} {mp}: the three maps drift apart, so the size test / the expiry test no longer '
                    f'cover what lookup returns', m.path, fn.lineno)
        # order imposed by the key function (statement order of the unconditional top-level updates)
        pos = {w[0]: i for i, w in enumerate(ws) if w[0] in want}
        if allhit and len(pos) == 3:
            if fn is put:
                ok = pos['self._expiry_time'] < pos['self._keys_by_expiry']
                msg = 'adds the key to the SortedSet before its expiry time is stored: the key function reads self._expiry_time[k] (KeyError / sorted by a stale time)'
            else:
                ok = pos['self._keys_by_expiry'] < pos['self._expiry_time']
                msg = 'deletes the expiry time before removing the key from the SortedSet: the removal evaluates the key function on a deleted entry (KeyError), the lookup fails'
            ctx.check(ok, 'R1', f'{F}::{CLS}.{fn.name}::order', f'{fn.name} {msg}', m.path, fn.lineno)
    # no other method mutates the maps -- other than by a complete update of all three (a `_remove` / `_put` written out in place)
    INS, DEL = ('set', 'add'), ('del', 'pop', 'remove', 'discard')
    clean = 0
    for st in cls.body:
        if isinstance(st, (ast.FunctionDef, ast.AsyncFunctionDef)) and st.name not in ('__init__', '_put', '_remove') and st.name not in v.prim_helpers:
            ws = [w for w in _map_writes(m, st) if w[0] in MAPS]
            cons = f'{F}::{CLS}.{st.name}::no direct map mutation'
            if not ws:
                clean += 1
                continue
            odd = [w for w in ws if w[1] not in INS + DEL]
            ctx.need(not odd, f'{cons}: `{pf.nsrc(odd[0][3]) if odd else ""}` is not a recognised update of a cache map')
            partial = None
            for key in sorted({w[2] for w in ws}):
                grp = [w for w in ws if w[2] == key]
                kinds = {'ins' if w[1] in INS else 'del' for w in grp}
                if {w[0] for w in grp} == set(MAPS) and len(kinds) == 1 and len(grp) == 3:
                    continue  # the three maps updated together for one key
                ctx.need(len(kinds) == 1, f'{cons}: `{pf.nsrc(grp[0][3])}` mixes insertions and removals for `{key}` (shape not recognised)')
                partial = partial or grp[0]
            if partial is None:
                ctx.ok('R1', cons, 'complete three-map updates written out in place')
            else:
                ctx.bad('R1', cons, f'`{pf.nsrc(partial[3])}` in {st.name} updates {partial[0]} for `{partial[2]}` without the other cache maps (outside _put/_remove): the maps drift '
                        f'apart (and an expiry time rewritten in place keeps a value alive beyond lifetime_ns since its load)', m.path, getattr(partial[3], 'lineno', st.lineno))
    ctx.ok('R1', f'{F}::{CLS}::methods that do not touch the cache maps', {'methods': clean})


def _capacity_form(fn: pf.FuncDef, t: pf.Node, helpers: Optional[Dict[str, pf.FuncDef]] = None) -> Optional[Tuple[ast.AST, Optional[Tuple[Any, bool]], List[pf.Node]]]:
    """If test t measures one of the cache maps: (expression read through locals, its linear form in n = len(map) and S = self.num_slots
    -- None when it is not such a comparison --, the nodes at which the length was read).  None when t does not look at a map size."""
    e = pf.expand_locals(fn, t.ast)
    if helpers and any((pf.dotted(c.func) or '').startswith('self.') for c in ast.walk(e) if isinstance(c, ast.Call)):
        import copy as _copy
        e = cn._PredInline(helpers, 'self').visit(_copy.deepcopy(e))  # `self._over_capacity()` read as the expression it abbreviates
    sized = [mp for mp in MAPS if af.mentions(e, f'len({mp})')]
    if not sized:
        return None
    lin = None
    core = e.operand if isinstance(e, ast.UnaryOp) and isinstance(e.op, ast.Not) else e
    if len(sized) == 1 and isinstance(core, ast.Compare):
        nz = af.compare_leq_zero(core, {f'len({sized[0]})': 'n', 'self.num_slots': 'S'})
        if nz is not None and set(nz[0]) <= {'n', 'S', '1'} and nz[0].get('n', 0) != 0:
            d, strict = nz
            if core is not e:  # not (d < 0)  ==  -d <= 0
                d, strict = af.lin_neg(d), not strict
            lin = (d, strict)
    defs: List[pf.Node] = []
    if pf.expand_locals(fn, t.ast) is not t.ast:
        cfg = pf.cfg(fn)
        for nm in sorted(pf.names_in(t.ast)):
            dd = pf.single_def(fn, nm)
            if isinstance(dd, ast.expr) and any(af.mentions(pf.expand_locals(fn, dd), f'len({mp})') for mp in MAPS):
                defs += cn._assign_nodes(cfg, nm)
    return e, lin, defs


def _over_capacity_edges(d: Dict[str, Any], strict: bool) -> Dict[str, Optional[Tuple[int, int]]]:
    """Which edges of the test  a*n + b*S + c (< | <=) 0  can a state with MORE than S entries (n = S + m, m >= 1, S >= 1) take?
    label -> a witness (n, S), decided from the sign of the coefficients (the form is monotone in m and in S)."""
    a, b, c = d.get('n', 0), d.get('S', 0), d.get('1', 0)
    e = a + b  # f(m, S) = a*m + e*S + c

    def f(m_: int, s_: int):
        return a * m_ + e * s_ + c

    def true_at(m_: int, s_: int) -> bool:
        return f(m_, s_) < 0 if strict else f(m_, s_) <= 0
    out: Dict[str, Optional[Tuple[int, int]]] = {'T': None, 'F': None}
    # the extreme points of a linear form over the quadrant m >= 1, S >= 1 lie at the corner or at infinity along an axis
    big = 10 ** 6
    for m_, s_ in ((1, 1), (big, 1), (1, big), (big, big)):
        lab = 'T' if true_at(m_, s_) else 'F'
        if out[lab] is None:
            out[lab] = (s_ + m_, s_)
    return out


def _is_eviction(fn: pf.FuncDef, n: pf.Node, has_evict: bool) -> bool:
    """the node removes one key that is held in the maps: `self._evict_oldest()` or `self._remove(<key read from a cache map>)`"""
    if has_evict and af.node_is_call(n, 'self._evict_oldest') is not None:
        return True
    c = af.node_is_call(n, 'self._remove')
    if c is not None and len(c.args) == 1:
        arg = pf.resolve_expr(fn, c.args[0])
        return isinstance(arg, ast.Subscript) and pf.nsrc(arg.value) in MAPS
    return False


def _r1_capacity(ctx: Ctx, v: View) -> None:
    m, cls = v.mi, v.clsi
    methods = {f.name: f for f in cls.body if isinstance(f, (ast.FunctionDef, ast.AsyncFunctionDef))}
    has_evict = '_evict_oldest' in methods
    if has_evict:
        eo = methods['_evict_oldest']
        cfg = pf.cfg(eo)
        rm = af.stmt_nodes(cfg, lambda n: af.node_is_call(n, 'self._remove') is not None)
        ok = len(rm) == 1 and cfg.dominated_by(cfg.exit, lambda n: n is rm[0])
        if not ok:
            # a verdict needs a body that is understood: no removal at all and nothing that could hide one
            opaque = rm or [c for c in pf.calls_in(eo, True) if (pf.dotted(c.func) or '').startswith('self.')] or _map_writes(m, eo)
            ctx.need(not opaque, '_evict_oldest does not remove exactly one key on every path through one `self._remove(...)` call (shape not recognised)')
            ctx.bad('R1', f'{F}::{CLS}::eviction removes one held key', '_evict_oldest removes nothing: an insertion over capacity is not compensated', m.path, eo.lineno)
        else:
            ctx.ok('R1', f'{F}::{CLS}::eviction removes one held key', '_evict_oldest always removes one key')
            c = af.node_is_call(rm[0], 'self._remove')
            arg = pf.resolve_expr(eo, c.args[0]) if c is not None and c.args else None
            held = isinstance(arg, ast.Subscript) and pf.nsrc(arg.value) in MAPS
            ctx.need(held, f'_evict_oldest removes `{pf.nsrc(arg) if arg is not None else "?"}`, not a key read from the cache maps')

    n = 0
    for name, mm, fn, fcfg, _ in v.roots():
        puts = af.stmt_nodes(fcfg, lambda x: af.node_is_call(x, 'self._put') is not None)
        n += len(puts)
        _capacity_after_puts(ctx, mm, name, fn, fcfg, puts, has_evict)
    ctx.need(n >= 1, 'neither lookup nor the task it registers calls _put (directly or through an inlinable helper)')
    if not has_evict:
        evs_all = [x for _, _, fn, fcfg, _ in v.roots() for x in af.stmt_nodes(fcfg, lambda y, fn=fn: _is_eviction(fn, y, False))]
        ctx.need(bool(evs_all), 'no `_evict_oldest` method and no `self._remove(<key read from a cache map>)` on the loader path (eviction not recognised)')
        ctx.ok('R1', f'{F}::{CLS}::eviction removes one held key', f'`{evs_all[0].text()}` written out on the loader path')


def _capacity_after_puts(ctx: Ctx, m: pf.Module, fname: str, fn: pf.FuncDef, cfg: pf.CFG, puts: List[pf.Node], has_evict: bool) -> None:
    cls = m.cls(CLS)
    put_m = af.method(m, cls, '_put')
    for i, P in enumerate(puts):
        cons = f'{F}::{CLS}.{fname}::insertion{" #" + str(i + 1) if i else ""} is followed by the capacity test'
        pc = af.node_is_call(P, 'self._put')
        if pc is not None and pc.args and _removes_first(cfg, P, pf.nsrc(pc.args[0]), absent_edges=False):
            ctx.ok('R1', cons, 'replaces the entry it has just removed: the number of entries does not grow')
            continue
        helpers = {f.name: f for f in cls.body if isinstance(f, (ast.FunctionDef, ast.AsyncFunctionDef)) and f is not fn}
        forms = {t.id: _capacity_form(fn, t, helpers) for t in cfg.nodes if t.kind == 'test' and t.ast is not None}
        tests = [t for t in cfg.nodes if t.kind == 'test' and forms.get(t.id) is not None]
        after = [t for t in tests if af.direct(cfg, P, t)]
        evs = af.stmt_nodes(cfg, lambda x: _is_eviction(fn, x, has_evict))
        if not after:
            # "no capacity test" is a verdict only if nothing else could bound the cache: no size test anywhere in this frame, no eviction,
            # and a `_put` that is the plain three-map insertion (no eviction moved into it)
            hidden = [c for c in pf.calls_in(put_m, True) if (pf.dotted(c.func) or '').startswith('self.') and not (pf.dotted(c.func) or '').startswith(MAPS)] \
                or [x for x in pf.walk_shallow(put_m) if isinstance(x, (ast.If, ast.While))]
            ctx.need(not tests and not evs and not hidden, f'{cons}: no size test follows `{P.text()}` but the frame / `_put` tests the size or evicts elsewhere (shape not recognised)')
            ctx.bad('R1', cons, f'after `{P.text()}` the frame returns without ever comparing the number of entries with num_slots and evicting: each such lookup leaves one '
                    'more entry in the cache, which grows beyond num_slots', m.path, P.lineno)
            continue
        ctx.need(len(after) == 1, f'{cons}: {len(after)} size tests follow `{P.text()}` (shape not recognised)')
        t = after[0]
        e, lin, defs = forms[t.id]  # type: ignore[misc]
        ctx.need(lin is not None, f'{cons}: `{pf.nsrc(e)}` is not a linear comparison of the size of one cache map with self.num_slots')
        ctx.need(af.must_pass(cfg, P, lambda x: x is cfg.exit, lambda x: x is t) is None, f'{cons}: some path from `{P.text()}` to the return does not evaluate `{pf.nsrc(t.ast)}` (not analysed)')
        # a size read into a local must have been read after the insertion
        ctx.need(all(af.direct(cfg, P, d) and cfg.dominated_by(d, lambda x: x is P) for d in defs),
                 f'{cons}: the size tested by `{pf.nsrc(t.ast)}` is read into a local before the insertion (not analysed)')
        d, strict = lin  # type: ignore[misc]
        reach = _over_capacity_edges(d, strict)
        failing = None
        for lab in ('T', 'F'):
            w = reach[lab]
            if w is None or not any(l2 == lab for _, l2 in t.succ):
                continue
            p = af.must_pass(cfg, t, lambda x: x is cfg.exit, lambda x: any(x is y for y in evs), first_label=lab)
            if p is not None:
                failing = (lab, w)
        cons_t = f'{F}::{CLS}.{fname}::capacity test{" #" + str(i + 1) if i else ""}'
        if failing is not None:
            lab, w = failing
            ctx.bad('R1', cons_t, f'`{pf.nsrc(e)}` (i.e. {af.lin_str(d)} {"<" if strict else "<="} 0) is {lab == "T"} for len = {w[0]}, num_slots = {w[1]}, and on that branch '
                    f'the frame returns without evicting: the insertion that exceeds the capacity is not compensated and the cache holds more than num_slots entries',
                    m.path, t.lineno)
            continue
        ctx.ok('R1', cons_t, {'test': pf.nsrc(e), 'over-capacity states take': [lab for lab in ('T', 'F') if reach[lab] is not None]})
        between = list(af.between(cfg, P, t)) + [t]
        for lab in ('T', 'F'):
            if reach[lab] is not None:
                for ev in evs:
                    between += af.between(cfg, t, ev, lab)
        aw = [x for x in between if pf.node_has_await(x)]
        ctx.check(not aw, 'R1', cons, f'`{aw[0].text() if aw else ""}` suspends between the insertion and the eviction: other lookups observe (and add to) an '
                  f'over-full cache', m.path, P.lineno, detail={'test': pf.nsrc(e)})


def _removes_first(cfg: pf.CFG, node: pf.Node, key: str, absent_edges: bool = True, tt: Optional[cn.MapTests] = None) -> bool:
    """Forward must-analysis: on every path to `node` the last relevant event is `self._remove(key)` or the absent edge of a
    membership test of `key` in one of the three maps, with no suspension and no insertion afterwards."""
    def is_rm(n: pf.Node) -> bool:
        c = af.node_is_call(n, 'self._remove')
        return c is not None and [pf.nsrc(a) for a in c.args] == [key]
    preds: Dict[int, List[Tuple[pf.Node, str]]] = {}
    for a in cfg.nodes:
        for b, lab in a.succ:
            preds.setdefault(b.id, []).append((a, lab))
    out: Dict[int, bool] = {n.id: True for n in cfg.nodes}  # optimistic start, greatest fixpoint
    out[cfg.entry.id] = False

    def edge_val(a: pf.Node, lab: str) -> bool:
        if absent_edges and a.kind == 'test' and lab in ('T', 'F'):
            if any(cf.implied(a.ast, lab, f'{key} in {mp}', False) for mp in MAPS):
                return True
            if tt is not None and tt.key == key and not tt.decisions(a) and any(tt.implies(a, lab, mp, False) for mp in MAPS):
                return True  # the same fact in another spelling (`M.get(k) is None`), read in the test itself
        return out[a.id]
    changed = True
    while changed:
        changed = False
        for n in cfg.nodes:
            if n is cfg.entry:
                continue
            ps = preds.get(n.id, [])
            inn = bool(ps) and all(edge_val(a, lab) for a, lab in ps)
            if is_rm(n):
                val = True
            elif pf.node_has_await(n) or (n.ast is not None and n.kind != 'test' and any(pf.dotted(c.func) == 'self._put' for c in pf.node_calls(n))):
                val = False
            else:
                val = inn
            if n is node:
                val = inn  # the state in which the insertion itself runs
            if val != out[n.id]:
                out[n.id] = val
                changed = True
    return out[node.id]


def _on_loader_path(v: View, name: str) -> bool:
    return name == 'lookup' or name in v.bodies or name in v.absorbed


def _r1_put_callers(ctx: Ctx, v: View) -> None:
    """who-may-call `_put`: `_keys_by_expiry.add(k)` is a no-op for a key that is already filed, which would stay filed under its old expiry
    (SortedSet caches the key function's value).  `_put` is therefore only sound where the key is absent from the index: on lookup's loader
    path (absent at the miss decision, single flight keeps it absent; the registered task body is part of that path), or right after removing it."""
    m, cls = v.m, v.cls
    put = v.prim['_put'][1]
    kp = put.args.args[1].arg
    pcfg = pf.cfg(put)
    adds = af.stmt_nodes(pcfg, lambda n: af.node_is_call(n, 'self._keys_by_expiry.add') is not None)
    ctx.need(len(adds) == 1, '_put: index insertion not found')

    self_guarded = _removes_first(pcfg, adds[0], kp)
    funcs = [(q, fn) for q, fn in m.functions() if q.startswith(CLS + '.')]

    def sites(name: str):
        return [(q, fn, c) for q, fn in funcs for c in pf.calls_in(fn, False) if pf.dotted(c.func) == f'self.{name}']
    n = 0
    for q, fn, c in sites('_put'):
        n += 1
        parts = q.split('.')
        cons = f'{F}::{q}::{pf.nsrc(c)}'
        if self_guarded:
            ctx.ok('R1', cons + '::key absent', '_put removes an existing entry first')
            continue
        fcfg = pf.cfg(fn)
        nodes = [x for x in fcfg.nodes if x.ast is not None and any(y is c for y in ast.walk(x.ast)) and x.kind != 'def']
        key = pf.nsrc(c.args[0]) if c.args else '?'
        if len(parts) == 2 and _on_loader_path(v, parts[1]):
            # absent at the miss decision -- unless this very frame read the key's entry as still present before (a hit that re-inserts)
            ctx.ok('R1', cons + '::key absent', 'on lookup\'s loader path (analysed inlined)' if parts[1] not in v.bodies else 'in the task body registered by lookup on a miss')
            continue
        ftt = cn.MapTests(fn, fcfg, key, MAPS + (FUT,), NONE_FREE, TRUTHY)
        ok = bool(nodes) and all(_removes_first(fcfg, x, key, tt=ftt) for x in nodes)
        if not ok:
            unk = [t for t in ftt.tests if any(ftt.foreign_atoms(t, mp) for mp in MAPS)]
            ctx.need(not unk and nodes, f'{cons}::key absent: `{pf.nsrc(unk[0].ast) if unk else pf.nsrc(c)}` reads a cache map in a way that is not recognised (not analysed)')
        ctx.check(ok, 'R1', cons + '::key absent', f'`{pf.nsrc(c)}` in {q} can run while `{key}` is still filed in the expiry index: SortedSet.add is a no-op for a member, so the key '
                  'stays filed under its old expiry while _expiry_time changes; the next _remove/_evict_oldest of it raises, eviction stops working (unbounded growth) and lookups '
                  'of unrelated keys fail', m.path, c.lineno)
        if ok and nodes:
            _capacity_after_puts(ctx, m, q.split('.', 1)[1], fn, fcfg, nodes, any(isinstance(f, ast.FunctionDef) and f.name == '_evict_oldest' for f in cls.body))
    ctx.need(n >= 1, '_put is never called')
    # on the loader path itself: a `_put` that is reachable from the HIT side of the `k in self._cache` test re-files a key that is still filed
    cfg, k = v.cfg, v.k
    tt = v.tt['lookup']
    for P in af.stmt_nodes(cfg, lambda x: (c := af.node_is_call(x, 'self._put')) is not None and bool(c.args) and pf.nsrc(c.args[0]) == k):
        absent = [(t2, l2) for mp in MAPS for t2, l2 in tt.edges(mp, False)]
        for t, hl in [e2 for mp in MAPS for e2 in tt.edges(mp, True)]:
            # a path from "the key is filed" (in any of the three maps: they hold the same keys) to the insertion on which it is neither removed nor found absent again
            w = af.must_pass(cfg, t, lambda x: x is P, lambda x: (c := af.node_is_call(x, 'self._remove')) is not None and [pf.nsrc(a) for a in c.args] == [k],
                             first_label=hl, edge_ok=lambda a, b, l2: not any(a is t2 and l2 == l3 for t2, l3 in absent))
            if w is not None:
                ctx.bad('R1', f'{F}::{CLS}.lookup::{P.text()}::key absent', f'`{P.text()}` is reachable from the hit side of `{pf.nsrc(t.ast)}` (key filed) without removing `{k}` first '
                        f'(via `{w[-2].text() if len(w) > 1 else ""}`): '
                        'SortedSet.add is a no-op for a member, the key stays filed under its old expiry while _expiry_time changes; the next _remove/_evict_oldest of it raises '
                        'and eviction stops working', v.mi.path, P.lineno)
                break


def _r2_fresh(ctx: Ctx, v: View) -> Optional[Tuple[pf.Node, str, pf.Node]]:
    """returns (expiry test node, label of the edge that removes the expired entry) when recognised"""
    m, cls = v.mi, v.clsi
    put = v.prim['_put'][1]
    ws = [w for w in _map_writes(m, put) if w[0] == 'self._expiry_time' and w[1] == 'set']
    ctx.need(len(ws) == 1, '_put: expiry write not found')
    val = pf.expand_locals(put, ws[0][3].value)  # type: ignore[attr-defined]
    clocks = [c for c in ast.walk(val) if isinstance(c, ast.Call) and (pf.dotted(c.func) or '').startswith('time.')]
    ctx.need(len(clocks) == 1, f'_put: expiry `{pf.nsrc(val)}` does not read exactly one clock')
    clock_src = pf.nsrc(clocks[0])
    lin = af.linear(val, {clock_src: 'clock', 'self.lifetime_ns': 'L'})
    cons = f'{F}::{CLS}._put::expiry'
    ctx.need(lin is not None, f'{cons}: not linear in clock / lifetime_ns')
    ctx.check(lin == {'clock': 1, 'L': 1}, 'R2', cons, f'expiry `{pf.nsrc(val)}` is {af.lin_str(lin)}, not clock + lifetime_ns: entries outlive (or never reach) their lifetime',  # type: ignore[arg-type]
              m.path, put.lineno)
    ctx.check(pf.dotted(clocks[0].func) in CLOCK_OK, 'R2', f'{F}::{CLS}._put::clock', f'expiry uses `{clock_src}`, whose unit/epoch does not match lifetime_ns '
              f'(a monotonic nanosecond clock is required)', m.path, put.lineno)

    lk, cfg, k = v.lk, v.cfg, v.k
    tt = v.tt['lookup']
    hits = af.stmt_nodes(cfg, lambda n: n.kind == 'return' and n.ast.value is not None and any(
        isinstance(x, ast.Subscript) and pf.nsrc(x.value) == 'self._cache' for x in ast.walk(n.ast.value)))
    if not hits:
        # the hit read through a local: `hit = self._cache[k]; ...; return hit` (the flow from the read to the return is judged by the provenance rule)
        hits = af.stmt_nodes(cfg, lambda n: n.kind == 'stmt' and isinstance(n.ast, (ast.Assign, ast.AnnAssign)) and isinstance(n.ast.value, ast.Subscript)
                             and pf.nsrc(n.ast.value.value) == 'self._cache'
                             and all(isinstance(t2, ast.Name) for t2 in (n.ast.targets if isinstance(n.ast, ast.Assign) else [n.ast.target])))
    ctx.need(len(hits) == 1, f'lookup: expected one return of a cached value, found {len(hits)}')
    H = hits[0]
    cons = f'{F}::{CLS}.lookup::hit'
    ctx.need(pf.nsrc(H.ast.value) == f'self._cache[{k}]', f'{cons}: `{H.text()}` returns a cached value for a different key')  # type: ignore[union-attr]
    # the test that compares the expiry time of the key with a clock (read through locals, `.get` idiom, predicate helpers: engines/c26norm)
    exp_src = f'{EXP}[{k}]'
    rexp = {t.id: tt.norm(t) for t in tt.tests}
    xs = [t for t in tt.tests if af.mentions(rexp[t.id], exp_src)]
    if not xs:
        # "never compared" is a verdict only if lookup does not look at the expiry map in any other way on its way to the hit
        other = [n for n in cfg.nodes if n.ast is not None and n is not H and af.direct(cfg, n, H)
                 and any(isinstance(x, ast.Attribute) and pf.nsrc(x) == EXP for e in pf.node_exprs(n) for x in pf.walk_shallow(e))
                 and not (n.kind == 'test' and not tt.foreign_atoms(n, EXP))]
        ctx.need(not other, f'{cons}: `{other[0].text() if other else ""}` reads {EXP} in a way that is not recognised as the expiry test (not analysed)')
        ctx.bad('R2', cons, f'the cached value is returned by `{H.text()}` without comparing its expiry time with the clock: values older than lifetime_ns are served', m.path, H.lineno)
        af.blocked(ctx, 'R2', 'R2')
        return None
    ctx.need(len(xs) == 1, f'lookup: {len(xs)} tests read {exp_src}')
    X = xs[0]
    Xe = rexp[X.id]
    cl = [c for c in ast.walk(Xe) if isinstance(c, ast.Call) and (pf.dotted(c.func) or '').startswith('time.')]
    ctx.need(len(cl) == 1, f'lookup: expiry test `{pf.nsrc(Xe)}` does not read exactly one clock')
    ctx.check(pf.nsrc(cl[0]) == clock_src, 'R2', f'{F}::{CLS}.lookup::same clock', f'lookup compares the expiry with `{pf.nsrc(cl[0])}` but _put computes it from '
              f'`{clock_src}`: the comparison is meaningless', m.path, X.lineno)
    rms = af.stmt_nodes(cfg, lambda n: (c := af.node_is_call(n, 'self._remove')) is not None and [pf.nsrc(a) for a in c.args] == [k])

    def served_after(lab2: str) -> Optional[List[pf.Node]]:
        """a path from the `lab2` edge of the expiry test to the hit on which the entry is not removed"""
        return af.must_pass(cfg, X, lambda n: n is H, lambda n: any(n is r for r in rms), first_label=lab2)
    consx = f'{F}::{CLS}.lookup::expiry test'
    if isinstance(Xe, ast.Compare):
        # an expiry test with a grace term:  expiry + c <= now  removes only entries that are more than c past their expiry
        nzg = af.compare_leq_zero(Xe, {exp_src: 'E', pf.nsrc(cl[0]): 'N', 'self.lifetime_ns': 'Lt'})
        if nzg is not None and set(nzg[0]) <= {'E', 'N', 'Lt', '1'} and set(nzg[0]) - {'E', 'N'}:
            dg = nzg[0]
            for lab2 in ('T', 'F'):
                sign = 1 if lab2 == 'T' else -1
                if dg.get('E', 0) == sign and dg.get('N', 0) == -sign and served_after('F' if lab2 == 'T' else 'T') is not None:
                    slack = [sign * dg.get('1', 0), sign * dg.get('Lt', 0)]
                    if all(x >= 0 for x in slack) and any(x > 0 for x in slack):
                        ctx.bad('R2', consx, f'the expired entry is removed only when {af.lin_str(dg)} {"<" if nzg[1] else "<="} 0 is {lab2 == "T"}: an entry is still served '
                                f'{"for " + str(slack[0]) + " ns" if slack[0] else ""}{" and " if slack[0] and slack[1] else ""}{"for " + str(slack[1]) + " lifetimes" if slack[1] else ""} after its '
                                f'expiry time, i.e. a value older than lifetime_ns is returned', m.path, X.lineno)
                        af.blocked(ctx, 'R2', 'R2')
                        return None
    ev = af.TestEval(exp_src, pf.nsrc(cl[0]), [])
    # the question is about an entry that EXISTS and has expired: membership atoms of the key (`k in M and M[k] <= now`) are true for it
    rows = ev.rows(_assume_present(Xe, k))
    # the edges an EXPIRED entry (expiry < now) can take: on each of them the entry must be removed before the hit can be reached
    stale_labs = [lab2 for lab2 in ('T', 'F') if any(r[0] == '<' and r[2] == (lab2 == 'T') for r in rows)]
    ctx.need(stale_labs, f'{consx}: `{pf.nsrc(Xe)}` is never evaluated for an expired entry (not analysed)')
    for lab2 in stale_labs:
        p = served_after(lab2)
        if p is not None:
            ctx.bad('R2', consx, f'`{pf.nsrc(Xe)}` is {lab2 == "T"} for an entry whose expiry time is before the current clock value, and on that branch the entry is not '
                    f'removed before `{H.text()}` returns it: a value older than its lifetime is served', m.path, X.lineno)
            af.blocked(ctx, 'R2', 'R2')
            return None
    ctx.need(len(stale_labs) == 1, f'{consx}: an expired entry can take both branches of `{pf.nsrc(Xe)}` (not analysed)')
    lab = stale_labs[0]
    ctx.ok('R2', consx, {'test': pf.nsrc(Xe), 'expired entries take': lab})
    seen_at = tt.decisions(X)
    if seen_at:
        # the comparison was read through locals: their definitions must not be separated from the test by a suspension / a change of the entry
        st_aw = [x for d in seen_at for x in af.between(cfg, d, X) if pf.node_has_await(x)]
        ctx.check(not st_aw, 'R2', consx + '::clock read fresh', f'`{st_aw[0].text() if st_aw else ""}` suspends between reading the clock/expiry into a local and testing it', m.path, X.lineno)
        ch = [x for d in seen_at for x in af.between(cfg, d, X) if any(pf.dotted(c.func) in ('self._put', 'self._remove', 'self._evict_oldest') for c in pf.node_calls(x))]
        ctx.need(not ch, f'{consx}: `{ch[0].text() if ch else ""}` changes the entry between reading its expiry into a local and testing it (not analysed)')
    # every path to the hit evaluates the expiry test, unless the key has no entry at all (the three maps hold the same keys: R1)
    absent = [(t, l2) for mp in MAPS for t, l2 in tt.edges(mp, False)]
    skip = cfg.path_avoiding(cfg.entry, lambda n: n is H, lambda n: n is X,
                             edge_ok=lambda a, b, l2: not any(a is t and l2 == l3 for t, l3 in absent))
    if skip is not None:
        unk = [t for t in skip if t.kind == 'test' and any(tt.foreign_atoms(t, mp) for mp in MAPS)]
        ctx.need(not unk, f'{cons}: `{pf.nsrc(unk[0].ast) if unk else ""}` on a path to the hit reads a cache map in a way that is not recognised (not analysed)')
    ctx.check(skip is None, 'R2', cons + '::dominated by expiry test',
              'a path reaches the cached-value return without evaluating the expiry test (other than through "key has no entry"): stale values are served'
              + (f' (via `{skip[-2].text()}`)' if skip and len(skip) > 1 else ''), m.path, H.lineno)
    aw = [x for d in (seen_at or [X]) for x in af.between(cfg, d, H) if pf.node_has_await(x)]
    ctx.check(not aw, 'R2', cons + '::atomic', f'`{aw[0].text() if aw else ""}` suspends between the expiry test and the return: the value can expire (or be replaced) '
              'in between', m.path, H.lineno)
    # the hit is guarded by membership in the cache
    g = [(t, l2) for mp in MAPS for t, l2 in tt.edges(mp, True) if af.every_path_uses_edge(cfg, H, t, l2)]
    ctx.need(bool(g), f'{cons}: `{H.text()}` is not guarded by `{k} in self._cache`')
    return X, lab, H


def _assume_present(e: ast.AST, k: str) -> ast.AST:
    import copy as _copy

    class _T(ast.NodeTransformer):
        def visit_Compare(self, node: ast.Compare):
            if any(pf.nsrc(node) == f'{k} in {mp}' for mp in MAPS):
                return ast.copy_location(ast.Constant(value=True), node)
            return node
    return ast.fix_missing_locations(_T().visit(_copy.deepcopy(e)))


def _is_load_await(fn: pf.FuncDef, e: ast.AST, alias: Set[str] = frozenset()) -> bool:  # type: ignore[assignment]
    """`await <expr>` whose operand waits for the load: it mentions the shared task `self._futures[...]` (or a local holding it) or calls
    `self.load(...)` -- directly or through single-definition locals (a timing wrapper built in a statement of its own)"""
    if not isinstance(e, ast.Await):
        return False
    return bool(_task_mentions(fn, e.value, alias)) or _calls_loader(fn, e.value)


def _r2_provenance(ctx: Ctx, v: View, xinfo: Optional[Tuple[pf.Node, str, pf.Node]]) -> None:
    """Every value lookup returns (directly or as the result of the shared task) and every value handed to `_put` is the result of the
    awaited load.  The one direct `return self._cache[k]` is the hit judged by the freshness rules above."""
    for name, mm, fn, cfg, k in v.roots():
        alias = _task_aliases(fn)
        uses: List[Tuple[pf.Node, ast.AST, str]] = []
        for n in af.stmt_nodes(cfg, lambda n: n.kind == 'return' and n.ast.value is not None):
            uses.append((n, n.ast.value, 'return'))  # type: ignore[union-attr]
        for n in af.stmt_nodes(cfg, lambda n: af.node_is_call(n, 'self._put') is not None):
            c = af.node_is_call(n, 'self._put')
            val = c.args[1] if c is not None and len(c.args) >= 2 else next((kw.value for kw in c.keywords if kw.arg == 'v'), None)  # type: ignore[union-attr]
            if val is None:
                v.deferred.append(f'{CLS}.{name}: `{n.text()}`: stored value not found')
                continue
            uses.append((n, val, 'put'))
        for U, e, role in uses:
            cons = f'{F}::{CLS}.{name}::{U.text()}::value is the loaded one'
            if role == 'return' and isinstance(e, ast.Subscript) and pf.nsrc(e.value) == 'self._cache':
                continue  # the hit
            stale: List[str] = []
            unknown: List[str] = []
            for o in cf.origins(fn, cfg, U, e):
                if o.kind == 'await' and _is_load_await(fn, o.expr, alias):  # type: ignore[arg-type]
                    continue
                is_cache = (o.kind == 'subscript' and pf.nsrc(o.expr.value) == 'self._cache') or \
                    (o.kind == 'call' and (pf.dotted(o.expr.func) or '') in ('self._cache.get', 'self._cache.pop', 'self._cache.setdefault'))  # type: ignore[union-attr]
                if is_cache:
                    where = f'`{o.node.text()}`'
                    on_removed = xinfo is not None and name == 'lookup' and o.node is not xinfo[0] and af.every_path_uses_edge(cfg, o.node, xinfo[0], xinfo[1])
                    susp = [x for x in af.between(cfg, o.node, U) if pf.node_has_await(x)] if o.node is not U else []
                    if role == 'put' and on_removed:
                        stale.append(f'{where} keeps the value of an entry that the expiry test has just found EXPIRED, and `{U.text()}` stores it again with a fresh expiry time: '
                                     f't=0 lookup({k}) loads v0; t>lifetime lookup({k}) finds it expired, remembers v0, the reload does not deliver, v0 is re-inserted and served as a '
                                     f'hit for another lifetime_ns (and renewed again at the next failing reload): the age of the served value is unbounded')
                    elif role == 'put':
                        stale.append(f'{where} reads a value from the cache and `{U.text()}` stores it again with a fresh expiry time: its age since it was loaded then exceeds '
                                     f'lifetime_ns while every hit still serves it (t=0 load v0; t=L-1 hit re-inserts v0 with expiry 2L-1; t=2L-2 hit returns v0, loaded 2L-2 > L ago)')
                    elif on_removed:
                        stale.append(f'{where} keeps the value of an entry that the expiry test has just found EXPIRED, and `{U.text()}` returns it: t=0 lookup({k}) loads v0; '
                                     f't>lifetime lookup({k}) finds the entry expired, remembers v0, the reload does not deliver, v0 (older than lifetime_ns) is returned')
                    elif susp:
                        stale.append(f'{where} reads the cached value, `{susp[0].text()}` suspends, then `{U.text()}` returns it: it can be older than lifetime_ns by then')
                    elif xinfo is not None and name == 'lookup' and o.node is xinfo[2]:
                        pass  # the hit read judged by the freshness rules, returned without a suspension in between
                    else:
                        unknown.append(f'`{U.text()}` returns a cached value through a local ({where}): freshness of that path not analysed')
                    continue
                if o.kind == 'except':
                    stale.append(f'`{U.text()}` {"stores" if role == "put" else "returns"} the exception object caught by `{o.text()}` as if it were a loaded value: later lookups of `{k}` '
                                 f'get the failure of an earlier load (negative caching) although their own load did not fail -- no load is even attempted for them')
                    continue
                unknown.append(f'`{U.text()}`: value can come from `{o.text()}` ({o.kind}), which is neither the awaited load nor the freshness-guarded cache read')
            if stale:
                ctx.bad('R2', cons, stale[0], mm.path, U.lineno)
            elif unknown:
                v.deferred.append(f'{CLS}.{name}: {unknown[0]}')
            else:
                ctx.ok('R2', cons, role)


# --------------------------------------------------------------------------------------
# R3 / R4
# --------------------------------------------------------------------------------------


def _fut_awaits(v: View) -> List[Tuple[str, pf.Module, pf.FuncDef, ast.Await, bool]]:
    """(function, module, fn, await node, shielded) for every await of a task read from the shared _futures map"""
    fns: List[Tuple[str, pf.Module, pf.FuncDef]] = [('lookup', v.mi, v.lk)] + [(b.name, b.m, b.fn) for b in v.bodies.values()]
    for st in v.cls.body:
        if isinstance(st, (ast.FunctionDef, ast.AsyncFunctionDef)) and st.name != 'lookup' and st.name not in v.bodies and st.name not in v.absorbed:
            fns.append((st.name, v.m, st))
    out = []
    for name, mm, fn in fns:
        alias = _task_aliases(fn)
        for a in pf.walk_shallow(fn):
            if not isinstance(a, ast.Await):
                continue
            ms = _task_mentions(fn, a.value, alias)
            if ms:
                out.append((name, mm, fn, a, all(ms)))
    return out


def _await_roles(v: View) -> Dict[int, Tuple[str, str]]:
    """id(await of a shared task) -> (role, stable construct key).  The LOADER awaits the task it has registered itself (the await is
    reachable from a registration in the same frame); every other await of a shared task is a WAITER.  Keys name the role, not the text."""
    out: Dict[int, Tuple[str, str]] = {}
    count: Dict[Tuple[str, str], int] = {}
    seen_src: Dict[Tuple[str, str, int, int], int] = {}
    for name, mm, fn, a, _ in sorted(_fut_awaits(v), key=lambda x: (x[0] != 'lookup', x[0], x[3].lineno, x[3].col_offset)):
        cfg = pf.cfg(fn)
        here = cfg.node_of(a)
        role = 'loader' if any(af.direct(cfg, G, n) for G in _regs(cfg) for n in here) else 'waiter'
        # copies of one source await (a helper inlined at two call sites) are the same construct
        src_key = (name, role, a.lineno, a.col_offset)
        if src_key not in seen_src:
            count[(name, role)] = count.get((name, role), 0) + 1
            seen_src[src_key] = count[(name, role)]
        i = seen_src[src_key]
        out[id(a)] = (role, f'{F}::{CLS}.{name}::{role} awaits the shared task' + (f' #{i}' if i > 1 else ''))
    return out


def _is_dereg(n: pf.Node, k: str) -> bool:
    return (isinstance(n.ast, ast.Delete) and any(isinstance(t, ast.Subscript) and pf.nsrc(t.value) == FUT and pf.nsrc(t.slice) == k for t in n.ast.targets)) \
        or ((c := af.node_is_call(n, f'{FUT}.pop')) is not None and bool(c.args) and pf.nsrc(c.args[0]) == k)


def _stmt_deregs(st: ast.AST) -> bool:
    return any(isinstance(s, ast.Delete) and any(isinstance(t, ast.Subscript) and pf.nsrc(t.value) == FUT for t in s.targets)
               or (isinstance(s, ast.Call) and pf.dotted(s.func) == f'{FUT}.pop') for s in ast.walk(st))


def _r3_single_flight(ctx: Ctx, v: View) -> None:
    lk, cfg, k, m = v.lk, v.cfg, v.k, v.mi
    regs = _regs(cfg)
    ctx.need(len(regs) >= 1, f'lookup: no registration `{FUT}[k] = ...` found')
    # every call of the loader is the task of a registration analysed below, or is awaited inside the task body a registration starts
    inreg: Set[int] = set()
    for G in regs:
        # the registered value, read through single-definition locals (`coro = self.load(k); task = create_task(coro); self._futures[k] = task`)
        work: List[ast.AST] = [G.ast.value]  # type: ignore[union-attr]
        while work:
            e = work.pop()
            for x in ast.walk(e):
                if id(x) in inreg:
                    continue
                inreg.add(id(x))
                if isinstance(x, ast.Name) and isinstance(x.ctx, ast.Load):
                    d0 = pf.single_def(lk, x.id)
                    if isinstance(d0, ast.expr) and id(d0) not in inreg:
                        work.append(d0)
    loads = [c for c in pf.calls_in(lk, True) if pf.dotted(c.func) == 'self.load']
    free = [(c, 'lookup') for c in loads if id(c) not in inreg]
    for b in v.bodies.values():
        par = b.m.parents()
        for c in [c for c in pf.calls_in(b.fn, True) if pf.dotted(c.func) == 'self.load']:
            loads.append(c)
            cur: Optional[ast.AST] = c
            awaited = False
            while cur is not None and cur is not b.fn:
                if isinstance(cur, ast.Await):
                    awaited = True
                cur = par.get(cur)
            if not awaited or [pf.nsrc(a) for a in c.args] != [b.k] or b.m.enclosing_func(c) is not b.fn:
                free.append((c, b.name))
    ctx.need(bool(loads), 'no call `self.load(...)` found in lookup / the registered task body (loader reached through an alias: not analysed)')
    ctx.check(not free, 'R3', f'{F}::{CLS}::self.load only as a registered task',
              (f'self.load is called at line {free[0][0].lineno} in {free[0][1]} outside a `{FUT}[k] = asyncio.create_task(...)` registration (or not awaited for the task\'s own '
               'key): that load is not shared with concurrent lookups of the key') if free else '', m.path, lk.lineno)
    for st in v.cls.body:
        if isinstance(st, (ast.FunctionDef, ast.AsyncFunctionDef)) and not _on_loader_path(v, st.name):
            ctx.need(not [c for c in pf.calls_in(st, True) if pf.dotted(c.func) == 'self.load'], f'{CLS}.{st.name} calls self.load outside lookup (not analysed)')
    unshielded = [x for x in _fut_awaits(v) if not x[4]]
    for G in regs:
        _r3_one(ctx, v, G, unshielded)


def _is_plain_fut_use(n: pf.Node, x: ast.Attribute) -> bool:
    """the occurrence x of `self._futures` in node n is the registration target / the deregistration / a len() for logging: no membership read"""
    a = n.ast
    if isinstance(a, ast.Assign) and any(_is_fut_store(t) and t.value is x for t in a.targets):
        return True
    if isinstance(a, ast.Delete) and any(isinstance(t, ast.Subscript) and t.value is x for t in a.targets):
        return True
    for c in pf.node_calls(n):
        if pf.dotted(c.func) == 'len' and len(c.args) == 1 and c.args[0] is x:
            return True
    return False


def _node_awaits_task(v: View, n: pf.Node) -> bool:
    ids = {id(a) for name, _, _, a, _ in _fut_awaits(v) if name == 'lookup'}
    return any(id(a) in ids for a in _node_awaits(n))


def _callback_removes(v: View, cb: ast.AST, k: str) -> Optional[bool]:
    """does the done-callback always remove the registration of `k`?  None = shape not recognised"""
    if isinstance(cb, ast.Lambda):
        b = cb.body
        if isinstance(b, ast.Call) and pf.dotted(b.func) in (f'{FUT}.pop', f'{FUT}.__delitem__') and b.args and pf.nsrc(b.args[0]) == k:
            return True
        return None
    if isinstance(cb, ast.Name):
        defs = [s for s in ast.walk(v.lk) if isinstance(s, ast.FunctionDef) and s.name == cb.id]
        if len(defs) != 1:
            return None
        c2 = pf.cfg(defs[0])
        dn = [n for n in c2.nodes if n.ast is not None and _is_dereg(n, k)]
        if not dn:
            return False
        first = af.body_no_doc(defs[0])
        return bool(first) and any(first[0] is n.ast or (isinstance(first[0], ast.Expr) and first[0].value is getattr(n.ast, 'value', None)) for n in dn)
    return None


def _r3_one(ctx: Ctx, v: View, G: pf.Node, unshielded) -> None:
    lk, cfg, k, m = v.lk, v.cfg, v.k, v.mi
    locs = sorted({(g.ast.lineno, g.ast.col_offset) for g in _regs(cfg)})  # copies of one source statement (helper inlined twice) are one construct
    nth = locs.index((G.ast.lineno, G.ast.col_offset)) + 1
    cons = f'{F}::{CLS}.lookup::registration' + (f' #{nth}' if nth > 1 else '')
    tgt = [t for t in G.ast.targets if _is_fut_store(t)][0]  # type: ignore[union-attr]
    ctx.need(pf.nsrc(tgt.slice) == k, f'{cons}: `{G.text()}` registers under a different key')
    tc = _task_call(lk, G)
    d = pf.dotted(tc.func) if tc is not None else None
    body = v.bodies.get(d[5:]) if d and d.startswith('self.') else None
    ok_task = tc is not None and [pf.nsrc(a) for a in tc.args] == [k] and (d == 'self.load' or body is not None)
    ctx.need(ok_task, f'{cons}: registered value is not asyncio.create_task(self.load({k})) / create_task(self.<coroutine method>({k}))')
    # guard: absent-edge of `k in self._futures` (any spelling, see engines/c26norm), atomically
    tt = v.tt['lookup']
    guard = None
    for t in tt.tests:
        for lab in ('T', 'F'):
            if tt.implies(t, lab, FUT, False) and af.every_path_uses_edge(cfg, G, t, lab) and af.direct(cfg, t, G, lab):
                guard = (t, lab)
    if guard is None:
        # "no in-flight test" is a verdict only when every read of the in-flight map on the way to the registration is understood
        opaque = [t for t in tt.tests if tt.foreign_atoms(t, FUT) and af.direct(cfg, t, G)]
        ctx.need(not opaque, f'{cons}::guard: `{pf.nsrc(opaque[0].ast) if opaque else ""}` reads {FUT} in a way that is not a membership test of `{k}` (not analysed)')
        accounted = {id(d) for t in tt.tests for d in tt.decisions(t)}
        stray = [n for n in cfg.nodes if n.ast is not None and n.kind != 'test' and n is not G and id(n) not in accounted and af.direct(cfg, n, G)
                 and any(_reads_fut(x) or (isinstance(x, ast.Attribute) and pf.nsrc(x) == FUT and isinstance(x.ctx, ast.Load) and not _is_plain_fut_use(n, x))
                         for e in pf.node_exprs(n) for x in pf.walk_shallow(e)) and not _node_awaits_task(v, n)]
        ctx.need(not stray, f'{cons}::guard: `{stray[0].text() if stray else ""}` reads {FUT} before the registration outside a test (EAFP / helper idiom: not analysed)')
        ctx.bad('R3', cons + '::guard', f'the load is registered without first finding `{k} in {FUT}` false: concurrent lookups of one key each start a load '
                '(and overwrite each other\'s registration)', m.path, G.lineno)
        af.blocked(ctx, 'R3', 'R3')
    else:
        t, lab = guard
        seen_at = tt.observed_at(t)
        if tt.decisions(t):
            # the in-flight fact was read into a local: it was observed at the definition, and nothing may change the map before it is tested
            wr = [x for d in seen_at for x in af.between(cfg, d, t) if any(w[0] == FUT for w in _map_writes(m, x.ast))] if all(d is not t for d in seen_at) else []
            ctx.need(not wr, f'{cons}::guard: `{wr[0].text() if wr else ""}` changes {FUT} between reading it into a local and testing the local (not analysed)')
            aw = [x for d in seen_at for x in ([d] if pf.node_has_await(d) else []) + af.between(cfg, d, G) if pf.node_has_await(x)]
        else:
            aw = [x for x in af.between(cfg, t, G, lab) if pf.node_has_await(x)]
        ctx.check(not aw, 'R3', cons + '::guard', f'`{aw[0].text() if aw else ""}` suspends between the `{k} in {FUT}` test and the registration: two lookups both '
                  'see "no load in flight" and both load', m.path, G.lineno, detail={'test': pf.nsrc(t.ast), 'edge': lab})
        # the other edge: no load started
        other = 'F' if lab == 'T' else 'T'
        starts = af.direct(cfg, t, G, other)
        ctx.check(not starts, 'R3', f'{F}::{CLS}.lookup::waiter starts no load', 'a lookup that finds a task in flight can still reach the registration and start another load',
                  m.path, t.lineno)
        # also atomic since the cache-miss decision
        for mt, ml in tt.edges(CACHE, False):
            if not af.every_path_uses_edge(cfg, G, mt, ml):
                continue
            aw2 = [x for d in tt.observed_at(mt) for x in (af.between(cfg, d, G, ml) if d is mt else af.between(cfg, d, G)) if pf.node_has_await(x)]
            ctx.check(not aw2, 'R3', cons + '::atomic since miss', f'`{aw2[0].text() if aw2 else ""}` suspends between the cache-miss decision and the registration: '
                      'a load that completes in between is repeated', m.path, G.lineno)
            break

    # ---- removal of the registration ------------------------------------------------------------------------------------
    consd = f'{F}::{CLS}.lookup::deregistration'
    dels = af.stmt_nodes(cfg, lambda n: _is_dereg(n, k))
    # (ii) a done-callback attached to the task before anything can suspend or leave
    aliases = {pf.nsrc(t) for t in G.ast.targets}  # type: ignore[union-attr]
    if isinstance(G.ast.value, ast.Name):  # type: ignore[union-attr]
        aliases.add(G.ast.value.id)  # type: ignore[union-attr]
    cbn = [n for n in af.stmt_nodes(cfg, lambda n: any(isinstance(c.func, ast.Attribute) and c.func.attr == 'add_done_callback' and pf.nsrc(c.func.value) in aliases
                                                        for c in pf.node_calls(n))) if af.direct(cfg, G, n)]
    cb_verdicts: List[Optional[bool]] = []
    for n in cbn:
        c = [c for c in pf.node_calls(n) if isinstance(c.func, ast.Attribute) and c.func.attr == 'add_done_callback'][0]
        before = af.must_pass(cfg, G, lambda x: x is cfg.exit or x is cfg.raise_exit or pf.node_has_await(x), lambda x, n=n: x is n) is None
        r = _callback_removes(v, c.args[0], k) if c.args else None
        cb_verdicts.append(r if before or r is None else False)
    if any(r is None for r in cb_verdicts):
        v.deferred.append(f'{cons}: the registered task is completed through add_done_callback with a callback that is not a recognised removal (not analysed)')
    callback_ok = any(r is True for r in cb_verdicts)
    frame_dels = [dn for dn in dels if af.direct(cfg, G, dn)]
    body_dels = [n for n in body.cfg.nodes if n.ast is not None and _is_dereg(n, body.k)] if body is not None else []

    if frame_dels or not (callback_ok or body_dels):
        # (i) the registering frame removes it: on every exit, and on cancellation at each of its suspension points
        leak = cfg.path_avoiding(G, lambda n: n is cfg.exit or n is cfg.raise_exit, lambda n: any(n is dn for dn in dels))
        if not dels and not callback_ok:
            # "nobody removes the registration" is a verdict only if no code of the class touches the map in a way this rule does not follow
            known_nodes = {id(x.ast) for x in dels}
            for n2 in cbn:  # removals inside a recognised done-callback are followed above
                known_nodes |= {id(x) for c in pf.node_calls(n2) for x in ast.walk(c)}
            for dfn in [x for x in ast.walk(lk) if isinstance(x, ast.FunctionDef) and any(isinstance(c.func, ast.Attribute) and c.func.attr == 'add_done_callback' and c.args
                                                                                           and isinstance(c.args[0], ast.Name) and c.args[0].id == x.name for n2 in cbn for c in pf.node_calls(n2))]:
                known_nodes |= {id(x) for x in ast.walk(dfn)}
            others = [(f.name, w) for f in [lk] + [f2 for f2 in v.cls.body if isinstance(f2, (ast.FunctionDef, ast.AsyncFunctionDef)) and f2.name not in ('__init__', 'lookup')]
                      for w in _map_writes(v.m, f, nested=True) if w[0] == FUT and w[1] != 'set' and id(w[3]) not in known_nodes]
            passed = [c for c in pf.calls_in(lk, True) if any(isinstance(a2, ast.Attribute) and pf.nsrc(a2) == FUT for a2 in list(c.args) + [kw.value for kw in c.keywords])]
            ctx.need(not others and not passed and not any(r is None for r in cb_verdicts), f'{consd}: the registration is removed by `{pf.nsrc(others[0][1][3]) if others else (pf.nsrc(passed[0]) if passed else "a done-callback")}` '
                     f'({others[0][0] if others else "lookup"}), a mechanism this rule does not follow (not analysed)')
        ctx.check(bool(dels) and leak is None or callback_ok, 'R3', consd, 'some exit of the loader leaves the finished/failed task registered: later lookups of that key await the '
                  'old task for ever (stale value after expiry, or the old error)' + (f' (via `{leak[-2].text()}`)' if leak and len(leak) > 1 else ''), m.path, G.lineno)
        roles = _await_roles(v)
        nth = 0
        for n in af.stmt_nodes(cfg, pf.node_has_await):
            if not af.direct(cfg, G, n):
                continue
            if dels and all(cfg.dominated_by(n, lambda x, dn=dn: x is dn) for dn in dels if af.direct(cfg, G, dn)) and any(af.direct(cfg, dn, n) for dn in dels):
                continue  # after the deregistration
            for a in pf.walk_shallow(n.ast):
                if isinstance(a, ast.Await):
                    blocks, _ = af.cancel_blocks(m, lk, a)
                    cleaned = any(_stmt_deregs(st) for _, b in blocks for st in b)
                    ctx.need(cleaned or callback_ok or not af.enclosing_with(m, lk, a), f'{consd}: `{pf.nsrc(a)}` is awaited inside a with-block whose exit may clean up (not analysed)')
                    nth += 1
                    what = 'its await of the shared task' if id(a) in roles else f'suspension point #{nth} after the registration'
                    ctx.check(cleaned or callback_ok, 'R3', consd + f'::on cancellation at {what}',
                              f'when the loader is cancelled at `{pf.nsrc(a)}` no finally/except removes the registration', m.path, a.lineno)
        if frame_dels:
            _r3_not_before_task_end(ctx, v, G, frame_dels, consd)
        raising = [x for x in frame_dels if isinstance(x.ast, ast.Delete) or ((c2 := af.node_is_call(x, f'{FUT}.pop')) is not None and len(c2.args) == 1)]
        if raising and body_dels:
            ctx.bad('R3', consd + '::once', f'the registration of `{k}` is removed inside the task body {body.name} (`{body_dels[0].text()}`) and again by the registering frame '  # type: ignore[union-attr]
                    f'(`{raising[0].text()}`): the task finishes first, so the frame\'s removal raises KeyError on every miss and the lookup fails although its load succeeded',
                    m.path, G.lineno)
        return
    if callback_ok:
        ctx.ok('R3', consd, 'done-callback attached before any suspension removes the registration (runs even if the task never starts)')
        ctx.ok('R3', consd + '::not before the task ends', 'a done-callback runs when the task has ended, not earlier')
        return
    # (iii) only the registered task's own body removes the registration
    assert body is not None
    bcfg = body.cfg
    leak = bcfg.path_avoiding(bcfg.entry, lambda n: n is bcfg.exit or n is bcfg.raise_exit, lambda n: any(n is dn for dn in body_dels))
    uncovered = []
    for n in af.stmt_nodes(bcfg, pf.node_has_await):
        if all(bcfg.dominated_by(n, lambda x, dn=dn: x is dn) for dn in body_dels):
            continue
        for a in pf.walk_shallow(n.ast):
            if isinstance(a, ast.Await):
                blocks, _ = af.cancel_blocks(body.m, body.fn, a)
                if not any(_stmt_deregs(st) for _, b in blocks for st in b):
                    uncovered.append(a)
    if leak is not None or uncovered:
        ctx.bad('R3', consd, f'the task body {body.name} leaves the finished/failed task registered on some exit'
                + (f' (via `{leak[-2].text()}`)' if leak and len(leak) > 1 else f' (cancellation at `{pf.nsrc(uncovered[0])}`)' if uncovered else '')
                + ': later lookups of that key await the old task for ever', body.m.path, body.fn.lineno)
        return
    if unshielded:
        u = unshielded[0]
        ctx.bad('R3', consd, f'the registration `{G.text()}` is only removed inside the registered task itself (`{body_dels[0].text()}` in {body.name}), and '
                f'`{pf.nsrc(u[3])}` in {u[0]} awaits the shared task without asyncio.shield: if that caller is cancelled before the task has run its first step '
                f'(same event-loop iteration, e.g. wait_for(timeout=0) or a disconnect), CancelledError is thrown into a coroutine that has not started, its try/finally is '
                f'never entered and the cancelled task stays in {FUT}[{k}] for ever: every later lookup({k}) raises CancelledError although it was not cancelled and no load '
                f'failed.  Remove the registration in the registering frame (try/finally around its await) or with task.add_done_callback', m.path, G.lineno)
    else:
        ctx.ok('R3', consd, f'removed in the task body {body.name}; every await of the shared task is shielded, so no caller can cancel it before it starts')
        ctx.ok('R3', consd + '::not before the task ends', f'removed by the task itself on leaving {body.name}')


def _node_awaits(n: pf.Node) -> List[ast.Await]:
    return [a for e in pf.node_exprs(n) for a in pf.walk_shallow(e) if isinstance(a, ast.Await)]


def _r3_not_before_task_end(ctx: Ctx, v: View, G: pf.Node, frame_dels: List[pf.Node], consd: str) -> None:
    """The registration is what makes a later lookup JOIN the running load instead of starting another one, so the registering frame may
    remove it only once the registered task has ended.  Decided on the CFG: a path registration -> removal is harmless only if it traverses
    an edge on which the task is known to have ended -- the normal completion of an await of the task, or the exceptional exit of an
    UNSHIELDED await of it (a coroutine cancelled while awaiting a Task gets its CancelledError only after that Task has finished).  The
    exceptional exit of a shielded await of the task (caller cancelled, wait_for timeout) or of any other suspension point leaves the task
    running.  Exception edges out of plain synchronous statements are not followed (an internal error, not a schedule)."""
    cfg, k, m = v.cfg, v.k, v.mi
    shield_of = {id(a): sh for name, _, _, a, sh in _fut_awaits(v) if name == 'lookup'}

    def task_awaits(n: pf.Node) -> List[Tuple[ast.Await, bool]]:
        return [(a, shield_of[id(a)]) for a in _node_awaits(n) if id(a) in shield_of] if n.ast is not None else []

    def edge_ok(a: pf.Node, b: pf.Node, lab: str) -> bool:
        ta = task_awaits(a)
        if lab == 'exc':
            if a.ast is None or a.kind == 'raise':
                return True  # continuation of an exception already in flight (finally copies, re-raise in a handler)
            if not pf.node_has_await(a):
                return False
            return not ta or any(sh for _, sh in ta)
        return not ta

    cons = consd + '::not before the task ends'
    for dn in frame_dels:
        p = cfg.path_avoiding(G, lambda n, dn=dn: n is dn, lambda n: False, edge_ok=edge_ok)
        if p is None:
            continue
        cancels = [x for x in p if x.ast is not None and any(isinstance(c.func, ast.Attribute) and c.func.attr == 'cancel' for c in pf.node_calls(x))]
        ctx.need(not cancels, f'{cons}: `{cancels[0].text() if cancels else ""}` cancels something on the way to the removal (task torn down by hand: not analysed)')
        exits = [(x, y) for x, y in zip(p, p[1:]) if any(lab == 'exc' and b is y for b, lab in x.succ) and x.ast is not None and pf.node_has_await(x)]
        if exits:
            x = exits[0][0]
            ta = task_awaits(x)
            if ta:
                why = (f'`{pf.nsrc(ta[0][0])}` awaits the shared task through asyncio.shield, so when the lookup that registered the load is cancelled there (client hangs up; '
                       f'or a wait_for around it times out) the await raises while the load task KEEPS RUNNING')
            else:
                why = (f'`{x.text()}` is a suspension point between the registration and the removal that does not wait for the task: when the lookup is cancelled there '
                       f'the load task keeps running (nobody cancels it)')
        else:
            why = 'the removal is reached without waiting for the registered task at all, the load task is still running'
        ctx.bad('R3', cons, f'{why}, and `{dn.text()}` removes the registration of the running task.  The next lookup({k}) finds neither a cached value nor a load in flight '
                f'and starts a SECOND load of {k} while the first is still in flight (L1=lookup({k}) starts load #1; L1 is cancelled; L2=lookup({k}) starts load #2; a waiter that '
                f'joined #1 and L2 are pending together but served by two different loads; repeat for #3...).  The registration must live as long as the task: remove it with '
                f'task.add_done_callback(...) or at the end of the task body, not in the frame of a caller that can leave early', m.path, dn.lineno)
        return
    ctx.ok('R3', cons, 'every path registration -> removal passes the end of the registered task')


def _r4_shield(ctx: Ctx, v: View) -> None:
    n = 0
    roles = _await_roles(v)
    for name, mm, fn, a, shielded in _fut_awaits(v):
        n += 1
        role, cons = roles[id(a)]
        if role == 'waiter':
            msg = (f'`{pf.nsrc(a)}` awaits the shared load task without asyncio.shield: if this waiting lookup is cancelled the await cancels the shared task, '
                   'so the loader and every other waiter get CancelledError although their load did not fail and they were not cancelled')
        else:
            msg = (f'`{pf.nsrc(a)}` awaits the shared load task without asyncio.shield: if the lookup that started the load is cancelled the task is cancelled '
                   'with it, and every concurrent lookup waiting on the same key gets CancelledError although it was not cancelled and its load did not fail')
        ctx.check(shielded, 'R4', cons, msg, mm.path, a.lineno)
    ctx.need(n >= 1, 'no await of a task read from _futures found (idiom not recognised)')


# --------------------------------------------------------------------------------------
# instance state other than the three maps / _futures: side tables (R1) and remembered failures (R6)
# --------------------------------------------------------------------------------------

MUTATORS = ('add', 'remove', 'discard', 'pop', 'clear', 'update', 'popitem', 'setdefault', 'append', 'appendleft', 'extend', 'insert', 'move_to_end',
            '__setitem__', '__delitem__')
LOOKUP_PRIMS = ('_put', '_remove', '_evict_oldest', '_over_capacity')


def _self_base(e: ast.AST) -> Tuple[Optional[str], Optional[ast.AST], int]:
    """Descend `X[...]`, `X.m(...)`, `X.a` to the object the value is read from / written into:
    ('attr', None, depth) for `self.attr...`, (None, <Name>, depth) for a local, (None, None, depth) otherwise."""
    cur, depth = e, 0
    while True:
        if isinstance(cur, ast.Subscript):
            cur, depth = cur.value, depth + 1
        elif isinstance(cur, ast.Call) and isinstance(cur.func, ast.Attribute):
            cur, depth = cur.func.value, depth + 1
        elif isinstance(cur, ast.Attribute):
            if isinstance(cur.value, ast.Name) and cur.value.id == 'self':
                return cur.attr, None, depth
            cur, depth = cur.value, depth + 1
        elif isinstance(cur, ast.Name):
            return None, cur, depth
        else:
            return None, None, depth


def _state_writes(fn: ast.AST) -> List[Tuple[str, str, ast.AST, ast.AST]]:
    """(attr, how, written expression, statement) for every write into instance state `self.<attr>` in fn:
    how = 'bind' (self.X = / del self.X), 'item' (self.X[..] = / del self.X[..] / self.X.y = ..), a mutator method name."""
    out: List[Tuple[str, str, ast.AST, ast.AST]] = []
    for st in pf.walk_shallow(fn):
        tg: List[ast.AST] = []
        if isinstance(st, ast.Assign):
            tg = list(st.targets)
        elif isinstance(st, (ast.AugAssign, ast.AnnAssign)):
            tg = [st.target] if not (isinstance(st, ast.AnnAssign) and st.value is None) else []
        elif isinstance(st, ast.Delete):
            tg = list(st.targets)
        elif isinstance(st, ast.Call) and isinstance(st.func, ast.Attribute) and st.func.attr in MUTATORS:
            attr, _, _ = _self_base(st.func.value)
            if attr is not None:
                out.append((attr, st.func.attr, st, st))
        flat: List[ast.AST] = []
        for t in tg:
            flat += list(t.elts) if isinstance(t, (ast.Tuple, ast.List)) else [t]
        for t in flat:
            if isinstance(t, (ast.Subscript, ast.Attribute)):
                attr, _, depth = _self_base(t)
                if attr is not None:
                    out.append((attr, 'bind' if depth == 0 else 'item', t, st))
    return out


def _self_reads(e: ast.AST, methods: Set[str]) -> Tuple[Set[str], Set[str]]:
    """(instance attributes read in e, same-class methods called in e)"""
    called = {x.func.attr for x in ast.walk(e) if isinstance(x, ast.Call) and isinstance(x.func, ast.Attribute) and isinstance(x.func.value, ast.Name)
              and x.func.value.id == 'self' and x.func.attr in methods}
    reads = {x.attr for x in ast.walk(e) if isinstance(x, ast.Attribute) and isinstance(x.value, ast.Name) and x.value.id == 'self' and isinstance(x.ctx, ast.Load)}
    return reads - called, called


class _ClassState:
    """who writes which instance attribute (on the class as specialised for one option configuration)"""

    def __init__(self, v: View):
        self.methods = {f.name: f for f in v.cls.body if isinstance(f, (ast.FunctionDef, ast.AsyncFunctionDef))}
        self.writers: Dict[str, List[Tuple[str, str, ast.AST, ast.AST]]] = {}  # attr -> (method, how, expr, stmt)
        for name, f in self.methods.items():
            for attr, how, e, st in _state_writes(f):
                self.writers.setdefault(attr, []).append((name, how, e, st))
        self.v = v

    def on_path(self, meth: str) -> bool:
        return _on_loader_path(self.v, meth) or meth in LOOKUP_PRIMS

    def filled_by(self, attr: str) -> List[Tuple[str, str, ast.AST, ast.AST]]:
        """writes outside __init__ that can put something into the attribute (removals do not)"""
        return [w for w in self.writers.get(attr, []) if w[0] != '__init__' and not isinstance(w[3], ast.Delete)
                and w[1] not in ('remove', 'discard', 'pop', 'clear', 'popitem', '__delitem__')]


def _r1_side_tables(ctx: Ctx, v: View, cs: _ClassState) -> None:
    """Per-key state that lookups file OUTSIDE the three maps and consult again is cache content too (remembered failures, negative entries,
    per-key deadlines).  `_over_capacity` counts, and `_evict_oldest`/`_remove` drop, only what is in the three maps: such a table is bounded
    only if `_remove` drops the key from it as well (then it never holds a key the index does not hold)."""
    rem = af.method(v.m, v.cls, '_remove')
    kr = rem.args.args[1].arg if len(rem.args.args) == 2 else None
    known = {mp[5:] for mp in MAPS} | {FUT[5:]}
    seen: Set[str] = set()
    judged: Set[str] = set()
    for name, mm, fn, cfg, k in v.roots():
        for attr, how, e, st in _state_writes(fn):
            if attr in known or attr in seen:
                continue
            keyed = (how == 'item' and isinstance(e, ast.Subscript) and not isinstance(st, ast.Delete) and _self_base(e.value)[2] == 0) or \
                    (how in ('add', 'setdefault', '__setitem__', 'append', 'update') and _self_base(e.func.value)[2] == 0)  # type: ignore[attr-defined]
            if not keyed:
                continue
            kexpr = e.slice if isinstance(e, ast.Subscript) else (e.args[0] if e.args else None)  # type: ignore[attr-defined]
            if kexpr is None or k not in pf.names_in(pf.expand_locals(fn, kexpr)):
                continue  # not filed per lookup key
            seen.add(attr)
            # does the table decide an outcome?  read by a branch condition (through single-definition locals) or by a returned / raised value
            consulted = []
            for _, _, rfn, rcfg, _ in v.roots():
                for t in rcfg.nodes:
                    if t.ast is None or t.kind not in ('test', 'return', 'raise'):
                        continue
                    ex = pf.expand_locals(rfn, t.ast) if t.kind == 'test' else t.ast
                    if attr in _self_reads(ex, set(cs.methods))[0]:
                        consulted.append(t)
            if not consulted:
                continue  # bookkeeping (metrics, locks): no branch, returned or raised value of lookup reads it
            judged.add(attr)
            cons = f'{F}::{CLS}.{name}::self.{attr} (per-key state outside the three maps)'
            own_bound = [w for w in cs.writers.get(attr, []) if w[1] in ('clear', 'popitem')] or \
                [x for f in cs.methods.values() for x in ast.walk(f) if isinstance(x, ast.Call) and pf.dotted(x.func) == 'len' and x.args and pf.nsrc(x.args[0]) == f'self.{attr}']
            ctx.need(not own_bound, f'{cons}: the table has a size test / clear of its own (bound not analysed)')
            dropped = kr is not None and any(w[0] == '_remove' and (isinstance(w[3], ast.Delete) or w[1] in ('pop', 'discard', 'remove', '__delitem__'))
                                             and kr in pf.names_in(w[2]) and _top_level_unconditional(rem, w[3], v.m) for w in cs.writers.get(attr, []))
            ctx.check(dropped, 'R1', cons,
                      f'`{pf.nsrc(st)}` in {name} files per-key state in self.{attr}, which lookup consults again, but `_remove` never drops the key from it and `_over_capacity` '
                      f'does not count it: the table is not covered by num_slots.  Every distinct key that gets an entry and is not looked up again stays for ever '
                      f'(num_slots+N distinct keys -> the cache object holds state for num_slots+N keys), an unbounded number of entries', mm.path, getattr(st, 'lineno', 0))
    if not judged:
        ctx.ok('R1', f'{F}::{CLS}::no per-key state outside the three maps', 'lookup (with helpers / task body) files nothing per key that decides an outcome besides '
               '_cache/_expiry_time/_keys_by_expiry/_futures' + (f' (bookkeeping only: {sorted(seen)})' if seen else ''))


def _value_sources(fn: pf.FuncDef, cfg: pf.CFG, use: pf.Node, e: ast.AST, cs: _ClassState, depth: int = 4) -> List[Tuple[str, str]]:
    """Where can the object `e` evaluates to at `use` come from?  ('except', _) the exception being handled; ('state', attr) read out of
    instance state; ('fresh', _) constructed here by calling something that is not a method/attribute of the cache; ('unknown', text)."""
    out: List[Tuple[str, str]] = []

    def from_expr(x: ast.AST, at: pf.Node, top: bool) -> None:
        attr, local, dp = _self_base(x)
        if attr is not None:
            out.append(('unknown', f'self.{attr}(...)') if attr in cs.methods else ('state', attr))
        elif local is not None and (dp > 0 or not top) and depth > 0:
            out.extend(_value_sources(fn, cfg, at, local, cs, depth - 1))
        elif top and isinstance(x, ast.Call) and pf.dotted(x.func) is not None:
            out.append(('fresh', pf.nsrc(x)))
        else:
            out.append(('unknown', pf.nsrc(x)))

    for o in cf.origins(fn, cfg, use, e):
        if o.kind == 'except':
            out.append(('except', o.text()))
        elif o.kind in ('subscript', 'call'):
            from_expr(o.expr, o.node, True)  # type: ignore[arg-type]
        elif o.kind == 'other' and isinstance(o.expr, (ast.Assign, ast.AnnAssign)) and o.expr.value is not None:
            val = o.expr.value  # tuple unpacking: `deadline, exc = self._failed[k]`
            for part in (val.elts if isinstance(val, (ast.Tuple, ast.List)) else [val]):
                from_expr(part, o.node, False)
        elif o.kind == 'other' and isinstance(o.expr, ast.Attribute):
            from_expr(o.expr, o.node, True)
        elif o.kind == 'free':
            out.append(('fresh', o.text()))  # a global: an exception class raised without arguments
        else:
            out.append(('unknown', o.text()))
    return out


def _r6_own_failure(ctx: Ctx, v: View, cs: _ClassState) -> None:
    """A lookup may fail only with what its own (shared) load raised or with its own cancellation.  Those reach the caller by propagation
    through the awaits, or through a re-raise inside the handler that caught them.  Every `raise` statement of lookup (helpers inlined) and of
    the task body is therefore classified by the provenance of the raised object and by what its guards read."""
    for name, mm, fn, cfg, k in v.roots():
        par = mm.parents()
        for R in af.stmt_nodes(cfg, lambda n: n.kind == 'raise' and isinstance(n.ast, ast.Raise)):
            cons = f'{F}::{CLS}.{name}::{R.text()}'
            cur: Optional[ast.AST] = R.ast
            handler = None
            while cur is not None and cur is not fn and handler is None:
                cur = par.get(cur)
                if isinstance(cur, ast.ExceptHandler):
                    handler = cur
            exc = R.ast.exc  # type: ignore[union-attr]
            if exc is None:
                ctx.need(handler is not None, f'{cons}: bare raise outside a handler')
                ctx.ok('R6', cons, 're-raises the exception being handled')
                continue
            srcs = _value_sources(fn, cfg, R, exc, cs)
            kinds = {s[0] for s in srcs}
            state = sorted({s[1] for s in srcs if s[0] == 'state'})
            filled = [(a, cs.filled_by(a)) for a in state if cs.filled_by(a)]
            if filled:
                a, ws = filled[0]
                w = next((x for x in ws if cs.on_path(x[0])), ws[0])
                ctx.bad('R6', cons, f'`{R.text()}` raises an object read out of self.{a}, which `{pf.nsrc(w[3])}` in {w[0]} fills: the lookup fails with something remembered from '
                        f'EARLIER lookups -- no load was started or joined on its behalf and it was not cancelled (t0: lookup({k}) -> its load fails, allowed; the backend recovers; '
                        f't1: lookup({k}) -> raises the old exception, 0 loads attempted)', mm.path, R.lineno)
                continue
            if state and kinds <= {'state', 'except'}:
                ctx.ok('R6', cons, f'self.{state[0]} is never filled under this configuration: unreachable')
                continue
            if kinds == {'except'}:
                ctx.ok('R6', cons, 're-raises the exception being handled (by name)')
                continue
            if handler is not None and kinds <= {'except', 'fresh'}:
                ctx.ok('R6', cons, 'raised inside an except handler: converts the failure this lookup has just caught')
                continue
            tname = pf.dotted(exc.func) if isinstance(exc, ast.Call) else pf.dotted(exc)
            if kinds == {'fresh'} and tname in ('AssertionError', 'builtins.AssertionError'):
                ctx.ok('R6', cons, 'explicit assertion (the assert statement spelled out): invariants are not analysed')
                continue
            if kinds != {'fresh'}:
                v.deferred.append(f'{cons}: provenance of the raised object not recognised ({[s for s in srcs if s[0] == "unknown"][:1]})')
                continue
            # a fresh exception outside any handler: what decides that this lookup fails?
            reads: Set[str] = set()
            opaque: Set[str] = set()
            guards = []
            for t in cfg.nodes:
                if t.kind != 'test':
                    continue
                for lab in ('T', 'F'):
                    if af.every_path_uses_edge(cfg, R, t, lab):
                        guards.append(t)
                        r, c = _self_reads(pf.expand_locals(fn, t.ast), set(cs.methods))
                        reads |= r
                        opaque |= c
            onp = [(a, w) for a in sorted(reads) for w in cs.writers.get(a, []) if w[0] != '__init__' and cs.on_path(w[0])]
            if onp:
                a, w = onp[0]
                ctx.bad('R6', cons, f'`{R.text()}` makes the lookup fail depending on self.{a} (test `{pf.nsrc(guards[0].ast)}`), which `{pf.nsrc(w[3])}` in {w[0]} writes during other '
                        f'lookups: this lookup fails although no load of its own failed and it was not cancelled (failure memory / circuit breaker / admission limit)', mm.path, R.lineno)
                continue
            admin = [a for a in sorted(reads) if any(w[0] != '__init__' for w in cs.writers.get(a, []))]
            if admin and len(admin) == len(reads) and not opaque:
                ctx.ok('R6', cons, f'only under administrative state self.{admin[0]} (written outside the lookup path, e.g. shutdown): outside the property')
                continue
            v.deferred.append(f'{cons}: a lookup fails here without a failed load or a cancellation; the guard {[pf.nsrc(g.ast) for g in guards]} is not attributable to '
                              f'shutdown or to other lookups (not analysed)')


# --------------------------------------------------------------------------------------
# R5 use sites and constructor options
# --------------------------------------------------------------------------------------


def _const_expr(m: pf.Module, e: ast.AST) -> Optional[ast.Constant]:
    if isinstance(e, ast.Constant):
        return e
    num = af.const_number(m, e)
    if num is not None:
        return ast.Constant(value=int(num) if num.denominator == 1 else float(num))
    if isinstance(e, ast.Name):
        try:
            g = m.global_assign(e.id)
        except AnalysisError:
            return None
        return g if isinstance(g, ast.Constant) else None
    return None


def _r5_sites(ctx: Ctx, cm: pf.Module) -> List[Tuple[str, Dict[str, ast.Constant]]]:
    """R5 at the construction sites; returns the option configuration (attr -> constant) of each site, first the session cache."""
    ccls = cm.cls(CLS)
    init = af.method(cm, ccls, '__init__')
    ia = init.args
    ctx.need(not ia.vararg and not ia.kwarg and not ia.posonlyargs, f'{CLS}.__init__ takes star arguments')
    pnames = [a.arg for a in ia.args][1:]
    kwonly = [a.arg for a in ia.kwonlyargs]
    ctx.need(pnames[:4] == BASE_PARAMS, f'{CLS}.__init__ parameters changed: {pnames}')
    opts = cf.option_attrs(ccls, BASE_PARAMS)
    configs: List[Tuple[str, Dict[str, ast.Constant]]] = []
    for rel, what in ((AU, 'session'), (JAR, 'jar')):
        m = pf.load(rel)
        par = m.parents()
        sites = [c for c in ast.walk(m.tree) if isinstance(c, ast.Call) and (pf.dotted(c.func) == CLS or (isinstance(c.func, ast.Subscript) and pf.dotted(c.func.value) == CLS))]
        ctx.need(len(sites) >= 1, f'{rel}: no construction of {CLS}')
        attrs = []
        for c in sites:
            fn = m.enclosing_func(c)
            q = m.qualname(fn) if fn is not None else '<module>'
            ctx.need(not any(isinstance(a, ast.Starred) for a in c.args) and all(kw.arg for kw in c.keywords) and len(c.args) <= len(pnames),
                     f'{rel}::{q}: {CLS}(...) with star arguments')
            bound: Dict[str, ast.AST] = dict(zip(pnames, c.args))
            for kw in c.keywords:
                ctx.need(kw.arg in pnames + kwonly, f'{rel}::{q}: {CLS}({kw.arg}=...) is not a constructor parameter')
                bound[kw.arg] = kw.value  # type: ignore[index]
            for pname in ('lifetime_ns', 'num_slots'):
                cons = f'{rel}::{q}::{CLS}({pname}={pf.nsrc(bound[pname]) if pname in bound else "?"})'
                ctx.need(pname in bound, f'{cons}: argument not passed')
                val = af.const_number(m, bound[pname])
                ctx.need(val is not None, f'{cons}: not a constant expression')
                ctx.check(val > 0 and val.denominator == 1, 'R5', cons, f'{pname} = {val}: the class asserts {pname} > 0 (the bound and freshness arguments need a positive '  # type: ignore[union-attr,operator]
                          f'integer)', m.path, c.lineno, detail={'value': int(val)})  # type: ignore[arg-type]
            conf: Dict[str, ast.Constant] = {}
            for p, (attr, default) in opts.items():
                e = bound.get(p, default)
                ce = _const_expr(m if p in bound else cm, e) if e is not None else None
                if ce is not None:
                    conf[attr] = ce
                    if p in bound:
                        ctx.ok('R5', f'{rel}::{q}::{CLS}({p}={pf.nsrc(e)})', {'option': attr, 'value': repr(ce.value), 'propagated': True})
                # otherwise the option stays symbolic: both branches of every test on it are analysed
            label = f'{what} cache options: ' + (', '.join(f'{a}={conf[a].value!r}' for a in sorted(conf)) or 'none')
            configs.append((label, conf))
            p = par.get(c)
            if isinstance(p, ast.Assign) and len(p.targets) == 1 and isinstance(p.targets[0], ast.Attribute):
                attrs.append(p.targets[0].attr)
        if rel != AU:
            continue
        ctx.need(attrs, f'{AU}: the cache is not stored in an attribute')
        members = {st.name for st in ccls.body if isinstance(st, (ast.FunctionDef, ast.AsyncFunctionDef))} | {x.attr for x in ast.walk(ccls) if isinstance(x, ast.Attribute)
                                                                                                         and isinstance(x.value, ast.Name) and x.value.id == 'self'}
        nuse = 0

        def judge(n: ast.AST, fn, q: str, depth: int = 2) -> None:
            """n evaluates to the cache object: what is done with it?"""
            nonlocal nuse
            p = par.get(n)
            if isinstance(p, ast.Attribute) and p.value is n:
                nuse += 1
                role = 'lookup' if p.attr == 'lookup' else 'shutdown' if p.attr == 'shutdown' else f'.{p.attr}'
                cons = f'{AU}::{q}::cache use {role}'
                if p.attr in ('lookup', 'shutdown'):
                    ctx.ok('R5', cons, pf.nsrc(par.get(p) or p))  # called, awaited later, handed to gather/create_task: still the public entry point
                elif p.attr in members:
                    ctx.bad('R5', cons, f'`{pf.nsrc(par.get(p) or p)}` reaches into the cache object (`.{p.attr}`) instead of going through `await ....lookup(k)`: internal maps are '
                            f'read/written without the expiry, capacity and single-flight logic', m.path, n.lineno)
                else:
                    raise AnalysisError(f'{cons}: `.{p.attr}` is not a member of {CLS} (not analysed)')
                return
            if isinstance(p, ast.Assign) and p.value is n and len(p.targets) == 1 and isinstance(p.targets[0], ast.Name) and fn is not None and depth > 0 \
                    and pf.single_def(fn, p.targets[0].id) is n:
                for u in pf.walk_shallow(fn):
                    if isinstance(u, ast.Name) and u.id == p.targets[0].id and isinstance(u.ctx, ast.Load):
                        judge(u, fn, q, depth - 1)
                return
            raise AnalysisError(f'{AU}::{q}: the cache object escapes through `{pf.nsrc(p) if p is not None else pf.nsrc(n)}` (not analysed)')
        for n in ast.walk(m.tree):
            if isinstance(n, ast.Attribute) and n.attr in attrs and isinstance(n.ctx, ast.Load):
                fn = m.enclosing_func(n)
                judge(n, fn, m.qualname(fn) if fn is not None else '<module>')
        ctx.need(nuse >= 1, f'{AU}: the cache attribute is never used')
    return configs


def _class_side(ctx: Ctx, m: pf.Module) -> None:
    cls = m.cls(CLS)
    v = _view(ctx, m)
    ctx.unit('helpers_inlined_into_lookup', len(v.il.inlined))
    ctx.unit('task_bodies', len(v.bodies))
    cs = _ClassState(v)
    _prims(ctx, v)
    _r1_maps(ctx, v)
    _r1_put_callers(ctx, v)
    _r1_capacity(ctx, v)
    _r1_side_tables(ctx, v, cs)
    xinfo = _r2_fresh(ctx, v)
    _r2_provenance(ctx, v, xinfo)
    _r3_single_flight(ctx, v)
    _r4_shield(ctx, v)
    _r6_own_failure(ctx, v, cs)
    if v.deferred:
        raise AnalysisError(v.deferred[0])


def run(ctx: Ctx) -> None:
    ctx.explanation = ('Must-pass-through / dominance on the CFG of lookup (and of the coroutine it registers as the shared task) with await-atomicity, truth tables of the '
                       'capacity and expiry comparisons, agreement of the three maps in _put/_remove, reaching-definition provenance of returned and stored values, '
                       'registration/deregistration ownership of the in-flight map including cancellation exits and never-started tasks, a closure over every await of a '
                       'shared task, constant propagation of constructor options from the session and JAR sites.')
    ctx.rule('R1', 'every insertion is followed atomically by capacity test + eviction; _put/_remove keep the three maps in step (and in key-function order); '
                   'no other mutation; per-instance maps; no per-key side table that the capacity does not cover', 17)
    ctx.rule('R2', 'expiry = monotonic_ns + lifetime_ns; a cached value is returned only after, atomically, its expiry was compared with the same clock '
                   'and expired entries removed; every returned / stored value is the awaited load result', 9)
    ctx.rule('R3', 'single flight: registration atomic after the in-flight test, one load call site, waiters start no load, registration removed on every exit '
                   'of the registering frame (or by a done-callback), and by that frame not before the registered task has ended', 6)
    ctx.rule('R4', 'every await of a task read from the shared _futures map is shielded', 1)
    ctx.rule('R5', 'gear/auth.py and the JAR cache site build the cache with positive constant lifetime/capacity; auth.py only calls lookup', 5)
    ctx.rule('R6', 'a lookup fails only with its own load\'s failure or its own cancellation: every raise in lookup / the task body re-raises the exception being handled '
                   '(shutdown guard excepted); nothing remembered in instance state is raised, no failure is decided by what other lookups wrote', 1)
    ctx.assume('asyncio switches only at await; cancelling a coroutine that awaits a Task cancels that Task unless the await goes through asyncio.shield; '
               'a Task cancelled before its first step never executes its body')
    ctx.assume('shutdown() is outside the property; the loader coroutine does not touch the cache')
    m = pf.load(F)
    ctx.unit('files', 3)
    configs = _r5_sites(ctx, m)
    seen: List[Dict[str, Any]] = []
    for label, conf in configs:
        key = {a: c.value for a, c in conf.items()}
        if key in seen:
            continue
        first = not seen
        seen.append(key)
        ms = cf.specialise(m, CLS, conf)
        _class_side(ctx if first else _Sfx(ctx, f' [{label}]'), ms)  # type: ignore[arg-type]
    ctx.unit('option_configurations', len(seen))
    ctx.unit('functions', 8)
