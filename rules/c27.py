"""C27 Database transactions retry only transient errors, atomically.

  R1  decision shape of retry_transient_mysql_errors: an exception is re-raised iff the classifier returns a falsy value, otherwise the
      loop sleeps and retries; the classifier accepts exactly InternalError{1205} and OperationalError{1040, 1213, 2003, 2013} (tables
      read from the module constants and compared with the statement's list) and returns truthy log levels for them, None otherwise
  R2  the retry encloses the whole transaction: in transaction() and in every retried Database method the retry wrapper is outside
      `async with db.start()`; nothing that receives an already open Transaction is retried; async generators are not retried
  R3  Transaction exit: rollback when an exception is propagating, commit otherwise, connection released in `finally`, shielded from
      cancellation; the context manager forwards the exception type
  R4  cross-language atomicity: a stored procedure that issues START TRANSACTION (implicit commit of the caller's transaction) is never
      CALLed on an open Transaction after a write; procedures CALLed from inside other procedures contain no transaction statements;
      every path through a procedure that starts a transaction ends it exactly once (COMMIT or ROLLBACK)
  R5  inside Transaction a failing statement aborts the transaction: every `try` that encloses a statement execution re-raises on every
      handler path (no `return`/`break`/`continue` in its `finally`, no contextlib.suppress around it); no statement-executing function
      is retried (decorator) or sleeps-and-retries (a statement re-issued inside an open transaction runs after InnoDB may already have
      rolled the transaction back).  "Executes a statement" is a flow fact (engines/c27facts.ExecFlow): `cursor.execute/executemany/
      callproc` called directly, through a local alias, through a parameter of a helper method / module-level function that receives
      the cursor or the bound method (`await self._execute(cursor.execute, sql, args)`), through a lambda / nested def / partial, or by
      calling another executing unit; a cursor or bound method handed to code outside the module is declined.  The message names an
      abstract error (truth table of R7) for which the handler does not raise
  R6  one Database operation == one transaction: every Database method opens at most one transaction per call (one `self.start()` or one
      call of another transaction-opening method), never inside a loop; the array of execute_many reaches a single Transaction.execute_many
  R7  the error that reaches the retry classifier is the one the driver raised (DB layer, gear/gear/database.py): every `except`
      handler between the retry wrapper and the statements is evaluated over the finite abstract domain of the caught error
      {OperationalError, InternalError} x {code in / not in the retry table} + other MySQL error + non-MySQL error (tests on the
      classifier, isinstance and `exc.args[0]` are interpreted on that domain, other tests are free booleans; every error code a test
      mentions is its own class of the domain; boolean helpers on the exception -- module-level functions, methods, imported from
      another repository module -- and helpers called as statements that may raise are inlined into the table first): on every path a
      retryable error leaves the handler as the same exception or as another retryable one, a non-retryable one is never replaced by
      an error the classifier accepts, and a retryable one is not swallowed; no statement of the layer fabricates an error the
      classifier accepts outside a handler.  Functions only ever scheduled as background tasks are outside the retry path.
  R8  the same decision for application code that runs inside a retried transaction (functions decorated with @transaction /
      @retry_transient_mysql_errors and functions that receive an open `tx`), whole repository in the thorough tier
Not decided: MySQL/InnoDB behaviour itself; which error codes the server actually emits.
"""
from __future__ import annotations

import ast
import builtins
from typing import Dict, FrozenSet, List, Optional, Set, Tuple

from engines import absdom, c27facts as cf, pyfacts as pf
from engines import sqlfront as sf
from engines.common import AnalysisError, Ctx
from engines.sqlast import N, text

META = dict(
    category='other',
    text='Decision table of the retry wrapper over the classifier outcome, exact comparison of the retryable-code tables with the statement, nesting order of '
         'retry vs. transaction at every retried site, exit discipline of Transaction, and the SQL-side rule that procedures which start their own transaction '
         'cannot split a Python transaction.',
    note='Trusted: Python AST/CFG, SQL parser; MySQL implicit-commit semantics of START TRANSACTION; aiomysql commit/rollback.',
    technique='static analysis: predicate truth table over an abstract error domain (helpers inlined) + may-flow of cursor/execute callables through helpers + decorator nesting order + CFG checks + cross-language call rule over the SQL program',
    design_ref='DESIGN.md §3 C27',
)

DB = 'gear/gear/database.py'
WANT_INTERNAL = {1205}
WANT_OPERATIONAL = {1040, 1213, 2003, 2013}
LOGLEVELS = {'logging.DEBUG': 10, 'logging.INFO': 20, 'logging.WARNING': 30, 'logging.ERROR': 40, 'logging.CRITICAL': 50, 'logging.NOTSET': 0}


def _int_tuple(e: ast.expr) -> Optional[Set[int]]:
    if isinstance(e, (ast.Tuple, ast.List, ast.Set)) and all(isinstance(x, ast.Constant) and isinstance(x.value, int) for x in e.elts):
        return {x.value for x in e.elts}
    return None


def r1(ctx: Ctx, m: pf.Module) -> None:
    op = _int_tuple(m.global_assign('operational_error_retry_codes'))
    it = _int_tuple(m.global_assign('internal_error_retry_codes'))
    ctx.need(op is not None and it is not None, 'retry code tables are not literal tuples')
    ctx.check(op == WANT_OPERATIONAL, 'R1', f'{DB}::operational_error_retry_codes', f'retryable OperationalError codes are {sorted(op)}; the statement allows connection limit 1040, deadlock 1213, '
              f'cannot connect 2003, lost connection 2013 only (difference: +{sorted(op - WANT_OPERATIONAL)} -{sorted(WANT_OPERATIONAL - op)})', m.path, 0)
    ctx.check(it == WANT_INTERNAL, 'R1', f'{DB}::internal_error_retry_codes', f'retryable InternalError codes are {sorted(it)}; the statement allows lock wait timeout 1205 only', m.path, 0)
    cl = m.func('exception_log_level_if_retryable')
    # shape: sequence of `if isinstance(exc, T) and exc.args[0] in TABLE: return <level>` then `return None`
    arms = []
    ok = True
    for st in cl.body:
        if isinstance(st, ast.Expr) and isinstance(st.value, ast.Constant):
            continue
        if isinstance(st, ast.If):
            t = st.test
            good = isinstance(t, ast.BoolOp) and isinstance(t.op, ast.And) and len(t.values) == 2 and isinstance(t.values[0], ast.Call) and pf.dotted(t.values[0].func) == 'isinstance' \
                and isinstance(t.values[1], ast.Compare) and isinstance(t.values[1].ops[0], ast.In) and pf.nsrc(t.values[1].left) == 'exc.args[0]' \
                and len(st.body) == 1 and isinstance(st.body[0], ast.Return) and not st.orelse
            if not good:
                ok = False
                break
            arms.append((pf.nsrc(t.values[0].args[1]), pf.nsrc(t.values[1].comparators[0]), st.body[0].value))
        elif isinstance(st, ast.Return):
            ok = ok and isinstance(st.value, ast.Constant) and st.value.value is None and st is cl.body[-1]
        else:
            ok = False
    ctx.need(ok, 'exception_log_level_if_retryable: shape not recognised')
    got = sorted((a, b) for a, b, _ in arms)
    ctx.check(got == [('pymysql.err.InternalError', 'internal_error_retry_codes'), ('pymysql.err.OperationalError', 'operational_error_retry_codes')], 'R1', f'{DB}::exception_log_level_if_retryable::arms',
              f'the classifier pairs exception classes and code tables as {got}', m.path, cl.lineno)
    # returned levels are truthy
    lvl_dict = m.global_assign('operational_error_log_level')
    vals: List[ast.expr] = []
    for _, _, v in arms:
        if isinstance(v, ast.Call) and pf.nsrc(v.func) == 'operational_error_log_level.get':
            vals.append(v.args[1])
            if isinstance(lvl_dict, ast.Dict):
                vals += list(lvl_dict.values)
        else:
            vals.append(v)
    truthy = all(LOGLEVELS.get(pf.nsrc(v), None) not in (None, 0) for v in vals)
    ctx.check(truthy, 'R1', f'{DB}::exception_log_level_if_retryable::truthy levels', f'a retryable error is mapped to a falsy level ({[pf.nsrc(v) for v in vals]}): the wrapper would re-raise it', m.path, cl.lineno)
    # the wrapper's decision table
    w = m.func('retry_transient_mysql_errors.wrapper')
    loops = [s for s in w.body if isinstance(s, ast.While)]
    ctx.need(len(loops) == 1 and isinstance(loops[0].test, ast.Constant) and loops[0].test.value is True, 'retry wrapper: while True not found')
    tr = loops[0].body[0]
    ctx.need(isinstance(tr, ast.Try) and len(tr.body) == 1 and isinstance(tr.body[0], ast.Return) and len(tr.handlers) == 1 and pf.nsrc(tr.handlers[0].type) == 'Exception', 'retry wrapper: try shape')
    h = tr.handlers[0]
    atoms = absdom.collect_test_atoms(h.body)
    ctx.need(len(atoms) == 1, f'retry wrapper: expected one decision predicate, found {[absdom.atom_key(a) for a in atoms]}')
    a = atoms[0]
    is_cls = (isinstance(a, ast.NamedExpr) and pf.nsrc(a.value) == f'exception_log_level_if_retryable({h.name})') or pf.nsrc(a) == f'exception_log_level_if_retryable({h.name})'
    ctx.need(is_cls, f'retry wrapper decides on `{pf.nsrc(a)}`')
    res = {}
    for v in (False, True):
        o = absdom.walk_block(h.body, lambda _a, v=v: v)
        res[v] = o.kind
    ctx.check(res == {False: 'raise', True: 'fall'}, 'R1', f'{DB}::retry_transient_mysql_errors::decision', f'classifier falsy -> {res[False]}, truthy -> {res[True]}; expected re-raise / retry', m.path, h.lineno)
    after = loops[0].body[1:]
    ok = len(after) == 2 and pf.nsrc(after[0]) == 'tries += 1' and pf.nsrc(after[1]) == 'await sleep_before_try(tries)'
    ctx.check(ok, 'R1', f'{DB}::retry_transient_mysql_errors::backoff', f'after a retryable error the loop runs {[pf.nsrc(x) for x in after]}; expected tries += 1; await sleep_before_try(tries)', m.path, loops[0].lineno)
    ret = tr.body[0].value
    ctx.check(isinstance(ret, ast.Await) and pf.nsrc(ret.value) == 'f(*args, **kwargs)', 'R1', f'{DB}::retry_transient_mysql_errors::re-invokes f', 'the retried call is not f(*args, **kwargs)', m.path, tr.lineno)


def _retried(fn: pf.FuncDef) -> bool:
    return any((pf.dotted(d) or '') == 'retry_transient_mysql_errors' for d in fn.decorator_list)


def r2(ctx: Ctx, m: pf.Module) -> None:
    tw = m.func('transaction.transformer.wrapper')
    cons = f'{DB}::transaction'
    decos = [pf.dotted(d.func) if isinstance(d, ast.Call) else pf.dotted(d) for d in tw.decorator_list]
    body = [s for s in tw.body if not (isinstance(s, ast.Expr) and isinstance(s.value, ast.Constant))]
    ok = 'retry_transient_mysql_errors' in decos and len(body) == 1 and isinstance(body[0], ast.AsyncWith) and pf.nsrc(body[0].items[0].context_expr).startswith('db.start(') and \
        len(body[0].body) == 1 and isinstance(body[0].body[0], ast.Return) and pf.nsrc(body[0].body[0].value) == 'await fun(tx, *args, **kwargs)'
    ctx.check(ok, 'R2', cons + '::retry outside start', 'the retry wrapper is not applied around `async with db.start() as tx: return await fun(tx, ...)`: a retry would re-run statements inside a '
              'transaction that already failed, or commit a partial attempt', m.path, tw.lineno)
    dbc = m.cls('Database')
    n = 0
    for fn in dbc.body:
        if not isinstance(fn, (ast.AsyncFunctionDef, ast.FunctionDef)):
            continue
        is_gen = any(isinstance(x, (ast.Yield, ast.YieldFrom)) for x in pf.walk_shallow(fn))
        starts = [w for w in pf.walk_shallow(fn) if isinstance(w, ast.AsyncWith) and any(pf.nsrc(i.context_expr).startswith('self.start(') for i in w.items)]
        if _retried(fn):
            n += 1
            c2 = f'{DB}::Database.{fn.name}'
            ctx.check(not is_gen, 'R2', c2 + '::not a generator', 'an async generator is retried: rows already yielded would be yielded again', m.path, fn.lineno)
            if fn.name in ('async_init',):
                continue
            inner_tx = bool(starts) or any(isinstance(c, ast.Call) and pf.dotted(c.func) in ('self.execute_and_fetchone',) for c in ast.walk(fn))
            params = [a.arg for a in fn.args.args]
            ctx.check(inner_tx and 'tx' not in params, 'R2', c2 + '::owns its transaction', 'a retried method does not open its own transaction inside the retry (or takes an open one)', m.path, fn.lineno)
    ctx.need(n >= 8, f'only {n} retried Database methods found')
    # whole-repository: nothing that takes an open Transaction is retried directly
    dirs = ['batch', 'gear', 'auth', 'ci', 'monitoring', 'web_common'] if ctx.tier == 'thorough' else ['batch/batch', 'gear/gear', 'auth/auth', 'ci/ci']
    k = 0
    for rel in pf.walk_py(dirs):
        mm = pf.load(rel)
        if 'retry_transient_mysql_errors' not in mm.src:
            continue
        for q, fn in mm.functions():
            if _retried(fn) and rel != DB or (rel == DB and _retried(fn)):
                k += 1
                params = [a.arg for a in fn.args.args]
                anns = [pf.nsrc(a.annotation) for a in fn.args.args if a.annotation is not None]
                bad = 'tx' in params or any('Transaction' in x for x in anns)
                if q.endswith('transformer.wrapper'):
                    continue
                ctx.check(not bad, 'R2', f'{rel}::{q}::retried function takes no open transaction', 'a function receiving an open Transaction is retried: the retry re-executes on a connection whose '
                          'transaction is in an unknown state', mm.path, fn.lineno)
    ctx.unit('retried_functions', k)


def r3(ctx: Ctx, m: pf.Module) -> None:
    fn = m.func('Transaction._aexit_1')
    cons = f'{DB}::Transaction._aexit_1'
    trs = [s for s in fn.body if isinstance(s, ast.Try)]
    ctx.need(len(trs) == 1, '_aexit_1: try not found')
    tr = trs[0]
    ifs = [n for n in ast.walk(ast.Module(body=tr.body, type_ignores=[])) if isinstance(n, ast.If) and pf.nsrc(n.test) == 'exc_type']
    ok = len(ifs) == 1 and [pf.nsrc(s) for s in ifs[0].body] == ['await self.conn.rollback()'] and [pf.nsrc(s) for s in ifs[0].orelse] == ['await self.conn.commit()']
    ctx.check(ok, 'R3', cons + '::rollback or commit', 'on exit the transaction is not rolled back exactly when an exception is propagating and committed otherwise', m.path, fn.lineno)
    fin = [pf.nsrc(s) for s in tr.finalbody]
    ctx.check(any('_release_connection' in s for s in fin) and 'self.conn = None' in fin, 'R3', cons + '::release in finally', 'the connection is not released in `finally`', m.path, fn.lineno)
    reraises = all(any(isinstance(x, ast.Raise) and x.exc is None for x in h.body) for h in tr.handlers)
    ctx.check(reraises, 'R3', cons + '::errors propagate', 'a failing commit/rollback is swallowed (the caller would believe the transaction committed)', m.path, fn.lineno)
    ae = m.func('Transaction._aexit')
    ctx.check(any(pf.nsrc(n) == 'await asyncio.shield(self._aexit_1(exc_type))' for n in ast.walk(ae)), 'R3', f'{DB}::Transaction._aexit::shielded', 'commit/rollback is not shielded from cancellation', m.path, ae.lineno)
    cm = m.func('TransactionAsyncContextManager.__aexit__')
    ctx.check(any(pf.nsrc(n) == 'await self.tx._aexit(exc_type, exc_val, exc_tb)' for n in ast.walk(cm)), 'R3', f'{DB}::TransactionAsyncContextManager.__aexit__', 'the exception type is not forwarded to the transaction exit', m.path, cm.lineno)
    ai = m.func('Transaction.async_init')
    starts = [pf.const_str(c.args[0]) for c in ast.walk(ai) if isinstance(c, ast.Call) and pf.dotted(c.func) == 'cursor.execute' and c.args]
    ctx.check(sorted(s for s in starts if s) == ['START TRANSACTION READ ONLY;', 'START TRANSACTION;'], 'R3', f'{DB}::Transaction.async_init::starts transaction', f'a new Transaction issues {starts}', m.path, ai.lineno)
    cp = None
    for c in ast.walk(m.func('Database.async_init')):
        if isinstance(c, ast.Call) and pf.dotted(c.func) == 'create_database_pool':
            cp = c
    ok = cp is not None and any(k.arg == 'autocommit' and isinstance(k.value, ast.Constant) and k.value.value is False for k in cp.keywords)
    ctx.check(ok, 'R3', f'{DB}::Database.async_init::autocommit off', 'the pool is not created with autocommit=False (statements of a failed attempt would persist)', m.path, 0)


def _txn_paths(body: List[N], state: int = 0) -> List[int]:
    """Possible numbers of open transactions at the end of body, starting from `state`; -1 marks a violation (double close / close without open)."""
    states = [state]
    for st in body:
        new: List[int] = []
        for s in states:
            if s < 0:
                new.append(s)
                continue
            if st.kind == 'txn':
                if st.what == 'START TRANSACTION':
                    new.append(s + 1 if s == 0 else -1)
                else:
                    new.append(s - 1 if s == 1 else -1)
            elif st.kind == 'if':
                for _, b in st.branches:
                    new += _txn_paths(b, s)
                new += _txn_paths(st.orelse, s) if st.orelse is not None else [s]
            elif st.kind in ('loop', 'while', 'block'):
                inner = _txn_paths(st.body, s)
                new += inner if all(x == s for x in inner) else [-1]
            else:
                new.append(s)
        states = sorted(set(new))
    return states


def r4(ctx: Ctx) -> None:
    prog = sf.load_program()
    starts: Set[str] = set()
    for name, r in prog.routines.items():
        sts = list(sf.all_statements(r.ast.body))
        has = any(st.kind == 'txn' for st in sts)
        if any(st.kind == 'txn' and st.what == 'START TRANSACTION' for st in sts):
            starts.add(name)
        if r.kind == 'procedure' and has:
            ends = _txn_paths(r.ast.body)
            ctx.check(ends == [0], 'R4', f'{r.file}::{name}::balanced transaction', f'some path through {name} leaves {ends} transactions open / closes twice: every path must end the transaction it started exactly once',
                      r.file, r.line)
        if r.kind in ('trigger', 'function'):
            ctx.check(not has, 'R4', f'{r.file}::{name}::no transaction statements', f'{r.kind} {name} contains transaction statements', r.file, r.line)
    # procedures called from procedures must not touch the transaction
    for name, r in prog.routines.items():
        for st in sf.all_statements(r.ast.body):
            if st.kind == 'call':
                callee = st.name
                if callee in prog.routines:
                    has = any(x.kind == 'txn' for x in sf.all_statements(prog.routines[callee].ast.body))
                    ctx.check(not has, 'R4', f'{r.file}::{name}::CALL {callee}', f'{callee} is called from inside {name}\'s transaction but issues transaction statements itself (the outer transaction would be '
                              'committed half way)', r.file, r.line_of(st))
    # Python: CALL on an open Transaction
    n_tx = n_db = 0
    for rel in pf.walk_py(['batch/batch', 'auth/auth', 'ci/ci', 'gear/gear']):
        m = pf.load(rel)
        if 'CALL ' not in m.src:
            continue
        for e in sf.embedded_in(m):
            if e.sql_text is None:
                continue
            for st in e.stmts():
                if st.kind != 'call':
                    continue
                if st.name not in prog.routines:
                    continue
                if e.receiver.split('.')[-1] == 'tx':
                    n_tx += 1
                    if st.name in starts:
                        # no write on tx before it in the same function
                        earlier = [x for x in sf.embedded_in(m) if x.fn is e.fn and x.lineno < e.lineno and x.receiver.split('.')[-1] == 'tx' and x.sql_text is not None
                                   and any(sf.written_tables(s2) or s2.kind == 'call' for s2 in x.stmts())]
                        ctx.check(not earlier, 'R4', f'{rel}::{e.qual}::tx CALL {st.name}', f'CALL {st.name} (which issues START TRANSACTION, implicitly committing) runs on an open Transaction after '
                                  f'the write at line {earlier[0].lineno if earlier else 0}: that write is committed even if the Python transaction later rolls back', m.path, e.lineno)
                    else:
                        ctx.ok('R4', f'{rel}::{e.qual}::tx CALL {st.name}', 'procedure has no transaction statements')
                else:
                    n_db += 1
                    ctx.ok('R4', f'{rel}::{e.qual}::db CALL {st.name}', 'fresh connection per call', nontrivial=True)
    ctx.need(n_tx >= 1 and n_db >= 8, f'CALL sites: {n_tx} on a Transaction, {n_db} on the Database')
    ctx.unit('call_sites', n_tx + n_db)


EXEC_ATTRS = cf.EXEC_ATTRS
BACKOFF_NAMES = ('sleep_before_try', 'sleep', 'retry_transient_errors', 'retry_transient_mysql_errors', 'retry_all_errors', 'retry_long_running')
PLAIN_DECORATORS = ('staticmethod', 'classmethod', 'wraps', 'abstractmethod', 'overload')
BENIGN_CURSOR_CALLEES = ('debug', 'info', 'warning', 'error', 'exception', 'log', 'print', 'repr', 'str', 'id', 'type', 'isinstance')


def _swallowing_finally(tr: ast.Try) -> Optional[ast.stmt]:
    """A `return` (or a `break`/`continue` that leaves the finally block) inside `finally` discards the exception in flight."""
    def rec(stmts: List[ast.stmt], in_loop: bool) -> Optional[ast.stmt]:
        for st in stmts:
            if isinstance(st, ast.Return) or (isinstance(st, (ast.Break, ast.Continue)) and not in_loop):
                return st
            if isinstance(st, (ast.FunctionDef, ast.AsyncFunctionDef, ast.ClassDef)):
                continue
            loop = in_loop or isinstance(st, (ast.For, ast.AsyncFor, ast.While))
            for fld in ('body', 'orelse', 'finalbody'):
                b = getattr(st, fld, None)
                if isinstance(b, list) and b and isinstance(b[0], ast.stmt):
                    r = rec(b, loop)
                    if r is not None:
                        return r
            for h in getattr(st, 'handlers', []) or []:
                r = rec(h.body, loop)
                if r is not None:
                    return r
        return None
    return rec(tr.finalbody, False)


def _stored_then_raised(m: pf.Module, t: ast.Try, h: ast.ExceptHandler) -> bool:
    """`except E as exc: saved = exc` (nothing else that leaves the handler) with an unconditional `raise saved` as the next effective
    statement after the `try`: the error still propagates on every path."""
    if not h.name:
        return False
    saved: Set[str] = set()
    for st in h.body:
        if isinstance(st, ast.Assign) and len(st.targets) == 1 and isinstance(st.targets[0], ast.Name) and isinstance(st.value, ast.Name) and st.value.id == h.name:
            saved.add(st.targets[0].id)
        elif not isinstance(st, (ast.Expr, ast.Pass)):
            return False
    if not saved or t.finalbody or t.orelse or len(t.handlers) != 1:
        return False
    parent = m.parents().get(t)
    for fld in ('body', 'orelse', 'finalbody'):
        blk = getattr(parent, fld, None)
        if isinstance(blk, list) and t in blk:
            for st in blk[blk.index(t) + 1:]:
                if isinstance(st, (ast.Expr, ast.Pass)) and not any(isinstance(x, ast.Await) for x in ast.walk(st)):
                    continue
                return isinstance(st, ast.Raise) and isinstance(st.exc, ast.Name) and st.exc.id in saved
    return False


def _retry_decorator(flow: 'cf.ExecFlow', m: pf.Module, d: ast.expr) -> Optional[bool]:
    """True: the decorator re-invokes / retries the function; False: known not to; None: unknown."""
    name = pf.dotted(d.func) if isinstance(d, ast.Call) else pf.dotted(d)
    last = (name or '').split('.')[-1]
    if 'retry' in last.lower() or 'retri' in last.lower():
        return True
    if last in PLAIN_DECORATORS:
        return False
    if name and '.' not in name:
        for st in m.tree.body:
            if isinstance(st, (ast.FunctionDef, ast.AsyncFunctionDef)) and st.name == name:
                return True if any(isinstance(x, (ast.While, ast.For, ast.AsyncFor)) for x in ast.walk(st)) else None
    return None


def r5(ctx: Ctx, m: pf.Module) -> None:
    tb = _tables(m)
    flow = cf.ExecFlow(m, 'Transaction', exclude_funcs=('retry_transient_mysql_errors', 'transaction'))
    # units that issue a statement on the open transaction: executing Transaction methods and the module-level helpers they reach
    reach: Set[cf.Key] = {k for k in flow.executing if k[0] == 'm'}
    work = list(reach)
    while work:
        k = work.pop()
        for c in ast.walk(flow.units[k]):
            if isinstance(c, ast.Call):
                cal = flow._callee(c, k)
                if cal is not None and cal in flow.executing and cal not in reach:
                    reach.add(cal)
                    work.append(cal)
    ctx.need(len([k for k in reach if k[0] == 'm']) >= 7, f'Transaction: only {sorted(flow.label(k) for k in reach)} execute statements')
    ctx.unit('executing_units', len(reach))
    helper_params = {flow.label(k): sorted(flow.exec_params[k] | flow.cursor_params[k]) for k in reach if flow.exec_params[k] | flow.cursor_params[k]}
    if helper_params:
        ctx.extra_cov['c27_execute_helpers'] = helper_params

    for k in sorted(reach):
        f = flow.units[k]
        n = f.name
        cons = f'{DB}::{flow.label(k)}'
        verdicts = [(d, _retry_decorator(flow, m, d)) for d in f.decorator_list]
        unknown = [pf.nsrc(d) for d, v in verdicts if v is None]
        retried = [pf.nsrc(d) for d, v in verdicts if v]
        ctx.check(not retried, 'R5', cons + '::not retried', f'{flow.label(k)} executes statements on the open transaction and is wrapped in `@{retried[0] if retried else ""}`: the statement would be re-issued on a '
                  'transaction in an unknown state', m.path, f.lineno)
        ctx.need(not unknown or retried, f'{flow.label(k)}: decorator {unknown} on a statement-executing function is not recognised')
        sleeps = [c for c in ast.walk(f) if isinstance(c, ast.Call) and ((pf.dotted(c.func) or '').split('.')[-1] in BACKOFF_NAMES
                                                                          or (isinstance(c.func, ast.Call) and (pf.dotted(c.func.func) or '').split('.')[-1] in BACKOFF_NAMES))]
        ctx.check(not sleeps, 'R5', cons + '::no in-transaction back-off', f'{n} sleeps/retries inside the open transaction (line {sleeps[0].lineno if sleeps else 0}): statement-level retry is not atomic -- after a deadlock or lock '
                  'wait timeout the server has rolled back earlier statements, and the re-issued statement is then committed without them', m.path, f.lineno)
        tries = [t for t in ast.walk(f) if isinstance(t, ast.Try) and flow.executes(k, ast.Module(body=t.body, type_ignores=[]))]
        bad: List[Tuple[ast.Try, str]] = []
        for t in tries:
            for h in t.handlers:
                if not flow.always_raises(k, h.body) and not _stored_then_raised(m, t, h):
                    bad.append((t, f'the handler `except {pf.nsrc(h.type) if h.type is not None else ""}` (line {h.lineno}) has a path that does not re-raise' + _nonraising_witness(m, t, h, tb)))
                    break
            fin = _swallowing_finally(t)
            if fin is not None:
                bad.append((t, f'`{pf.nsrc(fin)}` in its `finally` (line {fin.lineno}) discards the exception in flight'))
        for w in ast.walk(f):
            if isinstance(w, (ast.With, ast.AsyncWith)) and any(isinstance(i.context_expr, ast.Call) and (pf.dotted(i.context_expr.func) or '').split('.')[-1] == 'suppress' for i in w.items) \
                    and flow.executes(k, ast.Module(body=w.body, type_ignores=[])):
                bad.append((w, f'`with {pf.nsrc(w.items[0].context_expr)}` suppresses the error of the statement'))  # type: ignore[arg-type]
        ctx.check(not bad, 'R5', cons + '::statement failure aborts', f'{n}: the block at line {bad[0][0].lineno if bad else 0} encloses a statement execution and {bad[0][1] if bad else ""}: a failed '
                  'statement is swallowed or re-issued inside the still-open transaction (after a deadlock InnoDB has already rolled the whole transaction back: the statements before it are lost, '
                  'the re-issued one and those after it are committed, and the caller sees success)', m.path, f.lineno)
    # a cursor / bound execute method handed to code outside this module cannot be followed
    for k, c, what in flow.escapes:
        if k not in reach and not (k[0] == 'm'):
            continue
        callee = (pf.dotted(c.func) or pf.nsrc(c.func)).split('.')[-1]
        if callee in BACKOFF_NAMES or (what == 'cursor' and callee in BENIGN_CURSOR_CALLEES):
            continue
        raise AnalysisError(f'{flow.label(k)}: `{pf.nsrc(c)[:100]}` hands a cursor / statement-executing callable to `{pf.nsrc(c.func)}`, which is not defined in {DB}')


def r6(ctx: Ctx, m: pf.Module) -> None:
    dbc = m.cls('Database')
    meths = {f.name: f for f in dbc.body if isinstance(f, (ast.AsyncFunctionDef, ast.FunctionDef))}
    opening: Set[str] = set()

    def opens_of(fn) -> List[Tuple[ast.AST, str]]:
        out: List[Tuple[ast.AST, str]] = []
        for c in pf.walk_shallow(fn):
            if isinstance(c, ast.Call) and isinstance(c.func, ast.Attribute) and pf.nsrc(c.func.value) == 'self':
                if c.func.attr == 'start':
                    out.append((c, 'self.start()'))
                elif c.func.attr in opening:
                    out.append((c, f'self.{c.func.attr}()'))
        return out
    changed = True
    while changed:
        changed = False
        for n, f in meths.items():
            if n not in opening and n != 'start' and opens_of(f):
                opening.add(n)
                changed = True
    ctx.need(len(opening) >= 9, f'Database: only {sorted(opening)} open transactions')
    for n in sorted(opening):
        f = meths[n]
        cons = f'{DB}::Database.{n}'
        ops = opens_of(f)
        par = m.parents()
        in_loop = []
        for c, what in ops:
            x = c
            while x is not f:
                p = par[x]
                if isinstance(p, (ast.For, ast.AsyncFor, ast.While)) and x is not getattr(p, 'iter', None) or isinstance(p, (ast.ListComp, ast.SetComp, ast.DictComp, ast.GeneratorExp)):
                    in_loop.append((c, what))
                    break
                x = p
        ctx.check(len(ops) == 1 and not in_loop, 'R6', cons + '::one transaction per operation', f'{n} opens {len(ops)} transactions per call ({[w for _, w in ops]}{", in a loop" if in_loop else ""}): a failure between two of '
                  'them leaves the earlier ones committed -- the operation is no longer all-or-nothing', m.path, f.lineno)
    em = meths.get('execute_many')
    ctx.need(em is not None, 'Database.execute_many not found')
    fwd = [c for c in ast.walk(em) if isinstance(c, ast.Call) and pf.nsrc(c.func) == 'tx.execute_many']
    arr = em.args.args[2].arg if len(em.args.args) > 2 else None
    ok = len(fwd) == 1 and len(fwd[0].args) >= 2 and pf.nsrc(fwd[0].args[1]) == arr
    if not any(w == 'self.start()' for _, w in opens_of(em)):
        ctx.ok('R6', f'{DB}::Database.execute_many::whole array in one transaction', 'delegates to another single-transaction method (covered by one transaction per operation)')
    else:
        ctx.check(ok, 'R6', f'{DB}::Database.execute_many::whole array in one transaction', 'Database.execute_many does not hand its whole argument array to a single Transaction.execute_many', m.path, em.lineno)


# --------------------------------------------------------------------------------------
# R7 / R8: no handler on the retry path changes the retryability of the error the classifier sees
# --------------------------------------------------------------------------------------
# abstract domain of the caught exception: (class, retryable by the classifier)
K_OP_T, K_OP_F, K_IN_T, K_IN_F, K_OTHER, K_NON = ('OperationalError', True), ('OperationalError', False), ('InternalError', True), ('InternalError', False), ('OtherMySQL', False), ('NonMySQL', False)
KINDS = (K_OP_T, K_OP_F, K_IN_T, K_IN_F, K_OTHER, K_NON)
MYSQL_KINDS = frozenset(KINDS[:5])
WITNESS = {K_OP_T: 'pymysql.err.OperationalError(1213, "Deadlock found when trying to get lock")', K_OP_F: 'pymysql.err.OperationalError(1317, "Query execution was interrupted")',
           K_IN_T: 'pymysql.err.InternalError(1205, "Lock wait timeout exceeded")', K_IN_F: 'pymysql.err.InternalError(1030, "Got error 28 from storage engine")',
           K_OTHER: 'pymysql.err.IntegrityError(1062, "Duplicate entry")', K_NON: 'asyncio.TimeoutError()'}
# pymysql.err hierarchy (trusted): MySQLError > {Warning, Error > {InterfaceError, DatabaseError > {DataError, OperationalError, IntegrityError, InternalError, ProgrammingError, NotSupportedError}}}
MYSQL_ROOTS = ('MySQLError', 'Error')
MYSQL_LEAVES = ('IntegrityError', 'ProgrammingError', 'DataError', 'NotSupportedError', 'InterfaceError', 'Warning')
BUILTIN_EXC = {n for n in dir(builtins) if isinstance(getattr(builtins, n), type) and issubclass(getattr(builtins, n), BaseException)}


def _exc_class(m: pf.Module, e: Optional[ast.expr], depth: int = 0) -> Optional[str]:
    """'ANY' (Exception/BaseException), 'mysql:<Class>', 'nonmysql', or None when the class cannot be resolved."""
    if e is None:
        return 'ANY'
    d = pf.dotted(e)
    if d is None or depth > 4:
        return None
    parts = d.split('.')
    imp = m.imports()
    if parts[0] in imp:
        full = (imp[parts[0]] + ('.' + '.'.join(parts[1:]) if parts[1:] else '')).lstrip('.')
        if full.split('.')[0] in ('pymysql', 'aiomysql'):
            name = full.split('.')[-1]
            if name in MYSQL_ROOTS + MYSQL_LEAVES + ('DatabaseError', 'OperationalError', 'InternalError'):
                return 'mysql:' + name
            return None
        return 'nonmysql'
    if len(parts) == 1:
        for c in m.tree.body:
            if isinstance(c, ast.ClassDef) and c.name == d:
                bs = [_exc_class(m, b, depth + 1) for b in c.bases]
                if not bs or any(b is None for b in bs):
                    return None
                my = [b for b in bs if b.startswith('mysql:')]
                return my[0] if my else 'nonmysql'
        if d in ('Exception', 'BaseException'):
            return 'ANY'
        if d in BUILTIN_EXC:
            return 'nonmysql'
    return None


def _kinds_of(cls: str) -> Tuple[FrozenSet, FrozenSet]:
    """(kinds an instance test on the class may accept, kinds it accepts entirely)."""
    if cls == 'ANY':
        return frozenset(KINDS), frozenset(KINDS)
    if cls == 'nonmysql':
        return frozenset([K_NON]), frozenset()
    name = cls.split(':')[1]
    if name in MYSQL_ROOTS:
        return MYSQL_KINDS, MYSQL_KINDS
    if name == 'DatabaseError':
        return MYSQL_KINDS, frozenset([K_OP_T, K_OP_F, K_IN_T, K_IN_F])
    if name == 'OperationalError':
        return frozenset([K_OP_T, K_OP_F]), frozenset([K_OP_T, K_OP_F])
    if name == 'InternalError':
        return frozenset([K_IN_T, K_IN_F]), frozenset([K_IN_T, K_IN_F])
    return frozenset([K_OTHER]), frozenset()


def _type_kinds(m: pf.Module, t: Optional[ast.expr]) -> Optional[Tuple[FrozenSet, FrozenSet]]:
    elts = t.elts if isinstance(t, ast.Tuple) else [t]
    may: Set = set()
    full: Set = set()
    for e in elts:
        c = _exc_class(m, e)
        if c is None:
            return None
        a, b = _kinds_of(c)
        may |= a
        full |= b
    return frozenset(may), frozenset(full)


class _Tables:
    def __init__(self, op: Set[int], it: Set[int]):
        self.codes = {'OperationalError': op, 'InternalError': it}
        self.names = {'operational_error_retry_codes': 'OperationalError', 'internal_error_retry_codes': 'InternalError'}


ERRTEXT = {1213: 'Deadlock found when trying to get lock', 1205: 'Lock wait timeout exceeded', 1040: 'Too many connections', 2003: "Can't connect to MySQL server", 2013: 'Lost connection to MySQL server during query',
           1317: 'Query execution was interrupted', 1030: 'Got error 28 from storage engine', 1062: 'Duplicate entry', 1064: 'You have an error in your SQL syntax', 1146: "Table doesn't exist"}
CLASSIFIER = 'exception_log_level_if_retryable'


def _mod_of(m: pf.Module, a: ast.AST) -> pf.Module:
    """Atoms that come from an inlined predicate helper are resolved in the module that defines the helper."""
    return getattr(a, cf.MOD_ATTR, m)


def _code_set(m: pf.Module, op: ast.cmpop, right: ast.expr, tb: _Tables) -> Optional[Set[int]]:
    """The set S of error codes such that `exc.args[0] <op> right` is `code in S` (Eq/In) resp. `code not in S` (NotEq/NotIn)."""
    if isinstance(op, (ast.Eq, ast.NotEq)):
        if isinstance(right, ast.Constant) and isinstance(right.value, int) and not isinstance(right.value, bool):
            return {right.value}
        return None
    if isinstance(op, (ast.In, ast.NotIn)):
        cs = _int_tuple(right)
        if cs is not None:
            return cs
        d = pf.dotted(right)
        if d is None:
            return None
        last = d.split('.')[-1]
        if '.' not in d:
            try:
                cs = _int_tuple(m.global_assign(d))
            except AnalysisError:
                cs = None
            if cs is not None:
                return cs
        if last in tb.names:
            return set(tb.codes[tb.names[last]])
    return None


def _code_test(a: ast.AST, nm: str) -> Optional[Tuple[ast.cmpop, ast.expr]]:
    if isinstance(a, ast.NamedExpr):
        a = a.value
    if isinstance(a, ast.Compare) and len(a.ops) == 1:
        left = a.left.value if isinstance(a.left, ast.NamedExpr) else a.left
        if pf.nsrc(left) == f'{nm}.args[0]':
            return a.ops[0], a.comparators[0]
    return None


def _mentioned_codes(m: pf.Module, atoms: List[ast.AST], nm: Optional[str], tb: _Tables) -> Set[int]:
    out: Set[int] = set()
    if nm is None:
        return out
    for a in atoms:
        ct = _code_test(a, nm)
        if ct is not None:
            cs = _code_set(_mod_of(m, a), ct[0], ct[1], tb)
            if cs is not None:
                out |= cs
    return out


def _refine(kinds: Set, mentioned: Set[int], tb: _Tables) -> List[Tuple]:
    """Abstract error kinds (class, accepted by the classifier, code): every code a test of the handler mentions is its own class, the
    remaining codes of a class fall into `retryable, not mentioned` / `not retryable, not mentioned` (code None)."""
    out: List[Tuple] = []
    for b in KINDS:
        if b not in kinds:
            continue
        if b[0] in tb.codes:
            table = tb.codes[b[0]]
            for c in sorted(mentioned):
                if (c in table) == b[1]:
                    out.append((b[0], b[1], c))
            if not b[1] or (table - mentioned):
                out.append((b[0], b[1], None))
        else:
            out.append((b[0], b[1], None))
    return out


def _witness(k: Tuple, tb: _Tables, mentioned: Set[int]) -> str:
    if k[0] in tb.codes:
        code = k[2] if len(k) > 2 else None
        if code is None:
            table = tb.codes[k[0]]
            pool = [c for c in (1213, 1205, 2013, 1040, 2003) + tuple(sorted(table)) if c in table] if k[1] else [c for c in (1317, 1030, 1064, 1146, 1105, 1792) if c not in table]
            pool = [c for c in pool if c not in mentioned]
            code = pool[0] if pool else None
        if code is not None:
            return f'pymysql.err.{k[0]}({code}, "{ERRTEXT.get(code, "...")}")'
    return WITNESS[(k[0], k[1])]


def _atom_value(m: pf.Module, a: ast.AST, nm: Optional[str], k: Tuple, tb: _Tables) -> Optional[bool]:
    """Value of a handler test atom on the abstract caught exception k = (class, retryable, code | None), None = not determined by k (free boolean)."""
    m = _mod_of(m, a)
    if isinstance(a, ast.NamedExpr):
        a = a.value
    if nm is None:
        return None
    cl = f'{CLASSIFIER}({nm})'
    if pf.nsrc(a) == cl or (isinstance(a, ast.Call) and len(a.args) == 1 and not a.keywords and pf.nsrc(a.args[0]) == nm and (pf.dotted(a.func) or '').split('.')[-1] == CLASSIFIER):
        return k[1]
    if isinstance(a, ast.Compare) and len(a.ops) == 1:
        left, op, right = a.left, a.ops[0], a.comparators[0]
        if isinstance(left, ast.NamedExpr):
            left = left.value
        if pf.nsrc(left) == cl and isinstance(right, ast.Constant) and right.value is None and isinstance(op, (ast.Is, ast.IsNot, ast.Eq, ast.NotEq)):
            return (not k[1]) if isinstance(op, (ast.Is, ast.Eq)) else k[1]
        if pf.nsrc(left) == f'{nm}.args[0]' and k[0] in tb.codes:
            cs = _code_set(m, op, right, tb)
            if cs is None:
                return None
            code = k[2] if len(k) > 2 else None
            # code None: some code no test of the handler mentions (every resolvable comparator set is part of `mentioned`)
            res = (code in cs) if code is not None else False
            return (not res) if isinstance(op, (ast.NotEq, ast.NotIn)) else res
    if isinstance(a, ast.Call) and pf.dotted(a.func) == 'isinstance' and len(a.args) == 2 and pf.nsrc(a.args[0]) == nm:
        tk = _type_kinds(m, a.args[1])
        if tk is None:
            return None
        may, full = tk
        if (k[0], k[1]) not in may:
            return False
        if (k[0], k[1]) in full:
            return True
    return None


def _raised_retryable(m: pf.Module, e: ast.expr, tb: _Tables) -> Optional[bool]:
    """Does the classifier accept the freshly constructed exception `e`?  None = cannot tell."""
    cls = _exc_class(m, e.func if isinstance(e, ast.Call) else e)
    if cls is None:
        return None
    if cls in ('ANY', 'nonmysql'):
        return False
    name = cls.split(':')[1]
    if name not in tb.codes:
        return False
    if isinstance(e, ast.Call) and e.args and isinstance(e.args[0], ast.Constant) and isinstance(e.args[0].value, int) and not e.keywords:
        return e.args[0].value in tb.codes[name]
    if isinstance(e, ast.Call) and not e.args and not e.keywords:
        return False    # exc.args == () -> the classifier's exc.args[0] raises IndexError: not retried either
    return None


class _Row:
    """One row of a handler's truth table: abstract error kind x valuation of the undetermined tests -> outcome."""
    def __init__(self, k: Tuple, full: Dict[str, bool], outcome: absdom.Outcome, free_mentions: List[str]):
        self.k, self.full, self.outcome, self.free_mentions = k, full, outcome, free_mentions


def _handler_table(m: pf.Module, tr: ast.Try, h: ast.ExceptHandler, tb: _Tables) -> Tuple[List[_Row], Set[int], int, List[str]]:
    """(rows, codes mentioned, number of test atoms, predicate helpers inlined).  Raises AnalysisError when the handler cannot be tabulated."""
    tk = _type_kinds(m, h.type) if h.type is not None else (frozenset(KINDS), frozenset(KINDS))
    if tk is None:
        raise AnalysisError(f'handler `except {pf.nsrc(h.type)}` at line {h.lineno}: exception class not resolved')
    kinds = set(tk[0])
    for prev in tr.handlers:
        if prev is h:
            break
        pk = _type_kinds(m, prev.type) if prev.type is not None else (frozenset(KINDS), frozenset(KINDS))
        if pk is not None:
            kinds -= pk[1]
    nm = h.name
    body0, inlined0 = cf.inline_handler_helpers(m, h)
    body, inlined = cf.inline_handler_tests(m, body0, nm, keep=(CLASSIFIER,))
    inlined = inlined0 + inlined
    atoms = absdom.collect_test_atoms(body)
    mentioned = _mentioned_codes(m, atoms, nm, tb)
    rows: List[_Row] = []
    for k in _refine(kinds, mentioned, tb):
        det = {absdom.atom_key(a): _atom_value(m, a, nm, k, tb) for a in atoms}
        free = [key for key, v in det.items() if v is None]
        if len(free) > 8:
            raise AnalysisError(f'handler at line {h.lineno}: {len(free)} undetermined tests')
        free_mentions = [key for key in free if nm and any(isinstance(n, ast.Name) and n.id == nm for a in atoms if absdom.atom_key(a) == key for n in ast.walk(a))]
        for val in absdom.valuations(free):
            full = dict(det)
            full.update(val)
            o = absdom.walk_block(body, lambda a, full=full: bool(full[absdom.atom_key(a)]))
            rows.append(_Row(k, {key: bool(v) for key, v in full.items()}, o, free_mentions))
    return rows, mentioned, len(atoms), inlined


def _path_text(full: Dict[str, bool]) -> str:
    cond = [f'{key}={v}' for key, v in full.items()]
    return f' [path: {", ".join(cond)}]' if cond else ''


def _nonraising_witness(m: pf.Module, tr: ast.Try, h: ast.ExceptHandler, tb: _Tables) -> str:
    """Text naming an abstract error for which the handler ends without raising (for messages only; '' when the table cannot be built)."""
    try:
        rows, mentioned, _, _ = _handler_table(m, tr, h, tb)
    except AnalysisError:
        return ''
    quiet = [r for r in rows if r.outcome.kind != 'raise']
    if not quiet:
        return ''
    # prefer a row that the tests decide, and a deadlock (the case in which InnoDB rolls the whole transaction back)
    quiet.sort(key=lambda r: (bool(r.free_mentions), not (len(r.k) > 2 and r.k[2] == 1213), not r.k[1]))
    r = quiet[0]
    return f': {_witness(r.k, tb, mentioned)} raised by the statement leaves the handler by `{r.outcome.kind}`' + _path_text(r.full)


def _handler_verdict(m: pf.Module, tr: ast.Try, h: ast.ExceptHandler, tb: _Tables) -> Tuple[str, str]:
    """('ok'|'bad', text).  Raises AnalysisError when the handler cannot be decided."""
    pure = all(isinstance(s, ast.Raise) and s.exc is None for s in h.body)
    if pure:
        return 'ok', 're-raises unchanged'
    nm = h.name
    rows, mentioned, n_atoms, inlined = _handler_table(m, tr, h, tb)
    stores = [s for s in ast.walk(ast.Module(body=h.body, type_ignores=[])) if isinstance(s, (ast.Assign, ast.AnnAssign, ast.AugAssign)) and nm and s.value is not None and nm in pf.names_in(s.value)]
    problems: List[str] = []
    undecidable: List[str] = []
    for row in rows:
        k, o = row.k, row.outcome
        why = None
        wit = _witness(k, tb, mentioned)
        if o.kind == 'raise':
            ex = o.node.exc
            same = ex is None or (isinstance(ex, ast.Name) and ex.id == nm) or \
                (isinstance(ex, ast.Call) and isinstance(ex.func, ast.Attribute) and ex.func.attr == 'with_traceback' and isinstance(ex.func.value, ast.Name) and ex.func.value.id == nm)
            if same:
                continue
            r = _raised_retryable(m, ex, tb)
            if r is None:
                undecidable.append(f'`{pf.nsrc(o.node)[:90]}`: cannot tell whether the classifier accepts the raised exception')
                continue
            if r and not k[1]:
                why = (f'{wit} raised inside the `try` is replaced by `{pf.nsrc(ex)[:110]}`, which the classifier accepts: an error that is not a deadlock / lock-wait timeout / lost connection / '
                       'connection limit is retried (with unbounded back-off) and never reported to the caller')
            elif not r and k[1]:
                why = (f'{wit} raised inside the `try` is replaced by `{pf.nsrc(ex)[:110]}`, which the classifier rejects: the transient error is reported to the caller instead of the '
                       'transaction being retried')
        else:
            if k[1]:
                if stores and o.kind == 'fall':
                    undecidable.append(f'the handler stores `{nm}` and falls through; a later re-raise is not tracked')
                    continue
                why = (f'{wit} raised inside the `try` is swallowed (handler path ends in `{o.kind}`): the transient error neither reaches the retry wrapper nor aborts the attempt')
        if why is not None:
            if row.free_mentions:
                undecidable.append(f'verdict depends on tests of `{nm}` that are not interpreted: {row.free_mentions}')
            else:
                problems.append(why + _path_text(row.full))
    if undecidable and not problems:
        raise AnalysisError(f'handler `except {pf.nsrc(h.type) if h.type else ""}` at line {h.lineno}: ' + undecidable[0])
    if problems:
        return 'bad', problems[0]
    n_kinds = len({r.k for r in rows})
    return 'ok', f'{n_kinds} abstract error kinds x {n_atoms} tests' + (f' (helpers inlined: {sorted(set(inlined))})' if inlined else '') + ': retryability preserved on every path'


def _handler_sites(m: pf.Module, fns: List[Tuple[str, pf.FuncDef]]) -> List[Tuple[str, pf.FuncDef, ast.Try, ast.ExceptHandler, str]]:
    out = []
    for q, fn in fns:
        seen: Dict[str, int] = {}
        for t in sorted((t for t in pf.walk_shallow(fn) if isinstance(t, ast.Try)), key=lambda t: (t.lineno, t.col_offset)):
            for h in t.handlers:
                ty = pf.nsrc(h.type) if h.type is not None else '<bare>'
                seen[ty] = seen.get(ty, 0) + 1
                out.append((q, fn, t, h, f'except {ty}' + (f' #{seen[ty]}' if seen[ty] > 1 else '')))
    return out


def _tables(m: pf.Module) -> _Tables:
    op = _int_tuple(m.global_assign('operational_error_retry_codes'))
    it = _int_tuple(m.global_assign('internal_error_retry_codes'))
    if op is None or it is None:
        raise AnalysisError('retry code tables are not literal tuples')
    return _Tables(op, it)


BACKGROUND = ('ensure_future', 'create_task')


def r7(ctx: Ctx, m: pf.Module) -> None:
    tb = _tables(m)
    par = m.parents()
    fns = m.functions()
    # functions whose every use in the module is the direct argument of a background-task spawn are not on the retry path
    background: Set[str] = set()
    for q, fn in fns:
        if '.' in q:
            continue
        uses = [n for n in ast.walk(m.tree) if isinstance(n, ast.Name) and n.id == q and isinstance(n.ctx, ast.Load)]
        def spawned(n: ast.Name) -> bool:
            c = par.get(n)
            if not (isinstance(c, ast.Call) and c.func is n):
                return False
            sp = par.get(c)
            return isinstance(sp, ast.Call) and c in sp.args and (pf.dotted(sp.func) or '').split('.')[-1] in BACKGROUND
        if uses and all(spawned(n) for n in uses):
            background.add(q)
    scope = [(q, fn) for q, fn in fns if q != 'retry_transient_mysql_errors.wrapper' and q.split('.')[0] not in background]
    n = 0
    for q, fn, tr, h, label in _handler_sites(m, scope):
        n += 1
        verdict, text_ = _handler_verdict(m, tr, h, tb)
        ctx.check(verdict == 'ok', 'R7', f'{DB}::{q}::{label}', f'{q}: {text_}', m.path, h.lineno, detail=text_)
    for q, fn in scope:
        for st in pf.walk_shallow(fn):
            if not isinstance(st, ast.Raise) or st.exc is None:
                continue
            x: ast.AST = st
            in_handler = False
            while x is not fn:
                x = par[x]
                if isinstance(x, ast.ExceptHandler):
                    in_handler = True
            if in_handler:
                continue
            r = _raised_retryable(m, st.exc, tb)
            if isinstance(st.exc, ast.Name) and r is None:
                continue    # re-raise of a stored exception object
            n += 1
            if r is None:
                c = _exc_class(m, st.exc.func if isinstance(st.exc, ast.Call) else st.exc)
                ctx.need(c is not None and c.startswith('mysql:'), f'{q}: cannot resolve the class of `{pf.nsrc(st)[:90]}`')
                raise AnalysisError(f'{q}: `{pf.nsrc(st)[:90]}` constructs a MySQL error whose code is not a literal')
            ctx.check(not r, 'R7', f'{DB}::{q}::raise {pf.nsrc(st.exc.func if isinstance(st.exc, ast.Call) else st.exc)}',
                      f'{q}: `{pf.nsrc(st)[:120]}` fabricates an error the retry classifier accepts: a condition that is not one of the transient MySQL errors makes every retried operation loop with back-off',
                      m.path, st.lineno)
    ctx.need(n >= 3, f'DB layer: only {n} handlers / raise sites found')
    ctx.unit('db_layer_handlers', n)


def _in_tx_functions(mm: pf.Module) -> List[Tuple[str, pf.FuncDef]]:
    out = []
    for q, fn in mm.functions():
        decos = [pf.dotted(d.func) if isinstance(d, ast.Call) else pf.dotted(d) for d in fn.decorator_list]
        names = {(d or '').split('.')[-1] for d in decos}
        params = [a.arg for a in fn.args.posonlyargs + fn.args.args + fn.args.kwonlyargs]
        if names & {'transaction', 'retry_transient_mysql_errors'} or 'tx' in params:
            out.append((q, fn))
    return out


def r8(ctx: Ctx, m: pf.Module) -> None:
    tb = _tables(m)
    dirs = ['batch', 'gear', 'auth', 'ci', 'monitoring', 'web_common', 'website', 'notebook'] if ctx.tier == 'thorough' else ['batch/batch', 'gear/gear', 'auth/auth', 'ci/ci']
    n = 0
    for rel in pf.walk_py(dirs):
        if rel == DB:
            continue
        try:
            mm = pf.load(rel)
        except (AnalysisError, SyntaxError):
            continue
        if 'tx' not in mm.src and 'transaction' not in mm.src:
            continue
        for q, fn, tr, h, label in _handler_sites(mm, _in_tx_functions(mm)):
            n += 1
            verdict, text_ = _handler_verdict(mm, tr, h, tb)
            ctx.check(verdict == 'ok', 'R8', f'{rel}::{q}::{label}', f'{q} runs inside a retried transaction: {text_}', mm.path, h.lineno, detail=text_)
    ctx.unit('in_transaction_handlers', n)


def run(ctx: Ctx) -> None:
    ctx.explanation = 'Retry decision table and code tables, nesting of retry around transactions at every retried site, exit discipline, and cross-language transaction rules over the SQL program.'
    ctx.rule('R1', 'retry wrapper re-raises iff the classifier is falsy; classifier == {InternalError 1205, OperationalError 1040/1213/2003/2013} with truthy levels', 7)
    ctx.rule('R2', 'retry wrapper encloses the transaction everywhere; no retried function takes an open Transaction; generators not retried', 24)
    ctx.rule('R3', 'Transaction exit: rollback on exception else commit, release in finally, shielded, errors propagate; autocommit off', 7)
    ctx.rule('R4', 'procedures: balanced transactions, no transaction statements in nested callees/triggers/functions; no implicit commit after a write on an open Transaction', 36)
    ctx.rule('R5', 'inside Transaction a failing statement aborts the transaction (seen through execute helpers that receive the cursor / bound method): no handler, finally-return or suppress swallows/re-issues, no retry decorator, no back-off', 21)
    ctx.rule('R6', 'every Database operation opens exactly one transaction per call, never in a loop; execute_many forwards its whole array', 10)
    ctx.rule('R7', 'DB layer: every handler between the retry wrapper and the statements preserves the retryability of the caught error (abstract domain class x error code, predicate helpers inlined); no fabricated transient errors', 3)
    ctx.rule('R8', 'application code inside a retried transaction: handlers neither turn a transient error into a non-retryable one nor the reverse, nor swallow it', 5)
    m = pf.load(DB)
    r1(ctx, m)
    r2(ctx, m)
    r3(ctx, m)
    r4(ctx)
    r5(ctx, m)
    r6(ctx, m)
    r7(ctx, m)
    r8(ctx, m)
